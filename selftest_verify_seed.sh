#!/bin/sh
# usage: selftest_verify_seed.sh <worktree> <prop-id> <n> [number to store it under]
# Confirms a seeded defect independently: suite still at baseline with the
# change, demo fails with it and passes without it.  Writes seeded/<id>_<n>/.
wt="$1"; id="$2"; n="$3"
out="/verif/seeded/${id}_m${4:-$n}"
export SAS_DLL_PATH="$wt/.dllcache_verify" SAS_OPENCL=none PYTHONPATH="$wt"
cd "$wt" || exit 2
git checkout -q -- . || exit 2
git apply --check "SEED/mutant$n.diff" || { echo "$id m$n: diff does not apply"; exit 2; }
/venv/bin/python "SEED/demo$n.py" >/tmp/seed/demo_${id}_${n}_clean.log 2>&1; clean=$?
git apply "SEED/mutant$n.diff"
/venv/bin/python -m pytest -q -p no:cacheprovider --timeout=900 --continue-on-collection-errors >/tmp/seed/pytest_${id}_${n}.log 2>&1
summary="$(tail -1 /tmp/seed/pytest_${id}_${n}.log)"
/venv/bin/python "SEED/demo$n.py" >/tmp/seed/demo_${id}_${n}_mut.log 2>&1; mut=$?
git checkout -q -- .
rm -rf "$wt/.dllcache_verify"
echo "$id m$n: clean_exit=$clean mutant_exit=$mut pytest: $summary"
case "$summary" in *"2 failed, 101 passed"*) ok=1;; *) ok=0;; esac
if [ "$clean" = 0 ] && [ "$mut" = 1 ] && [ "$ok" = 1 ]; then
  mkdir -p "$out"
  cp "SEED/mutant$n.diff" "$out/patch.diff"
  cp "SEED/demo$n.py" "$out/demo.py"
  /verif/.venv/bin/python - "$wt/SEED/meta$n.json" "$out/meta.json" "$summary" <<'PY'
import json,sys
m=json.load(open(sys.argv[1]))
m["confirmed_by_main_session"]={"suite_with_change":sys.argv[3],"demo_with_change":"exit 1 (FAIL)","demo_without_change":"exit 0 (PASS)",
  "how":"selftest_verify_seed.sh: git apply in a scratch worktree, full pytest suite, demo before/after"}
json.dump(m,open(sys.argv[2],"w"),indent=1)
PY
  echo "$id m$n: KEPT -> $out"
else
  echo "$id m$n: REJECTED"
fi
