#!/usr/bin/env python
"""Turn the output of selftest_seeds.sh into the table of DESIGN.md 11.9."""
import re
import sys
import os
import json

here = os.path.dirname(os.path.dirname(os.path.abspath(__file__)))
rows = []
for line in open(sys.argv[1]):
    m = re.match(r"(C\d\d_m\d): (.*)", line.strip())
    if not m:
        continue
    seed, rest = m.groups()
    meta = json.load(open(os.path.join(here, "seeded", seed, "meta.json")))
    what = meta.get("summary", "").split(":")[0][:90]
    if rest.startswith("patch does not apply"):
        rows.append((seed, what, "patch no longer applies (defect since repaired in /repo)", ""))
        continue
    code = re.search(r"exit=(\d)", rest)
    obl = re.findall(r"obligation (\S+) FAILED", rest)
    verdict = {"1": "VIOLATION", "2": "undecided", "0": "MISSED", "3": "checker error"}.get(code.group(1) if code else "?", "?")
    rows.append((seed, what, verdict, (obl[0] if obl else "")))
print("| seed | changed | quick check | first failing obligation |")
print("|----|----|----|----|")
for r in rows:
    print("| %s | %s | %s | `%s` |" % r)
