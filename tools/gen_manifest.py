#!/usr/bin/env python
"""Regenerate MANIFEST.json from the table below (kept next to the checks)."""
import json, os, sys
here = os.path.dirname(os.path.dirname(os.path.abspath(__file__)))
props = [json.loads(l) for l in open(os.path.join(here, "properties.jsonl"))]

TECH = "contract-based deductive verification: "
CHECKS = {
 "C01": dict(engine="cvc+pyvc",
   text="The generated kernels <model>_Iq/_Iqxy (kernel_iq.c as clang expands it for the model) are verified against the "
        "postcondition result' = (pd_start==0 ? 0 : result) + SUM_{s in [pd_start,pd_stop)} [VALID and W>cutoff] W f(P(s)) with P, W "
        "defined through decode_k(s) = (s/stride_k)%n_k: every dispersity while-loop carries an invariant and a postcondition "
        "(odometer states A_k/B_k, accumulator sums, parameter-vector frame), the body block is proved against its contract by "
        "symbolic execution of the same AST nodes (q loop by a map-loop rule, model functions uninterpreted, arguments taken from "
        "the parameter table), and the mixed-radix lemmas are proved by z3 for the model's MAX_PD (symbolic nq, mesh sizes, "
        "pd_start/pd_stop, cutoff, up to 5 nested loops).  Python side: DllKernel._call_kernel chunk loop (invariant over the "
        "100-step chunks), Kernel.Fq/Iq normalisation, scale and background, from the AST of the current tree.",
   note="[when a kernel's text leaves the shape the contract is stated over nothing is proved: the compiled kernel is then compared with the defining sum on the replay meshes (incl. one straddling a validity region over two invocations) and only a reproduced difference is a violation, otherwise undecided] [details.make_details (1..4 parameters x loop budget, thorough ..6) and make_kernel_args (1..3 non-magnetic parameters) are proved symbolically: slots, strides, num_eval, layout of the values vector] doubles are reals, int32 mathematical; quick tier proves 7 representative kernels (1-D/2-D, Fq/Iq, oriented symmetric and "
        "triaxial, MAX_PD 0..5), thorough all compiled models; _Imagnetic kernels and OpenCL/CUDA back ends not under contract; "
        "make_kernel_args/make_details (numpy argsort/cumprod) is a bounded run-time contract over all builtin (model, parameter) "
        "pairs; get_mesh/_pop_par_weights under C10, weights under C02",
   technique=TECH + "clang JSON AST of the generated kernel -> loop invariants/postconditions -> z3; Python AST -> z3; "
             "replay on the compiled DLL / real kernels",
   design="DESIGN.md 6 C01"),
 "C02": dict(engine="pyvc",
   text="weights.get_weights, Dispersion.get_weights/_linspace and the six _weights methods are executed symbolically from the AST of "
        "the current tree with a symbolic point count (arrays of symbolic length, elements addressed by skolem indices): values "
        "inside the limits and the support, strictly increasing, on the documented equally spaced grid, every grid point inside "
        "the limits takes part, unnormalised weight = documented density (by congruence on exp/log), normalisation by the sum of "
        "all weights, centre/width resolution (relative vs absolute) and the degenerate case are discharged by z3 for all inputs.",
   note="[the relative/absolute flag the interfaces hand to get_weights: checked against the declared type of every call parameter of every builtin model, vector elements included (contracts/tables.py)] reals for floats (finite/NaN-free weights only through the replay grid); numpy axioms linspace/mask selection/elementwise ops; "
        "lemmas sum_lin, sum_pos, exp>0 assumed; lognormal/schulz specified for relative widths and upper limit >= 1e-8 only",
   technique=TECH + "Python AST -> VCs over symbolic-length arrays -> z3 (quantifier-free lemma instances); differential replay grid on get_weights",
   design="DESIGN.md 6 C02"),
 "C03": dict(engine="pyvc",
   text="The weight builders are executed symbolically with 2-D arrays that have one concrete dimension (vp/pymat.py: 1-2 data points, "
        "calculation grid of symbolic length): bin_edges (midpoints, rejects short/decreasing grids); pinhole_resolution: every weight is "
        "[q' in (-2.5,+3) sigma window] (erf(z(edge j+1)) - erf(z(edge j))) divided by the column sum of those masses, masses >= 0 and > 0 "
        "inside the window (erf monotone); _q_perp_weights: telescoping differences of sqrt(u)/w, >= 0, ends 0 and w when the edges cover "
        "the window; slit_resolution rows for the perfect / length-only / width-only (normalised window masses) / both (average of 61 "
        "shifted perpendicular rows) modes; Pinhole1D/Slit1D constructors hand the weight builder an increasing grid with |q| >= 0.02 "
        "q_min, request theory at strictly positive q only, sigma >= 1e-8, same widths and window for extension and weights; "
        "pinhole_extend_q / slit_extend_q span EVERY point's window (symbolic number of points); apply_resolution_matrix is the weighted "
        "sum; 2-D ring weights >= 0; DataMixin._interpret_data builds Pinhole1D(x[index], dx[index]) iff SOME selected point has dx > 0 "
        "(else Perfect1D), Slit1D with the selected dxl/dxw (symbolic number of points, mask-select axioms).  'Sum to one / flat unchanged / scale and background linear' are instances of Lean lemmas "
        "(lemmas/Sas.lean) whose hypotheses are those obligations.",
   note="erf/exp/sqrt uninterpreted with instantiated monotonicity; reals; row/column independence (1-2 data points enumerated); "
        "linear/geometric_extrapolation and the scalar/None width conventions only in the bounded sweep (5 grids x widths x slit modes x 4 "
        "2-D accuracies); Pinhole2D index layout is C04; three recorded findings (Slit1D extension called with swapped extents, "
        "O(1e-5) mass loss below the first bin, single point with zero width)",
   technique=TECH + "Python AST symbolic execution with 2-D array model (one concrete dimension) -> elementwise VCs -> z3; sum laws as "
             "Lean-checked lemmas; replay on the real resolution classes",
   design="DESIGN.md 6 C03"),
 "C04": dict(engine="pyvc+zreal",
   text="What a contract can carry of a convergence statement: the weights ARE the bin masses of the documented kernels, so the smeared "
        "value is the midpoint quadrature of the documented integral.  Pinhole and slit: the C03 obligations on pinhole_resolution, "
        "_q_perp_weights and the slit_resolution rows (masses of N(q,sigma) on bins with centres in (-2.5,+3) sigma, renormalised; masses "
        "of du/L under u = sqrt(q'^2-q^2); multiplicity x bin width / 2W; average over 61 shifted centres) plus the z3 lemma that the "
        "code's multiplicity rule equals the number of preimages v in [-W,W] of q' = |q+v|.  2-D: the REAL Pinhole2D._calc_res is run by "
        "numpy on object arrays of symbolic reals (vp/zreal.py) for 1..3 pixels x accuracy settings; every one of the nbins*nq sample "
        "points equals the documented polar cloud (radial sigma dq_par, tangential dq_perp, rotated by +arctan(qy/qx)) and the ring "
        "weights are the Gaussian ring masses in the same bin order; apply() is the weighted mean per pixel.",
   note="the rate of convergence and the error bounds are real analysis outside the contracts: bounded numeric runs against scipy "
        "quad/dblquad (three smooth intensities x pinhole / slit-length / slit-width on spacings 4e-4, 2e-4, 1e-4; folded window; 2-D "
        "quadratic form with mixed term), labelled bounded; array shapes in the 2-D contract are enumerated, values symbolic; cloud "
        "equals the documented one up to q -> -q for qx < 0",
   technique=TECH + "real numpy code executed on symbolic object arrays -> polynomial normal-form comparison with the documented cloud; "
             "adopted elementwise VCs (z3) for the 1-D kernels; bounded quadrature comparison for the rates",
   design="DESIGN.md 6 C04"),
 "C05": dict(engine="cvc+pyvc",
   text="qac_rotation/qac_apply and qabc_rotation/qabc_apply are executed symbolically from clang's AST of the generated kernel "
        "source (the macro-expanded kernel_iq.c of the current tree) and every matrix entry is proved equal to the corresponding "
        "entry of (Rz(phi)Ry(theta)Rz(psi)Rx(dphi)Ry(dtheta)Rz(dpsi))^T by a complete polynomial normal form modulo sin^2+cos^2=1; "
        "|q| preservation, qab^2=qa^2+qb^2 and the detector/phi co-rotation lemma are proved over the contract.",
   note="sin/cos uninterpreted with s^2+c^2=1 (angle addition formulas for the co-rotation lemma); doubles are reals; the Python "
        "clauses: jitter distributions (absolute width, centred on 0, clipped to the parameter's limits) adopted from the C02 contracts, "
        "orientation inactive for 1-D under C10; kernel-level |cos dtheta| weight, jitter defaults 0, view angles from the value "
        "vector: kernel contract (cylinder Iq/Iqxy, parallelepiped Iqxy); I(-q) = I(q): the particle-frame function of each of the 21 "
        "oriented models is proved even under q -> -q (polynomial identity with the parity of the special functions given: 20 models, "
        "three of them through a parity lemma for their inner-quadrature helper proved on the helper's summand; stacked_disks has a "
        "bounded numeric check, not counted)",
   technique=TECH + "clang JSON AST -> symbolic execution -> polynomial normal form / z3; witnesses replayed on the compiled generated source",
   design="DESIGN.md 6 C05"),
 "C06": dict(engine="cvc",
   text="set_spin_weights and mag_sld (with clip/SET_VEC/ORTH_VEC/SCALAR_VEC inlined) are executed symbolically from clang's AST "
        "of the generated magnetic kernel source and proved equal, for all inputs, to the documented channel weights "
        "((1-i)(1-f), (1-i)f, i(1-f), if)/max(f,1-f) with clipping and to rho -/+ P.Mperp, e1.Mperp, -/+ e2.Mperp with "
        "Mperp = M - qhat(qhat.M); {P,e1,e2} orthonormal and Mperp perpendicular to q are lemmas.",
   note="[also: I(-rho) = I(rho), which the spin-flip term of the statement relies on, is proved per model for the function the 2-D "
        "kernel calls (35 of 45 compiled models with sld parameters; polynomial identity with |x| and the parity of the special functions "
        "given; the other 10 - vector slds, loops of symbolic length, slds reaching an inner quadrature - have a bounded numeric check)] "
        "doubles are reals; sqrt(x)^2=x; convert_magnetism (2-D numpy reshaping) is a bounded run-time contract; the per-q channel "
        "loop, slot layout and kernel selection are obligations of the kernel contract (kernel_c, in progress) and C11",
   technique=TECH + "clang JSON AST -> symbolic execution -> z3 nonlinear real arithmetic; witnesses replayed on the compiled generated source",
   design="DESIGN.md 6 C06"),
 "C07": dict(engine="pyvc",
   text="ProductKernel.__init__/Iq and _intermediates are executed symbolically from the AST of the current tree for symbolic "
        "p_npars, s_npars, magnetic count, volfraction position, weight count and nq (flag combinations enumerated); the exact "
        "value vectors and dispersity slices handed to P.Fq and S.Iq, the R_eff/volfraction injection, the combination formula "
        "with and without beta, the reported intermediates and the frame (caller's arrays unmodified) are postconditions "
        "discharged by z3.",
   note="reals for floats; P.Fq, S.Iq, make_details replaced by their contracts; the linear search for 'volfraction' in __init__ is "
        "summarised; the combined-table layout precondition is checked as a bounded run-time contract on all builtin (P,S) pairs",
   technique=TECH + "Python AST -> VCs -> z3, counter-models replayed on the real ProductKernel with recording stub kernels",
   design="DESIGN.md 6 C07"),
 "C08": dict(engine="pyvc",
   text="MixtureKernel.__init__/Iq and _MixtureParts.* are executed symbolically from the AST of the current tree "
        "(symbolic parameter counts, magnetic counts, weight-vector length, nq and part intensities; 1..4 parts enumerated = the "
        "property's quantifier) and the postconditions 'part k is called once with exactly its block of values/details' and "
        "'result = scale*sum/prod + background' are discharged by z3 for all values; index/slice safety obligations included.",
   note="reals for floats; part kernels and make_details replaced by their contracts; combined-table layout is a precondition "
        "(ParameterTable); part count enumerated 1..4; one recorded known finding (mixture-wide magnetic flag)",
   technique=TECH + "Python AST -> VCs -> z3, counter-models replayed on the real MixtureKernel", design="DESIGN.md 6 C08"),
 "C09": dict(engine="pyvc",
   text="kernelpy._loops (the Python dispersity loop) is executed symbolically from the AST of the current tree and proved against the "
        "same postcondition as the generated C kernel (result = hstack of the mesh sums of [W>cutoff and no NaN] W f(P(s)) with P, W "
        "defined through decode_k): loop invariant over the symbolic mesh (RangeInvariant) with the mixed-radix lemmas, obligation "
        "'parameter vector = P(step)' at every call of form/form_volume/form_radius, num_active 1..5 enumerated (= MAX_PD), all "
        "sizes and values symbolic; the num_active==0 shortcut is its own obligation.  Agreement of the two execution paths then "
        "follows by transitivity through the common specification.",
   note="[also under contract since the second seed round: PyKernel.__init__ (parameter vector spans values[2:nvalues], volume argument views) for three python-model tables; duplicate calling names (implicit, vector-expanded, magnetic) as a bounded table] products of reals and div/mod by symbolic divisors are uninterpreted in this VC (congruence suffices; the decode lemmas are "
        "proved separately); hypothesis VALID(P) <=> form(P) has no NaN links the validity mechanisms; PyKernel.__init__ argument views "
        "and definition validation (check_angles/check_duplicates) are bounded run-time contracts over enumerated tables; the C side "
        "is C01",
   technique=TECH + "Python AST -> loop-invariant VCs -> z3 (EUF + linear arithmetic with proved lemma instances)",
   design="DESIGN.md 6 C09"),
 "C10": dict(engine="pyvc",
   text="_pop_par_weights (all flag combinations), get_mesh (the parameter tables of all 78 builtin models x 1d/2d, key universe "
        "of every legal key plus unknown names / dispersity suffixes on non-dispersible parameters, symbolic presence bits), "
        "call_kernel, DataMixin._calc_theory (background added after smearing, 0 for sesans) and bumps create_parameters are "
        "executed symbolically; 'unknown name => TypeError, nothing else raises', 'exactly the parameter's own keys are consumed', "
        "'orientation inactive in 1-D', 'theory = apply(kernel at background 0) + background' and the frames are discharged by z3.",
   note="[also under contract: SasviewModel.setParam (26 legal/illegal names: exactly the entry is set, unknown or misspelt names raise and leave no stray key), which parameters are dispersible is checked against the declarations in the model files for all builtin tables (contracts/tables.py), DataMixin._interpret_data (index = limits & mask == 0 & not NaN for every point of a 1-D or 2-D data set of symbolic length, Iq/dIq the selected data, Pinhole2D built on that index), SasviewModel.set_dispersion (only dispersible names accepted; others raise and add no entry) and the Iq/Iqxy convenience functions (q and resolution arguments reach the documented slots of the data object)] weights.get_weights, make_kernel_args, the kernel and resolution.apply replaced by their contracts; bumps Parameter is a "
        "stub contract (bumps is not installed); SasviewModel object plumbing and numerical equality of the interfaces end to end "
        "are not under contract (only the shared mesh/theory functions are)",
   technique=TECH + "Python AST -> VCs -> z3 with finite-map inputs; witnesses replayed on get_mesh/_pop_par_weights",
   design="DESIGN.md 6 C10"),
 "C11": dict(engine="pyvc",
   text="History independence is reduced to contracts: (a) frame conditions - caller dicts/arrays unchanged - for call_kernel, "
        "call_Fq, _calc_theory, Kernel.Iq/Fq, DllKernel._call_kernel (plus get_mesh, ProductKernel.Iq, MixtureKernel.Iq under "
        "C10/C07/C08); (b) functional post-state - after DllKernel._call_kernel every slot of the reused result buffer equals the "
        "full-mesh sum whatever its previous contents (loop invariant over the 100-step chunks, symbolic num_eval), including "
        "the empty mesh, and the arrays Kernel.Fq returns do not alias that buffer.",
   note="[bounded run-time frame contract: make_product_info / make_mixture_info leave the parts' ModelInfo and Parameter objects unchanged, every builtin P x S pair] [also under contract: sasview_model.load_custom_model (class built from the current module in all four cache situations), weights.Dispersion.__init__ (class-level defaults unmodified), SasviewModel.clone (no shared mutable table); returned arrays of Kernel.Fq do not alias the reused buffer (with replay)] compiled kernel replaced by its contract (C01); 'bit-identical to a fresh process' (floating point, OS) is not claimed; "
        "SasviewModel class-level caches are not under contract yet",
   technique=TECH + "Python AST -> VCs with loop invariants -> z3; frame and stale-buffer witnesses replayed on real kernels",
   design="DESIGN.md 6 C11"),
 "C12": dict(engine="cvc",
   text="Per oriented model the 1-D function (Fq or Iq, quadrature loops summarised as Sigma terms) and the 2-D function (Iqac/Iqabc) "
        "are executed symbolically from clang's AST of the generated source; the claim 'F2_1d = SUM_n c_n I2d(q n_n) with unit "
        "directions n_n and node weights c_n independent of q and the shape parameters' is proved as a polynomial identity on the "
        "Sigma-normal-form summand for symbolic node indices, with the unit directions discovered among the sin/cos, "
        "(sqrt(1-u^2), u) and half-angle atoms of the summand (square roots in canonical form; inner quadrature helpers shared by "
        "both functions enter through their contract).  SUM_n c_n = 1 and c_n >= 0 are ground obligations evaluated over every "
        "node of the quadrature tables in the generated source.  Coverage is per model and reported in the evidence (19 of 21 "
        "models under contract on the unchanged tree; the other two are the recorded findings).",
   note="a model whose identity does not close (independent formulations, Fq outside the subset, search budget) falls back to a "
        "bounded numeric stand-in (independent Gauss-Legendre orientation average of the compiled 2-D kernel, converged points "
        "only), never counted as proved; paracrystals have no reliable numeric reference and are NOT CHECKED if their identity "
        "does not close; shared helpers: body not interpreted, frame (reads only parameters, locals, const tables) checked on the "
        "AST; sqrt(v^2 P) = v sqrt(P) used for q and parameters with lower limit >= 0; node weights in float64; accuracy of the "
        "model's own quadrature is not claimed; two recorded known findings",
   technique=TECH + "clang JSON AST -> Sigma-normal forms -> polynomial identities (complete normal form); numeric orientation-average replay",
   design="DESIGN.md 6 C12"),
 "C13": dict(engine="symcheck",
   text="For every shape:* model with length/SLD/angle/dimensionless units every C function reachable from Iq/Fq/Iqac/Iqabc/form_volume/"
        "shell_volume/radius_effective (clang AST of the generated source) is graded with degree vectors (lambda, mu) derived from "
        "the declared units; a consistent grading proves f(lambda^d x) = lambda^k f(x) and f(mu rho) = mu^k f: deg(F^2)-deg(V_shell) = (3,2), "
        "deg(F)=deg(F^2)/2, volumes (3,0), R_eff (1,0); callees are graded modularly (memoised per argument degrees). A failed "
        "constraint names the expression and is replayed numerically (lambda/mu-scaled parameter sets, 1-D and 2-D) on the compiled model.",
   note="reals; special functions graded by signature (dimensionless in, dimensionless out); where the grading fails but the numeric "
        "scaling test agrees (thresholds against constants, q=0 branches) the clause is reported as a bounded numeric stand-in and not "
        "counted as proved (listed in the evidence); argument binding table->C call is a C01 obligation",
   technique=TECH + "degree grading (homogeneity contracts) over clang's AST, modular per function; numeric scaling replay",
   design="DESIGN.md 6 C13"),
 "C14": dict(engine="cvc+pyvc",
   text="For each of the 26 models with amplitude output, Fq is executed symbolically from clang's AST (helpers inlined, quadrature "
        "loops summarised as Sigma terms, special functions uninterpreted) and brought to Sigma-normal form; the clause 'F and F^2 "
        "are sums c_n f_n and c_n f_n^2 with a common node weight independent of q and the shape parameters' is a polynomial "
        "identity (normal form modulo sin^2+cos^2=1, sqrt^2, exp laws) for symbolic node indices, F2=F1^2 exactly for symmetric "
        "shapes; every 'equivalent volume sphere' mode satisfies M_4PI_3 R^3 = form_volume (cbrt^3=x); Kernel.Fq/Iq normalisation "
        "and the amplitude kernels (F,F^2 interleaving, shell-volume slot, chunk restart) by the C01 contracts.",
   note="[also: radius_effective has no zero divisor for positive size parameters in every selectable mode (cvc safety obligations, 120 discharged, superball undecided and not claimed); Kernel.Fq results do not alias the reused buffer] the inequality itself follows from the structure by the weighted Cauchy-Schwarz lemma (Lean) with the node weights "
        "c_n = s1^2/s2 evaluated over every node of the quadrature tables in the generated source (SUM c_n = 1, c_n >= 0: ground "
        "obligations, float64); inner quadratures in pure model-local helpers enter Fq by their contract (frame checked on the AST); "
        "the three models with vector parameters are proved for their clause F2 = F1^2 with the shell loops of symbolic length taken by the "
        "trivial contract (modified variables arbitrary afterwards); a model whose Fq leaves the subset would get a bounded numeric stand-in "
        "(listed, not counted); q->0 equality, positivity and finiteness only through the replay grid",
   technique=TECH + "clang JSON AST -> Sigma-normal forms -> polynomial identities / z3; replay grid on call_Fq",
   design="DESIGN.md 6 C14"),
 "C15": dict(engine="pyvc+rex",
   text="generate.convert_type is executed symbolically (z3 strings) and proved equal to '#define FLOAT_SIZE n' + convert(promote(source), "
        "type, flag) for the four precisions (integer promotion before literal tagging; ValueError otherwise); the three regular "
        "expressions are taken from the live module / the AST of _convert_type, parsed by CPython's regex parser and translated to z3 "
        "regular expressions: soundness, completeness, maximal-munch, context and overlap-freedom lemmas (for strings of any length) give "
        "'exactly the unsuffixed decimal floating constants get the suffix' and 'exactly the identifier tokens (c)double(N) are renamed'; "
        "core.parse_dtype is executed for every spelling x platform with symbolic model flags and GPU availability (stated type, '!' "
        "forces dll, fast flag, default rule); kerneldll.dll_path is injective in (tag, precision); kerneldll.make_dll on a ghost file "
        "system converts and compiles the given source at the precision that names the library.",
   note="[also under contract: DllModel._load_dll C argument types per precision; load_dll builds the DllModel with the precision of the library] alphabet 7-bit ASCII; the step from the regex lemmas to token streams is a paper argument (DESIGN.md), cross-checked by the "
        "bounded token-level differential against a reference C tokenizer on all 61 generated model sources x 2 precisions and on "
        "fragments; compiled float32/long double kernels are compared with double on a few models (all single-safe models in the "
        "thorough tier) - bounded, not counted; four recorded findings (leading-zero and hexadecimal constants, string literal "
        "contents, constant directly after a keyword)",
   technique=TECH + "Python AST symbolic execution over z3 strings + regular-expression language lemmas (z3 seq/re theory); witnesses "
             "replayed through generate.convert_type against a reference tokenizer",
   design="DESIGN.md 6 C15"),
 "C16": dict(engine="cvc+pyvc",
   text="For each reparameterisation of the program family (contracts/c16.py: ellipsoid volume/eccentricity with an intermediate, "
        "hollow_cylinder outer radius/wall fraction, parallelepiped aspect, sphere affine, cylinder with a validity region, lamellar "
        "with a generated C body; thorough adds core_shell_sphere, fractal, barbell, pearl_necklace and further insert_after "
        "placements) the kernel generated by core.reparameterize + generate.make_source is proved, from clang's AST of that source, "
        "against the C01 postcondition with every model-function argument and the validity predicate replaced by T(P(s)): the base "
        "parameters computed from the mesh point in the new parameters by an independent parser of the translation text "
        "(intermediates in order, header constants read by preprocessing the same source).  Same nest proof as C01 (decode lemmas, "
        "loop invariants, frame), so 'intermediates are recomputed at every mesh point' and 'view angles are read from the slot of "
        "theta' are obligations; the generated source must be well-formed C and generated function signatures must be the base "
        "table's parameters.",
   note="each kernel proof is for all parameter values, meshes, q vectors and chunk boundaries of its program, but the programs are an "
        "enumerated family, not all translations; model functions and C math functions uninterpreted, reals for doubles; translations "
        "using ?: or casts are outside the spec parser; derive_table placement/limits/theta_offset are run-time contracts per program "
        "(bounded, not counted); python kernel path by the shared C01 pykernel contracts",
   technique=TECH + "clang JSON AST of the generated reparameterised kernel -> guarded-command VCs (loop invariants, decode lemmas) -> z3; "
             "witnesses replayed on the compiled reparameterised and base models",
   design="DESIGN.md 6 C16"),
 "C17": dict(engine="pyvc",
   text="Cache coherence as contracts on the functions that implement it, composed by a z3 lemma: kerneldll.dll_path injective in "
        "(tag, precision); make_dll names the library by id + tag_source(given source) + effective precision, compiles exactly the "
        "converted given source, and a hit changes nothing (ghost file system, z3 strings); tag_source hashes the whole text; "
        "_add_source/_kernels keep the input texts; generate.load_template returns the current text iff the file's mtime is newer "
        "than the cached one and records (mtime, text); custom.need_reload is true iff some dependency is newer than the recorded "
        "load time (1-3 dependencies) and load_custom_kernel_module then re-imports, records module file + existing C sources and "
        "the newest of their mtimes; lemma: under a monotone clock these rules use the current text/module.",
   note="CRC32 treated as collision free; 'every input text reaches the generated source' is a bounded marker check of make_source "
        "over builtin models (every 4th in quick, all in thorough); one real 7-step edit/load/evaluate history (plugin with included "
        "C file, precision change, revert; same and fresh process) is a bounded stand-in for the history quantifier; module import "
        "machinery and direct_model's documented _model_cache are outside",
   technique=TECH + "Python AST symbolic execution (z3 strings, ghost mtime/text functions, symbolic dict caches) -> z3; coherence "
             "lemma in z3; replay on real files with controlled mtimes",
   design="DESIGN.md 6 C17"),
 "C18": dict(engine="pyvc",
   text="Rely/guarantee contracts on ghost state: kerneldll.make_dll is executed symbolically (all sources, ids, cache directories, "
        "precisions; z3 strings) on a ghost file system in which every os/tempfile/compiler call is an event and a possible crash or "
        "interleaving point.  Proved per path: G1 the compiler never writes to the final cache name, G2 the final name is published by "
        "exactly one os.replace of the file the compiler finished in a directory created by mkdtemp inside the cache directory, G3 "
        "nothing else writes/truncates/removes/renames the final name, G4 a hit changes nothing and a failed compile raises and "
        "publishes nothing, R the returned path is the final name; separately, the invariant 'final name absent or complete library "
        "of the named source' is inductive under G (z3) and implies what a concurrent reader (exists-then-dlopen) and a restart after a "
        "kill rely on; load_dll/DllModel._load_dll open exactly the returned path.",
   note="[move/copy into the final name count as non-atomic writes; further scripted stand-ins: failed build after another process published, publication primitive with TMPDIR on a second file system] not a schedule exploration: the step from 'every process satisfies G' to 'I holds in every interleaving / after every kill' is "
        "the standard rely/guarantee argument (stated, not mechanised beyond the inductiveness lemma); os.replace atomicity, compiler "
        "writes only its output, mkdtemp/mkstemp freshness are assumptions; bounded stand-ins with real processes (scripted compiler "
        "stopped half way then killed; 4-8 concurrent first loads on an empty cache) are listed and not counted",
   technique=TECH + "Python AST symbolic execution over z3 strings with a ghost file system (event trace) -> per-path guarantee "
             "obligations -> z3; rely/guarantee invariant lemma; replay with a scripted compiler and real processes",
   design="DESIGN.md 6 C18"),
 "C19": dict(engine="pyvc",
   text="SesansTransform._set_hankel and .apply are executed symbolically with the 2-D array model (1-2 spin-echo lengths enumerated, "
        "calculated q grid of symbolic length): q_calc[j] = exp(log q_min + j log 1.0003) with the documented q_min/q_max, positive "
        "and increasing, always at least two points; H0[j] = q_j dq_j/2pi; H[j,k] = accept(j,k) J0(q_j xi_k) q_j dq_j/2pi where accept "
        "is false exactly for unreachable q (q lambda/2pi outside [-1,1], numpy NaN) or arcsin(q lambda/2pi) > zaccept; apply(I)[k] = "
        "sum_j H[j,k] I_j - sum_j H0[j] I_j, i.e. the Riemann sum of (1/2pi) int [accept J0(q xi) - 1] I q dq; linearity by the Lean "
        "lemma apply_linear; no background is added for SESANS data (DataMixin._calc_theory, the C10 obligations).",
   note="J0/exp/log/arcsin uninterpreted (exp positivity and monotonicity instantiated); reals; the acceptance mask applies to the "
        "J0 term only (as documented in the code); accuracy of the Riemann sum (Gaussian pair within 5e-3 of the peak), linearity on "
        "the real code and single-point consistency are bounded runs",
   technique=TECH + "Python AST symbolic execution with 2-D array model (one concrete dimension, NaN-aware comparisons) -> elementwise VCs "
             "-> z3; replay on the real transform with unreachable q and finite acceptance",
   design="DESIGN.md 6 C19"),
 "C20": dict(engine="pyvc",
   text="convert_model and its 12 helpers are executed symbolically once per table entry and naming scheme with a finite-map "
        "input whose keys carry symbolic presence bits and symbolic values (state merging), so one run covers every subset "
        "of old names/attributes; no-exception, current-name, keys-exist, value-routing (x1e6 for SLDs) and defaults are "
        "postconditions discharged by z3; all 75 entries x 2 naming schemes on every run.",
   note="CONVERSION_TABLE and ModelInfo are data facts from the live modules; values are reals, strings opaque; "
        "hand-converted quantities are outside 'routing'; regions of recorded known findings are named obligations of their own",
   technique=TECH + "Python AST symbolic execution with guarded finite maps -> z3; witnesses replayed through convert_model",
   design="DESIGN.md 6 C20"),
}
checks = []
for pid in sorted(CHECKS):
    c = CHECKS[pid]
    checks.append({
        "property_id": pid,
        "quick_cmd": "./check %s --tier quick" % pid,
        "thorough_cmd": "./check %s --tier thorough" % pid,
        "evidence_file": "evidence/%s.json" % pid,
        "replay_cmd_template": "./check %s --replay {path}" % pid,
        "engine": c["engine"],
        "level_claimed": {"category": c.get("category", "proof"), "text": c["text"], "design_ref": c["design"]},
        "level_note": c["note"],
        "technique": c["technique"],
    })
NA = {}
m = {
 "version": 1,
 "setup_cmd": "sh ./setup.sh",
 "hooks": {"guard": "SASMODELS_VERIF",
           "enable": "no hooks: contracts are sidecar files under /verif/contracts; the verified text is re-read from /repo on every run",
           "baseline_off_cmd": "cd /repo && /venv/bin/python -m pytest -ra -q -p no:cacheprovider --timeout=900 --continue-on-collection-errors",
           "source_commits": [], "add_only": True},
 "engines": [
  {"name": "pyvc", "path": "vp/pyvc.py", "serves_properties": sorted(p for p, c in CHECKS.items() if "pyvc" in c["engine"]),
   "kind_free_text": "Python AST symbolic executor generating verification conditions for z3 (cvc5 fallback); sidecar contracts in contracts/"},
  {"name": "symcheck", "path": "vp/symcheck.py", "serves_properties": sorted(p for p, c in CHECKS.items() if "symcheck" in c["engine"]),
   "kind_free_text": "homogeneity/degree grading of C functions over clang's JSON AST (relational contracts)"},
  {"name": "rex", "path": "vp/rex.py", "serves_properties": sorted(p for p, c in CHECKS.items() if "rex" in c["engine"]),
   "kind_free_text": "Python re patterns (parsed by CPython's own regex parser) as z3 regular expressions; language lemmas as unsat queries"},
  {"name": "zreal", "path": "vp/zreal.py", "serves_properties": sorted(p for p, c in CHECKS.items() if "zreal" in c["engine"]),
   "kind_free_text": "runs the real numpy function on object arrays of symbolic reals (operator overloading building z3 terms); shapes concrete, values symbolic"},
  {"name": "cvc", "path": "vp/cvc.py", "serves_properties": sorted(p for p, c in CHECKS.items() if "cvc" in c["engine"]),
   "kind_free_text": "C symbolic executor over clang's JSON AST of the generated kernel source; VCs for z3"},
 ],
 "checks": checks,
 "notes": "Exit codes of every check: 0 held, 1 violation (VIOLATION line + replay file), 2 undecided (never a VIOLATION), 3 checker error. "
          "known_findings.txt lists recorded findings (region-specific obligations) and repaired defects.",
 "not_applicable": [{"property_id": p["id"],
                     "reason": NA.get(p["id"], "contracts for this property are not built yet (build in progress, DESIGN.md section 9)")}
                    for p in props if p["id"] not in CHECKS],
}
json.dump(m, open(os.path.join(here, "MANIFEST.json"), "w"), indent=1)
try:
    import jsonschema
    jsonschema.validate(m, json.load(open("/root/.vp/MANIFEST.schema.json")))
    for pid in CHECKS:
        p = os.path.join(here, "evidence", pid + ".json")
        if os.path.exists(p):
            jsonschema.validate(json.load(open(p)), json.load(open("/root/.vp/EVIDENCE.schema.json")))
    print("MANIFEST valid; claimed:", sorted(CHECKS))
except ImportError:
    pass
