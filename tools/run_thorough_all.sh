#!/bin/sh
# every thorough command, one after the other (used with `vp run` on a committed snapshot)
cd "$(dirname "$0")/.." || exit 2
for p in C01 C02 C03 C04 C05 C06 C07 C08 C09 C10 C11 C12 C13 C14 C15 C16 C17 C18 C19 C20; do
  timeout 7200 ./check $p --tier thorough 2>&1 | tail -1
done
