#!/usr/bin/env python
"""Rewrite the status table of DESIGN.md 11.3 (between the STATUS-TABLE markers) from the evidence files."""
import glob
import json
import os
import re

here = os.path.dirname(os.path.dirname(os.path.abspath(__file__)))
rows = ["| id | tier of the evidence | proof obligations discharged | covers | bounded (never counted) | known findings | wall time |",
        "|----|----|-----|-----|-----|-----|-----|"]
for f in sorted(glob.glob(os.path.join(here, "evidence", "C*.json"))):
    e = json.load(open(f))
    ob = e["coverage"].get("obligation_ids", {})
    cnt = {}
    for v in ob.values():
        cnt[(v["kind"], v["status"])] = cnt.get((v["kind"], v["status"]), 0) + 1
    known = sum(n for (k, s), n in cnt.items() if s == "known")
    rows.append("| %s | %s | %d | %d | %d | %d | %.0f s |" % (
        e["property_id"], e.get("tier", "quick"), cnt.get(("proof", "discharged"), 0),
        cnt.get(("cover", "discharged"), 0) + cnt.get(("canary", "discharged"), 0),
        cnt.get(("bounded", "discharged"), 0), known, e.get("wall_s", 0)))
table = "\n".join(rows)
p = os.path.join(here, "DESIGN.md")
c = open(p).read()
c2 = re.sub(r"<!-- STATUS-TABLE-BEGIN -->.*?<!-- STATUS-TABLE-END -->",
            "<!-- STATUS-TABLE-BEGIN -->\n" + table + "\n<!-- STATUS-TABLE-END -->", c, flags=re.S)
open(p, "w").write(c2)
print(table)
