#!/usr/bin/env python
"""Regenerate obligations.baseline.json from the evidence files of a clean run: the ids of the proof
obligations every later run of the same tier must generate again (vacuity guard: a change that makes
obligations disappear is reported as undecided, never as held).  C12 is pinned too since every model's identity closes well
inside the direction-search budget (a model that falls back to its numeric stand-in is then reported as
undecided, not as held)."""
import glob
import json
import os

here = os.path.dirname(os.path.dirname(os.path.abspath(__file__)))
out = {}
for f in sorted(glob.glob(os.path.join(here, "evidence", "C*.json"))):
    e = json.load(open(f))
    pid, tier = e["property_id"], e.get("tier", "quick")
    if tier != "quick":
        continue
    # obligations that are only registered when the solver decides them within its budget are not pinned
    ids = [k for k, v in e["coverage"].get("obligation_ids", {}).items()
           if v["kind"] == "proof" and "radius_effective_has_no_zero_divisor" not in k]
    out.setdefault(pid, {})[tier] = sorted(ids)
json.dump(out, open(os.path.join(here, "obligations.baseline.json"), "w"), indent=0)
print({k: len(v.get("quick", [])) for k, v in out.items()})
