#!/bin/sh
# Build the overlay interpreter: z3/cvc5/jsonschema from the offline wheelhouse
# on top of /venv's site-packages (numpy, scipy, the repository's deps).
here="$(cd "$(dirname "$0")" && pwd)"
cd "$here" || exit 1
export PIP_NO_INDEX=1
if [ ! -x .venv/bin/python ]; then
    /venv/bin/python -m venv .venv || exit 1
fi
.venv/bin/python -c "import z3, cvc5, jsonschema" >/dev/null 2>&1 || \
    .venv/bin/pip install -q --no-index --find-links /opt/veriftools/wheels z3-solver cvc5 jsonschema || exit 1
sp="$(.venv/bin/python -c 'import sysconfig; print(sysconfig.get_paths()["purelib"])')"
echo "import site; site.addsitedir('/venv/lib/python3.12/site-packages')" > "$sp/zz_overlay.pth"
.venv/bin/python -c "import z3, numpy, scipy, jsonschema; print('overlay ok', z3.get_version_string())"
