"""
C04 -- smeared values converge to the documented resolution integrals.

Deductive part (what a contract can carry): the weights ARE the bin masses of the
documented kernels, so the smeared value is the midpoint quadrature of the
documented integral:
  * pinhole: masses of N(q, sigma) on each calculation bin, centres restricted to
    (-2.5, +3) sigma, renormalised                           (C03 obligations, adopted)
  * slit: masses of du/L under u = sqrt(q'^2 - q^2); multiplicity of q' = |q + v|,
    v in [-W, W], times bin width / 2W; average over 61 shifted centres  (adopted)
    + z3 lemma: the code's multiplicity rule equals the number of preimages v
  * 2-D: Pinhole2D._calc_res -- the REAL function is run by numpy on object arrays of
    symbolic reals (vp/zreal.py) for 1..3 data points x the four accuracy settings;
    every sample point and ring weight is compared with the documented polar cloud
    (radial sigma = dq_par, tangential = dq_perp, rotated to the q direction); apply()
    is the weighted mean over the bins of each data point.
Convergence itself (error proportional to the grid spacing, bounds) is real analysis
outside the contracts: bounded numeric stand-in against adaptive quadrature.
"""
import math

import numpy as np
import z3

from vp.core import OutsideSubset, adopt

PROP = "C04"


# --------------------------------------------------------------------------
# 2-D: the real _calc_res on symbolic object arrays
# --------------------------------------------------------------------------

def _coeffs(expr, atoms):
    from vp import polynf
    return polynf.to_poly(expr, atoms)


def _close_poly(p1, p2, tol=1e-11):
    keys = set(p1.t) | set(p2.t)
    for k in keys:
        a, b = float(p1.t.get(k, 0)), float(p2.t.get(k, 0))
        if abs(a - b) > tol * max(1.0, abs(a), abs(b)):
            return False, (k, a, b)
    return True, None


def calc_res_contract(reg, tier):
    from sasmodels import resolution2d as R2
    from vp import zreal
    from vp.zreal import ZReal, symbols, COS, SIN, SQRT, ATAN
    fn = "sasmodels.resolution2d.Pinhole2D._calc_res"
    import inspect
    reg.function_under_contract(fn, "sasmodels/resolution2d.py", 0, 0, inspect.getsource(R2.Pinhole2D._calc_res))
    accs = ("low", "med", "high", "xhigh") if tier == "thorough" else ("low", "med", "high")
    for acc in accs:
        for nq in ((1, 2, 3) if tier == "thorough" or acc == "low" else (2,)):
            class Self(object):
                pass
            s = Self()
            s.nr, s.nphi, s.nsigma, s.coords = R2.NR[acc], R2.NPHI[acc], R2.NSIGMA, "polar"
            s.qx_data, s.qy_data = symbols("qx", nq), symbols("qy", nq)
            s.dqx_data, s.dqy_data = symbols("dq_par", nq), symbols("dq_perp", nq)
            tag = "%s.nq%d" % (acc, nq)
            try:
                qx_res, qy_res, w = R2.Pinhole2D._calc_res(s)
            except Exception as exc:      # noqa
                reg.undecided("%s.Pinhole2D._calc_res.engine.%s" % (PROP, tag), "real function failed on symbolic arrays: %r" % (exc,),
                              function=fn)
                continue
            nr, nphi = s.nr, s.nphi
            nbins = nr * nphi
            b = s.nsigma / nr
            ok_shape = (len(qx_res) == nbins * nq and len(qy_res) == nbins * nq and len(w) == nbins)
            atoms = {}
            bad = None
            wbad = None
            if ok_shape:
                for k in range(nbins * nq):
                    bi, iq = divmod(k, nq)
                    p, ir = divmod(bi, nr)
                    r = (ir + 0.5) * b
                    phi = 2.0 * math.pi * p / nphi
                    qxv, qyv = s.qx_data[iq].e, s.qy_data[iq].e
                    ang = ATAN(qyv / qxv)
                    c_, s_ = COS(ang), SIN(ang)
                    A = s.dqx_data[iq].e * zreal.term(r * math.cos(phi)) + SQRT(qxv * qxv + qyv * qyv)
                    B = s.dqy_data[iq].e * zreal.term(r * math.sin(phi))
                    want_x, want_y = A * c_ - B * s_, A * s_ + B * c_
                    for got, want, name in ((qx_res[k], want_x, "qx"), (qy_res[k], want_y, "qy")):
                        ok, why = _close_poly(_coeffs(zreal.term(got), atoms), _coeffs(want, atoms))
                        if not ok and bad is None:
                            bad = {"flat_index": k, "bin": bi, "ring": ir, "sector": p, "data_point": iq, "component": name,
                                   "real": str(z3.simplify(zreal.term(got)))[:300], "spec": str(z3.simplify(want))[:300]}
                for bi in range(nbins):
                    p, ir = divmod(bi, nr)
                    r = (ir + 0.5) * b
                    want = math.exp(-0.5 * (r - b / 2) ** 2) - math.exp(-0.5 * (r + b / 2) ** 2)
                    if abs(float(w[bi]) - want) > 1e-13 and wbad is None:
                        wbad = {"bin": bi, "real": float(w[bi]), "spec": want}
            rp = lambda mdl=None: replay_2d()
            for oid, cond, detail in (
                    ("sample_points_are_the_documented_polar_cloud", ok_shape and bad is None, bad),
                    ("ring_weights_are_gaussian_ring_masses_in_the_same_bin_order", ok_shape and wbad is None, wbad)):
                full = "%s.Pinhole2D._calc_res.%s.%s" % (PROP, oid, tag)
                if cond:
                    reg.passed(full, function=fn, engine="zreal", backend="numpy-on-symbolic-reals + polynomial normal form")
                else:
                    rep, info = replay_2d()
                    if rep:
                        reg.fail(full, dict(info, first_mismatch=detail), function=fn, engine="zreal")
                    else:
                        reg.undecided(full, "mismatch %r did not replay numerically" % (detail,), function=fn, engine="zreal")
    reg.assume("Pinhole2D._calc_res: array shapes enumerated (1..3 data points x accuracy settings), values symbolic; "
               "cos/sin/sqrt/arctan uninterpreted with cos(-x) = cos(x), sin(-x) = -sin(x); the q direction is "
               "arctan(qy/qx), i.e. the cloud is the documented one up to the point reflection q -> -q for qx < 0 "
               "(immaterial for I(q) = I(-q)); ring radii/angles compared as floats to 1e-11")


def apply2d_contract(reg):
    """Pinhole2D.apply: weighted mean over the bins of each data point."""
    from sasmodels import resolution2d as R2
    from vp import zreal
    from vp.zreal import symbols
    fn = "sasmodels.resolution2d.Pinhole2D.apply"
    for nq in (1, 2):
        class Self(object):
            pass
        s = Self()
        s.nr, s.nphi = 3, 4
        nb = 12
        s.qx_data = np.zeros(nq)
        s.q_calc_weights = np.linspace(0.1, 1.2, nb)
        theory = symbols("I", nb * nq)
        try:
            out = R2.Pinhole2D.apply(s, theory)
        except Exception as exc:      # noqa
            reg.undecided("%s.Pinhole2D.apply.engine.nq%d" % (PROP, nq), "real function failed on symbolic arrays: %r" % (exc,),
                          function=fn)
            continue
        ok = len(out) == nq
        atoms = {}
        if ok:
            W = float(np.sum(s.q_calc_weights))
            for iq in range(nq):
                want = sum((theory[bi * nq + iq].e * zreal.term(float(s.q_calc_weights[bi]) / W) for bi in range(nb)),
                           z3.RealVal(0))
                good, why = _close_poly(_coeffs(zreal.term(out[iq]), atoms), _coeffs(want, atoms))
                ok = ok and good
        oid = "%s.Pinhole2D.apply.value_is_weighted_mean_over_the_bins_of_the_data_point.nq%d" % (PROP, nq)
        if ok:
            reg.passed(oid, function=fn, engine="zreal", backend="numpy-on-symbolic-reals + polynomial normal form")
        else:
            rep, info = replay_2d()
            (reg.fail if rep else reg.undecided)(oid, info if rep else "mismatch did not replay", function=fn, engine="zreal")


def replay_2d():
    """Real Pinhole2D on a quadratic form with a mixed term against the exact elliptical-Gaussian average."""
    from scipy import integrate
    from sasmodels import resolution2d as R2

    class D(object):
        pass
    d = D()
    d.qx_data = np.array([0.05, 0.03, 0.08])
    d.qy_data = np.array([0.02, 0.07, -0.04])
    d.q_data = np.hypot(d.qx_data, d.qy_data)
    d.dqx_data = np.array([0.01, 0.008, 0.012])
    d.dqy_data = np.array([0.004, 0.003, 0.006])
    a, bq, cq, e = 3.0, 5.0, 2.0, 0.7
    f = lambda x, y: a * x * x + bq * x * y + cq * y * y + e
    res = R2.Pinhole2D(data=d, accuracy="xhigh")
    got = res.apply(f(*res.q_calc))
    want = []
    for qx, qy, sp, st in zip(d.qx_data, d.qy_data, d.dqx_data.copy(), d.dqy_data.copy()):
        qr = math.hypot(qx, qy)
        er, et = np.array([qx, qy]) / qr, np.array([-qy, qx]) / qr

        def g(rho, th):
            pos = qr * er + sp * rho * math.cos(th) * er + st * rho * math.sin(th) * et
            return f(pos[0], pos[1]) * math.exp(-rho * rho / 2) * rho
        num = integrate.dblquad(g, 0, 2 * math.pi, 0, 3.0)[0]
        den = 2 * math.pi * (1 - math.exp(-4.5))
        want.append(num / den)
    want = np.array(want)
    # error measured against the size of the smearing effect itself (smeared minus unsmeared value)
    centre = f(d.qx_data, d.qy_data)
    shift = np.abs(want - centre)
    err = np.abs(got - want) / shift
    return bool(np.max(err) > 2e-2), {"call": "Pinhole2D(accuracy='xhigh').apply on a quadratic form with a qx*qy term",
                                      "real": got.tolist(), "spec": want.tolist(), "unsmeared": centre.tolist(),
                                      "max_rel_err": float(np.max(err)),
                                      "note": "error relative to the smearing shift |smeared - unsmeared|"}


# --------------------------------------------------------------------------
# slit width: multiplicity of q' = |q + v|
# --------------------------------------------------------------------------

def multiplicity_lemma(reg):
    q, W, qp = z3.Reals("q W qprime")
    v1, v2 = qp - q, -qp - q
    n_pre = z3.If(z3.And(v1 >= -W, v1 <= W), 1, 0) + z3.If(z3.And(v2 >= -W, v2 <= W), 1, 0)
    absqw = z3.If(q - W >= 0, q - W, W - q)
    code = z3.If(z3.And(qp >= q - W, qp <= q + W), 1, 0) + z3.If(z3.And(q < W, qp < absqw), 1, 0)
    reg.prove("%s.lemma.slit_width_multiplicity_is_the_number_of_preimages" % PROP,
              [q >= 0, W > 0, qp > 0, qp != W - q], code == n_pre, function="sasmodels/resolution.py:slit_resolution",
              describe="for q' > 0 the code's (in_x + abs_x) equals #{v in [-W, W] : |q + v| = q'} (except at the single point q' = W - q)")


# --------------------------------------------------------------------------
# bounded: convergence against adaptive quadrature
# --------------------------------------------------------------------------

def convergence_runs(reg, tier):
    from scipy import integrate
    from scipy.special import erf
    from sasmodels import resolution
    where = "sasmodels/resolution.py: Pinhole1D / Slit1D with refined q_calc"
    funcs = {"lorentz2": lambda x: 1.0 / (1.0 + (x / 0.05) ** 2) ** 2,
             "poly": lambda x: 2.0 + 30 * x - 40 * x * x,
             "damped_cos": lambda x: np.exp(-x / 0.1) * (1.5 + np.cos(60 * x))}
    q = np.array([0.02, 0.05, 0.1, 0.17])

    def refine(lo, hi, h):
        n = int(math.ceil((hi - lo) / h)) + 1
        g = np.linspace(lo, hi, n)
        return np.unique(np.concatenate([g, q]))
    hs = [4e-4, 2e-4, 1e-4]
    cases = []
    sig = np.array([0.004, 0.006, 0.01, 0.02])
    for name, f in funcs.items():
        # pinhole
        exact = []
        for qi, si in zip(q, sig):
            num = integrate.quad(lambda x: f(x) * math.exp(-(x - qi) ** 2 / (2 * si * si)), qi - 2.5 * si, qi + 3 * si,
                                 epsabs=1e-13, epsrel=1e-12)[0]
            den = si * math.sqrt(2 * math.pi) * 0.5 * (erf(3 / math.sqrt(2)) + erf(2.5 / math.sqrt(2)))
            exact.append(num / den)
        errs = []
        for h in hs:
            r = resolution.Pinhole1D(q, sig, q_calc=refine(0.0005, 0.3, h))
            errs.append(float(np.max(np.abs(r.apply(f(r.q_calc)) - exact) / np.abs(exact))))
        cases.append(("pinhole." + name, errs))
        # slit length only
        L = 0.05
        exact = [integrate.quad(lambda u: f(math.sqrt(qi * qi + u * u)), 0, L, epsabs=1e-13, epsrel=1e-12)[0] / L for qi in q]
        errs = []
        for h in hs:
            r = resolution.Slit1D(q, q_length=L, q_width=0.0, q_calc=refine(0.0005, 0.3, h))
            errs.append(float(np.max(np.abs(r.apply(f(r.q_calc)) - exact) / np.abs(exact))))
        cases.append(("slit_length." + name, errs))
        # slit width only (q >= W here; a window that folds at zero additionally loses [0, 0.02 q_min], see below)
        Wd = 0.015
        exact = [integrate.quad(lambda v: f(abs(qi + v)), -Wd, Wd, epsabs=1e-13, epsrel=1e-12, points=[-qi] if qi < Wd else None)[0]
                 / (2 * Wd) for qi in q]
        errs = []
        for h in hs:
            r = resolution.Slit1D(q, q_length=0.0, q_width=Wd, q_calc=refine(0.0002, 0.3, h))
            errs.append(float(np.max(np.abs(r.apply(f(r.q_calc)) - exact) / np.abs(exact))))
        cases.append(("slit_width." + name, errs))
    for name, errs in cases:
        oid = "%s.convergence.%s" % (PROP, name)
        # first order: relative error bounded by 0.6 h / (resolution width) on every grid for these test
        # intensities and smaller on the finest grid than on the coarsest (bins are included whole by their
        # centre, so the error is not monotone from one grid to the next)
        width = {"pinhole": float(sig.min()), "slit_length": 0.05, "slit_width": 0.015}[name.split(".")[0]]
        ok = all(e <= 0.6 * h / width + 1e-9 for e, h in zip(errs, hs)) and errs[2] <= 0.75 * errs[0] + 1e-9
        if ok:
            reg.passed(oid, function=where, engine="runtime-contract", kind="bounded", backend="cpython",
                       bound="spacings %s: max relative errors %s against scipy quad" % (hs, ["%.2e" % e for e in errs]))
        else:
            reg.fail(oid, {"call": "%s on grids of spacing %s" % (name, hs), "real": errs,
                           "spec": "relative error <= 0.6 h / width on every grid and decreasing from the coarsest to the finest"},
                     function=where, engine="runtime-contract", kind="bounded")
    # slit length and width together: the width direction is a fixed 61-point sum, whatever the calculation grid
    f = funcs["lorentz2"]
    Ld, Wd2 = 0.05, 0.015
    qb = np.array([0.05, 0.1, 0.17])
    exact = [integrate.dblquad(lambda u, v, qi=qi: f(math.sqrt((qi + v) ** 2 + u * u)), -Wd2, Wd2, 0, Ld,
                               epsabs=1e-12, epsrel=1e-10)[0] / (2 * Wd2 * Ld) for qi in qb]
    errs = []
    for h in hs:
        g = np.unique(np.concatenate([np.linspace(0.0005, 0.3, int(math.ceil(0.2995 / h)) + 1), qb]))
        r = resolution.Slit1D(qb, q_length=Ld, q_width=Wd2, q_calc=g)
        errs.append(float(np.max(np.abs(r.apply(f(r.q_calc)) - exact) / np.abs(exact))))
    oid = "%s.convergence.region.slit_length_and_width_fixed_61_point_sum" % PROP
    if all(e <= 0.6 * h / Wd2 + 1e-9 for e, h in zip(errs, hs)) and errs[2] <= 0.75 * errs[0] + 1e-9:
        reg.passed(oid, function=where, engine="runtime-contract", kind="bounded", backend="cpython",
                   bound="spacings %s: %s" % (hs, ["%.2e" % e for e in errs]))
    else:
        reg.fail(oid, {"call": "Slit1D(q, q_length=0.05, q_width=0.015) on grids of spacing %s against dblquad" % hs,
                       "real": errs, "spec": "relative error <= 0.6 h / width and decreasing with h"},
                 function=where, engine="runtime-contract", kind="bounded")
    # folded window (q < W): converges up to the mass of [0, 0.02 q_min] that the |q| cut removes
    f = funcs["lorentz2"]
    Wd, qf_ = 0.03, np.array([0.02, 0.05])
    exact = [integrate.quad(lambda v: f(abs(qi + v)), -Wd, Wd, points=[-qi] if qi < Wd else None)[0] / (2 * Wd) for qi in qf_]
    g = np.unique(np.concatenate([np.linspace(0.0004, 0.3, 3000), qf_]))
    r = resolution.Slit1D(qf_, q_length=0.0, q_width=Wd, q_calc=g)
    err = float(np.max(np.abs(r.apply(f(r.q_calc)) - exact) / np.abs(exact)))
    bound = 2 * 0.0004 / (2 * Wd) * 1.5 + 10 * 1e-4
    oid = "%s.convergence.slit_width.folded_window" % PROP
    if err <= bound:
        reg.passed(oid, function=where, engine="runtime-contract", kind="bounded", backend="cpython",
                   bound="q=0.02 < W=0.03: rel err %.2e <= %.2e (mass of the cut [0, 0.02 q_min] counted twice)" % (err, bound))
    else:
        reg.fail(oid, {"call": "Slit1D width only, q=0.02 < W=0.03, fine grid", "real": err, "spec": "<= %g" % bound},
                 function=where, engine="runtime-contract", kind="bounded")
    bad, info = replay_2d()
    oid = "%s.convergence.pinhole2d.quadratic_form_with_mixed_term" % PROP
    if bad:
        reg.fail(oid, info, function="sasmodels/resolution2d.py:Pinhole2D", engine="runtime-contract", kind="bounded")
    else:
        reg.passed(oid, function="sasmodels/resolution2d.py:Pinhole2D", engine="runtime-contract", kind="bounded",
                   backend="cpython", bound="xhigh accuracy, 3 pixels, max rel err %.2e" % info["max_rel_err"])


def check(reg, tier):
    from contracts import c03, leanlib
    calc_res_contract(reg, tier)
    apply2d_contract(reg)
    multiplicity_lemma(reg)
    # weights are the bin masses of the documented kernels: the C03 obligations on the same functions
    adopt(reg, lambda sub: c03.pinhole_resolution_contract(sub, 1), "C03", only="pinhole_resolution")
    adopt(reg, c03.q_perp_weights_contract, "C03", only="_q_perp_weights")
    adopt(reg, c03.slit_row_contracts, "C03", only="slit_resolution")
    convergence_runs(reg, tier)
    reg.assume("(erf(z(e2)) - erf(z(e1)))/2 is the mass of N(q, sigma) on [e1, e2] (definition of erf); the substitution "
               "u = sqrt(q'^2 - q^2) maps (1/L) du on [0, L] to the q' axis")
    reg.assume("rate of convergence (error proportional to the grid spacing, explicit bounds) is real analysis outside the "
               "contracts: only the bounded numeric runs speak to it")
