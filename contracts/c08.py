"""
C08 -- sum and product mixtures equal the stated combination of their parts.

Functions under contract (bodies re-read from /repo on every run):
  sasmodels.mixture.MixtureKernel.__init__, MixtureKernel.Iq,
  _MixtureParts.__init__/__iter__/__next__/_part_details/_part_values

Spec (from the property statement and the combined-table layout that
ParameterTable documents: [scale, background] ++ for each part k
([X_scale_k] if '+') ++ part k's parameters ++ [4 spin-state slots ++
3 slots per SLD, part by part] ++ dispersity values ++ weights):

  part k is called exactly once, in order, with
     values_k = [X_scale_k | 1, 0] ++ V[P_k : P_k+npars_k]
                ++ (nmag_k > 0 ? V[spin:spin+4] ++ V[M_k : M_k+3 nmag_k] : [])
                ++ V[NV : NV+2 NW] ++ zero padding to a multiple of 32
     details_k = make_details(info_k, length[P_k-2-..], offset[..], NW)
  and the result is  scale * sum_k I_k + background   ('+')
                     scale * prod_k I_k + background  ('*')
  for *all* values the I_k may take (in particular zeros).

All sizes (npars_k, nmag_k, NW, nq) are symbolic; the number of parts is
enumerated 1..4 (the property's quantifier is 2..4 components).
"""
import z3

from vp.pyvc import Interp, Sym, SArr, SObj, Summary, IRaise, DType, fresh, num_expr
from vp.core import OutsideSubset, z3val

PROP = "C08"
MOD = "sasmodels.mixture"


def setup(it, nparts, op):
    """Symbolic MixtureKernel instance + call arguments."""
    I = z3.Int
    s = 1 if op == "+" else 0
    npars = [I("npars%d" % k) for k in range(nparts)]
    nmag = [I("nmag%d" % k) for k in range(nparts)]
    NW = I("NW")
    nq = I("nq")
    pad = I("pad")
    for k in range(nparts):
        it.assume(npars[k] >= 0)
        it.assume(nmag[k] >= 0)
        it.assume(nmag[k] <= npars[k])      # SLDs are kernel parameters
    it.assume(NW >= 0)
    it.assume(nq >= 0)
    it.assume(pad >= 0)
    NP = sum((n + s for n in npars), z3.IntVal(0))
    NMAG = sum(nmag, z3.IntVal(0))
    NV = z3.If(NMAG > 0, 2 + NP + 4 + 3 * NMAG, 2 + NP)
    NP, NMAG, NV = z3.simplify(NP), z3.simplify(NMAG), z3.simplify(NV)
    total = NV + 2 * NW + pad
    # records
    part_infos = []
    for k in range(nparts):
        mag_index = it.new_array("magidx%d" % k, nmag[k], "int")
        # kernel_parameters counts a vector parameter once: 0 <= nkp <= npars
        nkp = z3.Int("nkernelpars%d" % k)
        it.assume(z3.And(nkp >= 0, nkp <= npars[k], z3.Implies(npars[k] > 0, nkp > 0)))
        kernel_parameters = it.new_array("kernelpar%d" % k, nkp, "int")
        pars = it.new_obj(None, {"npars": Sym(npars[k]), "magnetism_index": mag_index,
                                 "kernel_parameters": kernel_parameters,
                                 "nmagnetic": Sym(nmag[k])},
                          "parameters%d" % k)
        part_infos.append(it.new_obj(None, {"parameters": pars, "name": "part%d" % k},
                                     "info%d" % k))
    cpars = it.new_obj(None, {"npars": Sym(NP), "nvalues": Sym(NV)}, "parameters")
    info = it.new_obj(None, {"operation": op, "parameters": cpars,
                             "composition": ("mixture", it.new_list(part_infos))}, "info")
    values = it.new_array("V", total, "real")
    length = it.new_array("length", NP, "int")
    offset = it.new_array("offset", NP, "int")
    details = it.new_obj(None, {"length": length, "offset": offset,
                                "num_weights": Sym(NW)}, "call_details")
    calls = []

    def mk_kernel(k):
        Rk = z3.Function("I_part%d" % k, z3.IntSort(), z3.RealSort())

        def call(it_, args, kw):
            kd, kv, cutoff, magnetic = args
            calls.append((k, kd, kv, cutoff, magnetic))
            return it_.array_from_fn(lambda j, Rk=Rk: Rk(j), nq, "real", "I%d" % k)
        return it.new_obj(None, {"__call__": Summary(call, "part kernel %d" % k),
                                 "dtype": DType("f8"), "dim": "1d",
                                 "info": part_infos[k]}, "kernel%d" % k), Rk
    ks = [mk_kernel(k) for k in range(nparts)]
    kernels = it.new_list([k for k, _ in ks])
    Rs = [r for _, r in ks]

    def make_details_summary(it_, args, kw):
        minfo, ln, off, nw = args
        return it_.new_obj(None, {"info": minfo, "length": ln, "offset": off,
                                  "num_weights": nw}, "part_details")
    it.summaries["sasmodels.details.make_details"] = Summary(make_details_summary,
                                                             "make_details (contract C01)")
    sym = dict(npars=npars, nmag=nmag, nkp=[z3.Int("nkernelpars%d" % k) for k in range(nparts)], NW=NW, nq=nq, NP=NP, NMAG=NMAG, NV=NV, s=s,
               total=total, pad=pad)
    return info, kernels, details, values, calls, Rs, part_infos, sym


def check(reg, tier):
    import sasmodels.mixture as live
    from contracts import c08_replay
    for op in ("+", "*"):
        for nparts in (1, 2, 3, 4):
            _check_one(reg, op, nparts, c08_replay)
    reg.assume("callee contract: part kernels return an array of nq reals "
               "(Kernel.Iq contract, C01); make_details replaced by its contract")
    reg.assume("number of mixture components enumerated 1..4 (all sizes symbolic)")
    reg.assume("combined parameter table layout taken from ParameterTable's documented "
               "structure (precondition of MixtureKernel.Iq): npars = sum(npars_k + [op=='+']), "
               "nvalues = 2 + npars + (4 + 3*nmagnetic if nmagnetic else 0)")


def _check_one(reg, op, nparts, c08_replay):
    tag = "%s.n%d" % ("sum" if op == "+" else "prod", nparts)
    fn = MOD + ".MixtureKernel.Iq"

    def body(it):
        info, kernels, details, values, calls, Rs, part_infos, sym = setup(it, nparts, op)
        cutoff = fresh("cutoff")
        mk = it.new_obj(it_live("MixtureKernel"), name="MixtureKernel")
        init = it.get_func(MOD, "MixtureKernel.__init__")
        it.get_func(MOD, "_MixtureParts.__init__")
        it.get_func(MOD, "_MixtureParts.__iter__")
        it.get_func(MOD, "_MixtureParts.__next__")
        it.get_func(MOD, "_MixtureParts._part_details")
        it.get_func(MOD, "_MixtureParts._part_values")
        qvec = (it.new_array("q", sym["nq"], "real"),)
        it.call(init, [mk, info, kernels, qvec])
        iq = it.get_func(MOD, "MixtureKernel.Iq")
        # frame: snapshot of caller-visible argument contents
        v_before = values.buf.get
        len_before = details.attrs["length"].buf.get
        off_before = details.attrs["offset"].buf.get
        try:
            magnetic = fresh("magnetic", "bool")
            magnetic_e = magnetic.e
            # C06 contract of make_kernel_args: the flag is set iff some
            # magnetisation slot of the combined vector is non-zero.
            # ANY(lo, hi) <=> exists j in [lo, hi): V[j] != 0, used through the
            # lemma instance any_split: ANY(a, c) = ANY(a, b) or ANY(b, c), ANY(a, a) = False
            ANY = z3.Function("any_nonzero_V", z3.IntSort(), z3.IntSort(), z3.BoolSort())
            m0 = sym["NV"] - 3 * sym["NMAG"]
            bounds = [m0]
            for k_ in range(nparts):
                bounds.append(bounds[-1] + 3 * sym["nmag"][k_])
            it.assume(magnetic_e == z3.And(sym["NMAG"] > 0, ANY(bounds[0], bounds[-1])))
            it.assume(ANY(bounds[0], bounds[-1]) ==
                      z3.Or(*[ANY(bounds[i], bounds[i + 1]) for i in range(nparts)]))
            for i in range(nparts):
                it.assume(z3.Implies(sym["nmag"][i] == 0, z3.Not(ANY(bounds[i], bounds[i + 1]))))
            flag_goals = []
            out = it.call(iq, [mk, details, values, cutoff, magnetic])
        except IRaise as exc:
            reg.prove("%s.Iq.no_exception.%s" % (PROP, tag), it.pc, False, function=fn)
            return
        pc = list(it.pc)
        # side obligations: all slices/indices in bounds
        it.discharge_sides(reg, "%s.Iq" % PROP, function=fn)
        # each part called exactly once, in order
        order_ok = [c[0] for c in calls] == list(range(nparts))
        reg.prove("%s.Iq.calls_each_part_once_in_order.%s" % (PROP, tag), pc,
                  z3.BoolVal(order_ok), function=fn)
        if not order_ok:
            return
        V = lambda j: v_before(j)
        s, NV, NW = sym["s"], sym["NV"], sym["NW"]
        spin = NV - (4 + 3 * sym["NMAG"])        # only meaningful when NMAG > 0
        P = 2
        M = spin + 4
        for k in range(nparts):
            _, kd, kv, kcut, kmag = calls[k]
            npk, nmk = sym["npars"][k], sym["nmag"][k]
            Pk = P + s                               # first parameter of part k
            j = z3.Int("j")
            n_head = 2 + npk
            n_mag = z3.If(nmk > 0, 4 + 3 * nmk, 0)
            n_data = n_head + n_mag + 2 * NW

            def spec(j, Pk=Pk, npk=npk, nmk=nmk, n_head=n_head, n_mag=n_mag, n_data=n_data, M=M):
                first = V(z3.IntVal(0) + Pk - 1) if op == "+" else z3.RealVal(1)
                return z3.If(j == 0, first,
                       z3.If(j == 1, z3.RealVal(0),
                       z3.If(j < n_head, V(Pk + (j - 2)),
                       z3.If(j < n_head + n_mag,
                             z3.If(j < n_head + 4, V(spin + (j - n_head)),
                                   V(M + (j - n_head - 4))),
                       z3.If(j < n_data, V(NV + (j - n_head - n_mag)),
                             z3.RealVal(0))))))
            if not isinstance(kv, SArr):
                reg.prove("%s.part_values.is_array.%s.k%d" % (PROP, tag, k), pc, False, function=fn)
                continue
            klen = kv.n if not isinstance(kv.n, int) else z3.IntVal(kv.n)
            rp = c08_replay.make(op, nparts, sym, Rs, k)
            reg.prove("%s.part_values.length_padded32.%s.k%d" % (PROP, tag, k), pc,
                      z3.And(klen % 32 == 0, klen >= n_data, klen < n_data + 32),
                      function=MOD + "._MixtureParts._part_values", replay=rp)
            reg.prove("%s.part_values.content.%s.k%d" % (PROP, tag, k),
                      pc + [j >= 0, j < klen], kv.at(j) == spec(j),
                      function=MOD + "._MixtureParts._part_values", replay=rp)
            # details: length/offset block of this part, whole weight vector
            dl, do = kd.attrs["length"], kd.attrs["offset"]
            dlen = dl.n if not isinstance(dl.n, int) else z3.IntVal(dl.n)
            dolen = do.n if not isinstance(do.n, int) else z3.IntVal(do.n)
            reg.prove("%s.part_details.block.%s.k%d" % (PROP, tag, k),
                      pc + [j >= 0, j < npk],
                      z3.And(dlen == npk, dolen == npk,
                             dl.at(j) == len_before(Pk - 2 + j),
                             do.at(j) == off_before(Pk - 2 + j),
                             num_expr(kd.attrs["num_weights"]) == NW,
                             z3.BoolVal(kd.attrs["info"] is part_infos[k])),
                      function=MOD + "._MixtureParts._part_details", replay=rp)
            reg.prove("%s.part_call.cutoff_forwarded.%s.k%d" % (PROP, tag, k), pc,
                      num_expr(kcut) == num_expr(cutoff), function=fn)
            # "component k evaluated alone": alone, its magnetic kernel is
            # selected iff one of ITS magnetisation slots is non-zero
            from vp.pyvc import bool_expr
            own = z3.And(nmk > 0, ANY(M, M + 3 * nmk))
            flag_goals.append(bool_expr(kmag) == z3.And(magnetic_e, own))
            P = P + npk + s
            M = M + 3 * nmk
        reg.prove("%s.part_call.magnetic_flag_is_the_parts_own.%s" % (PROP, tag), pc,
                  z3.And(*flag_goals), function=fn,
                  replay=c08_replay.replay_magnetic_flag if nparts >= 2 else None)
        # combination
        j = z3.Int("jq")
        scale, bkg = V(z3.IntVal(0)), V(z3.IntVal(1))
        if op == "+":
            comb = sum((R(j) for R in Rs), z3.RealVal(0))
        else:
            comb = z3.RealVal(1)
            for R in Rs:
                comb = comb * R(j)
        rp = c08_replay.make(op, nparts, sym, Rs, None)
        if isinstance(out, SArr):
            olen = out.n if not isinstance(out.n, int) else z3.IntVal(out.n)
            reg.prove("%s.Iq.post.%s.%s" % (PROP, "sum" if op == "+" else "product", "n%d" % nparts),
                      pc + [j >= 0, j < sym["nq"]],
                      z3.And(olen == sym["nq"], out.at(j) == scale * comb + bkg),
                      function=fn, replay=rp, nl=True)
        else:
            reg.prove("%s.Iq.post.returns_array.%s" % (PROP, tag), pc, False, function=fn,
                      replay=rp)
        # frame (C11): the caller's values / details arrays are not written
        jj = z3.Int("jf")
        reg.prove("%s.Iq.frame.values_unmodified.%s" % (PROP, tag), pc,
                  z3.And(values.buf.get(jj) == v_before(jj),
                         details.attrs["length"].buf.get(jj) == len_before(jj),
                         details.attrs["offset"].buf.get(jj) == off_before(jj)),
                  function=fn)
        # vacuity: the path condition is satisfiable
        s_ = z3.Solver(); s_.add(*pc)
        if s_.check() != z3.sat:
            reg.errors.append("vacuous precondition in %s" % tag)
        reg.passed("%s.cover.pre_satisfiable.%s" % (PROP, tag), kind="cover")

    it = Interp(reg)
    it.run_paths(body)


def it_live(name):
    import sasmodels.mixture as live
    return getattr(live, name)
