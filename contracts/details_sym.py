"""
details.make_details under contract (C01, C09): for every number of kernel parameters n (1..6) and loop budget
max_pd (0..min(n,5)) the function is executed symbolically with symbolic distribution lengths and offsets.

  D1  num_active = #{p : length[p] != 1}; more than max_pd of them raise ValueError
  D2  the loop slots hold distinct parameter indices; slot k carries length[pd_par[k]], offset[pd_par[k]]
  D3  every parameter whose distribution has not exactly one point owns a loop slot
      (this is what lets the kernel read the nominal value for all other parameters)
  D4  pd_stride[k] = prod_{k' < k} pd_length[k'],  num_eval = prod_k pd_length[k]
      (the mixed-radix decode of the kernel contract, contracts/kernel_c.py)
  D5  num_weights, length, offset are the arguments
"""
import z3

from vp.pyvc import Interp, Sym, SArr, Summary, IRaise
from vp.core import OutsideSubset


def _sel(j, items):
    out = items[-1]
    for k in range(len(items) - 2, -1, -1):
        out = z3.If(j == k, items[k], out)
    return out


def make_details_contract(reg, prop, tier):
    import sasmodels.details as live
    fn = "sasmodels.details.make_details"
    shapes = [(n, mp) for n in (1, 2, 3, 4) for mp in range(0, min(n, 5) + 1)]
    if tier == "thorough":
        shapes += [(n, mp) for n in (5, 6) for mp in range(0, 6)]
    for n, max_pd in shapes:
        def body(it, n=n, max_pd=max_pd):
            L = [z3.Int("len_%d" % i) for i in range(n)]
            O = [z3.Int("off_%d" % i) for i in range(n)]
            nw = z3.Int("num_weights")
            it.assume(z3.And(*[x >= 0 for x in L]))
            length = it.array_from_fn(lambda j: _sel(j, L), n, "int", "length")
            offset = it.array_from_fn(lambda j: _sel(j, O), n, "int", "offset")
            pars = it.new_obj(None, {"max_pd": max_pd, "theta_offset": -1}, "parameters")
            info = it.new_obj(None, {"parameters": pars, "name": "m"}, "model_info")
            f = it.get_func("sasmodels.details", "make_details")
            tag = "n%d.max_pd%d" % (n, max_pd)
            nact = z3.Sum([z3.If(x != 1, 1, 0) for x in L])
            try:
                cd = it.call(f, [info, length, offset, Sym(nw)])
            except IRaise as exc:
                reg.prove("%s.make_details.D1_raises_only_for_too_many_loops.%s" % (prop, tag), it.pc,
                          z3.And(z3.BoolVal(isinstance(exc.value, ValueError)), nact > max_pd), function=fn)
                return
            pc = list(it.pc)
            reg.prove("%s.make_details.D1_no_exception_means_loops_fit.%s" % (prop, tag), pc, nact <= max_pd, function=fn)
            g = lambda name: it.getattr(cd, name)
            par, plen, poff, pstr = g("pd_par"), g("pd_length"), g("pd_offset"), g("pd_stride")
            na = g("num_active")
            reg.prove("%s.make_details.D1_num_active_counts_lengths_other_than_one.%s" % (prop, tag), pc,
                      (na.e if isinstance(na, Sym) else z3.IntVal(int(na))) == nact, function=fn)
            slots = [par.at(k) for k in range(max_pd)]
            d2 = [z3.And(s >= 0, s < n) for s in slots]
            if max_pd > 1:
                d2.append(z3.Distinct(*slots))
            for k in range(max_pd):
                d2.append(plen.at(k) == _sel(slots[k], L))
                d2.append(poff.at(k) == _sel(slots[k], O))
            reg.prove("%s.make_details.D2_slots_hold_distinct_parameters_with_their_length_and_offset.%s" % (prop, tag), pc,
                      z3.And(*d2) if d2 else z3.BoolVal(True), function=fn, timeout_ms=60000)
            d3 = []
            for p in range(n):
                d3.append(z3.Implies(L[p] != 1, z3.Or(*[s == p for s in slots]) if slots else z3.BoolVal(False)))
            reg.prove("%s.make_details.D3_every_distribution_without_exactly_one_point_owns_a_slot.%s" % (prop, tag), pc,
                      z3.And(*d3), function=fn, timeout_ms=60000,
                      replay=lambda mdl=None: replay_details())
            d4, prod = [], z3.IntVal(1)
            for k in range(max_pd):
                d4.append(pstr.at(k) == prod)
                prod = prod * plen.at(k)
            ne = g("num_eval")
            d4.append((ne.e if isinstance(ne, Sym) else z3.IntVal(int(ne))) == prod)
            reg.prove("%s.make_details.D4_strides_are_running_products_and_num_eval_the_total.%s" % (prop, tag), pc,
                      z3.And(*d4), function=fn, nl=True, timeout_ms=60000, replay=lambda mdl=None: replay_details())
            nwv = g("num_weights")
            reg.prove("%s.make_details.D5_passes_num_weights_length_offset.%s" % (prop, tag), pc,
                      z3.And((nwv.e if isinstance(nwv, Sym) else z3.IntVal(int(nwv))) == nw,
                             z3.BoolVal(g("length") is length and g("offset") is offset)), function=fn)
            it.discharge_sides(reg, "%s.make_details.%s" % (prop, tag), function=fn)
        it = Interp(reg)
        it.poison_one_arm = False
        try:
            it.run_paths(body)
        except OutsideSubset as exc:
            reg.undecided("%s.make_details.engine.n%d.max_pd%d" % (prop, n, max_pd), "outside subset: %s" % exc, function=fn)
    reg.assume("make_details: number of kernel parameters 1..4 (thorough: ..6) x max_pd enumerated, lengths and offsets symbolic; "
               "np.argsort is any ordering permutation; int32 storage of the details buffer treated as mathematical integers")


def replay_details():
    """Real make_details on a few length vectors against D2-D4."""
    import numpy as np
    from sasmodels import details, core
    info = core.load_model_info("parallelepiped")
    n = info.parameters.npars
    bad, out = False, []
    for lengths in ([1] * n, [1, 1, 3, 1, 7, 1, 1, 1][:n], [1, 0, 1, 4, 1, 1, 2, 1][:n], [5, 1, 1, 1, 1, 1, 1, 1][:n]):
        length = np.array(lengths)
        offset = np.cumsum(np.hstack((0, length)))
        cd = details.make_details(info, length, offset[:-1], offset[-1])
        mp = info.parameters.max_pd
        slots = list(cd.pd_par[:mp])
        ok = len(set(slots)) == len(slots) and all(cd.pd_length[k] == length[slots[k]] for k in range(mp)) \
            and all(p in slots for p in range(n) if length[p] != 1) \
            and all(cd.pd_stride[k] == int(np.prod(cd.pd_length[:k])) for k in range(mp)) \
            and cd.num_eval == int(np.prod(cd.pd_length[:mp]))
        bad = bad or not ok
        out.append({"length": lengths, "pd_par": [int(x) for x in slots], "pd_length": [int(x) for x in cd.pd_length],
                    "pd_stride": [int(x) for x in cd.pd_stride], "num_eval": int(cd.num_eval)})
    return bad, {"call": "details.make_details(<parallelepiped>, length, offset, num_weights)", "real": out,
                 "spec": "distinct slots carrying their lengths; all non-unit lengths in slots; strides = running products"}


# --------------------------------------------------------------------------
# details.make_kernel_args: layout of the values vector handed to the kernels
# --------------------------------------------------------------------------

class ParStub(object):
    def __init__(self, relative_pd):
        self.relative_pd = relative_pd


def make_kernel_args_contract(reg, prop, tier):
    """For n = 1..3 kernel parameters (non-magnetic) and symbolic distribution lengths:
      V1 values[0:2+n] = scale, background and, per parameter, the centre value -- or the single surviving point of a
         relative (size) distribution of length one
      V2 values[2+n + offset_i + k] = dispersity_i[k],  values[2+n + NW + offset_i + k] = weight_i[k]
      V3 make_details receives length_i = len(weight_i), offset_i = sum_{i' < i} length_i', num_weights = NW
      V4 the vector is padded with zeros to a multiple of 32 values
    """
    import sasmodels.details as live
    fn = "sasmodels.details.make_kernel_args"
    shapes = [(1, (True,)), (2, (True, False)), (3, (False, True, True))]
    for n, rel in shapes:
        def body(it, n=n, rel=rel):
            Ls = [z3.Int("L_%d" % i) for i in range(n)]
            it.assume(z3.And(*[x >= 0 for x in Ls]))
            mesh = []
            vals, disp, wts = [], [], []
            for i in range(n + 2):
                v = z3.Real("value_%d" % i)
                if i < 2:
                    d = it.array_from_fn(lambda j, v=v: v, 1, "real", "d_common")
                    w = it.array_from_fn(lambda j: z3.RealVal(1), 1, "real", "w_common")
                else:
                    d = it.new_array("dispersity_%d" % (i - 2), Ls[i - 2], "real")
                    w = it.new_array("weight_%d" % (i - 2), Ls[i - 2], "real")
                    disp.append(d)
                    wts.append(w)
                vals.append(v)
                mesh.append((Sym(v), d, w))
            cps = [ParStub(False), ParStub(False)] + [ParStub(r) for r in rel]
            pars = it.new_obj(None, {"npars": n, "nvalues": n + 2, "call_parameters": cps, "nmagnetic": 0}, "parameters")
            info = it.new_obj(None, {"parameters": pars}, "info")
            from vp.pyvc import DType
            kernel = it.new_obj(None, {"info": info, "dtype": DType("f8")}, "kernel")
            seen = {}

            def make_details(it_, a, k):
                seen["args"] = a
                return it_.new_obj(None, {}, "call_details")
            it.summaries["sasmodels.details.make_details"] = Summary(make_details, "make_details (contract D1-D5)")
            it.summaries["sasmodels.details.convert_magnetism"] = Summary(
                lambda it_, a, k: seen.update(mag=a) or False, "convert_magnetism (contract C06)", contract=False)
            f = it.get_func("sasmodels.details", "make_kernel_args")
            out = it.call(f, [kernel, it.new_list(mesh)])
            pc = list(it.pc)
            cd, data, mag = out if isinstance(out, tuple) else tuple(out.items)
            tag = "n%d" % n
            if not isinstance(data, SArr) or "args" not in seen:
                reg.undecided("%s.make_kernel_args.engine.%s" % (prop, tag), "values vector is not an array", function=fn)
                return
            NW = z3.Sum(Ls) if n > 1 else Ls[0]
            offs = [z3.Sum(Ls[:i]) if i > 1 else (Ls[0] if i == 1 else z3.IntVal(0)) for i in range(n)]
            rp = lambda mdl=None: replay_kernel_args()
            v1 = [data.at(0) == vals[0], data.at(1) == vals[1]]
            for i in range(n):
                centre = vals[i + 2]
                if rel[i]:
                    centre = z3.If(Ls[i] == 1, disp[i].at(0), vals[i + 2])
                v1.append(data.at(2 + i) == centre)
            reg.prove("%s.make_kernel_args.V1_scalars_are_centres_or_the_single_surviving_point.%s" % (prop, tag), pc,
                      z3.And(*v1), function=fn, replay=rp)
            k = z3.Int("k")
            for i in range(n):
                reg.prove("%s.make_kernel_args.V2_dispersity_and_weight_blocks.%s.par%d" % (prop, tag, i),
                          pc + [k >= 0, k < Ls[i]],
                          z3.And(data.at(2 + n + offs[i] + k) == disp[i].at(k),
                                 data.at(2 + n + NW + offs[i] + k) == wts[i].at(k)), function=fn, replay=rp, timeout_ms=60000)
            a = seen["args"]
            length, offset, nw = a[1], a[2], a[3]
            v3 = [z3.BoolVal(isinstance(length, SArr) and isinstance(offset, SArr))]
            if isinstance(length, SArr) and isinstance(offset, SArr):
                for i in range(n):
                    v3 += [length.at(i) == Ls[i], offset.at(i) == offs[i]]
                v3.append((nw.e if isinstance(nw, Sym) else z3.IntVal(int(nw))) == NW)
            reg.prove("%s.make_kernel_args.V3_lengths_offsets_and_total_handed_to_make_details.%s" % (prop, tag), pc,
                      z3.And(*v3), function=fn, replay=rp)
            dl = data.length()
            dle = dl.e if isinstance(dl, Sym) else z3.IntVal(dl)
            reg.prove("%s.make_kernel_args.V4_padded_with_zeros_to_a_multiple_of_32.%s" % (prop, tag),
                      pc + [k >= 2 + n + 2 * NW, k < dle],
                      z3.And(dle % 32 == 0, dle >= 2 + n + 2 * NW, dle < 2 + n + 2 * NW + 32, data.at(k) == 0), function=fn,
                      replay=rp)
            it.discharge_sides(reg, "%s.make_kernel_args.%s" % (prop, tag), function=fn)
        it = Interp(reg)
        it.poison_one_arm = False
        try:
            it.run_paths(body)
        except OutsideSubset as exc:
            reg.undecided("%s.make_kernel_args.engine.n%d" % (prop, n), "outside subset: %s" % exc, function=fn)
    reg.assume("make_kernel_args: 1..3 non-magnetic kernel parameters enumerated, distribution lengths symbolic; the magnetic "
               "conversion is C06's contract")


def replay_kernel_args():
    import numpy as np
    from sasmodels import core, details
    from sasmodels.direct_model import get_mesh
    m = core.load_model("cylinder")
    k = m.make_kernel([np.array([0.1])])
    pars = dict(radius=20.0, radius_pd=0.2, radius_pd_n=5, length=300.0, length_pd=0.1, length_pd_n=3, theta=10.0)
    mesh = get_mesh(m.info, pars, dim="1d")
    cd, data, mag = details.make_kernel_args(k, mesh)
    n = m.info.parameters.npars
    disp = [np.atleast_1d(v[1]) for v in mesh[2:2 + n]]
    wts = [np.atleast_1d(v[2]) for v in mesh[2:2 + n]]
    NW = sum(len(d) for d in disp)
    # scalar block: ALL call parameters (scale, background, the n kernel parameters and the magnetic slots),
    # then the dispersity values and weights of the n kernel parameters
    want = np.hstack([[v[0] for v in mesh[:m.info.parameters.nvalues]]] + disp + wts)
    got = np.asarray(data)
    bad = len(got) % 32 != 0 or not np.allclose(got[:len(want)], want) or np.any(got[len(want):] != 0) \
        or int(cd.num_weights) != NW
    return bool(bad), {"call": "make_kernel_args(<cylinder kernel>, mesh with radius_pd_n=5, length_pd_n=3)",
                       "real": got[:len(want) + 2].tolist(), "spec": want.tolist()}
