"""
C05 -- orientation and angular jitter follow the documented rotation convention.

Functions under contract (C, from the generated source of an oriented
symmetric model and an oriented triaxial model -- the text of kernel_iq.c as
clang expands it): qac_rotation, qac_apply, qabc_rotation, qabc_apply.
Kernel-level clauses (|cos dtheta| projection weight, jitter defaults 0, view
angles read from the value vector, 1-D kernels independent of orientation) are
obligations of the kernel contract (contracts/kernel_c.py) and are run from
here as well; the Python clauses (jitter centred on 0, orientation inactive in
1-D) are contracts of C10/C02 referenced in the evidence.

Spec (doc/guide/orientation/orientation.rst, property statement):
   R = Rz(phi) Ry(theta) Rz(psi) Rx(dphi) Ry(dtheta) Rz(dpsi)
   (qa, qb, qc) = R^-1 (qx, qy, 0) = R^T (qx, qy, 0)
with the elementary right-handed rotations
   Rz(a) = [[c,-s,0],[s,c,0],[0,0,1]]  Ry(a) = [[c,0,s],[0,1,0],[-s,0,c]]
   Rx(a) = [[1,0,0],[0,c,-s],[0,s,c]],  angles in degrees (factor M_PI_180).
sin/cos are uninterpreted with sin^2+cos^2 = 1 at each angle.
"""
import z3

from vp import cvc
from vp.cvc import CExec, Cell, Ptr, CStruct, uf, to_real
from vp.core import z3val

PROP = "C05"
DEG = None


def _lit_pi_180(tu):
    """The literal the header defines for M_PI_180 (read from the source text)."""
    import re
    m = re.search(r"#\s*define\s+M_PI_180\s+([0-9.eE+-]+)", tu.source)
    return m.group(1)


def rot_z(c, s):
    return [[c, -s, 0], [s, c, 0], [0, 0, 1]]


def rot_y(c, s):
    return [[c, 0, s], [0, 1, 0], [-s, 0, c]]


def rot_x(c, s):
    return [[1, 0, 0], [0, c, -s], [0, s, c]]


def matmul(A, B):
    return [[sum(A[i][k] * B[k][j] for k in range(3)) for j in range(3)] for i in range(3)]


def spec_R(sc):
    """R from a dict angle -> (cos, sin)."""
    R = rot_z(*sc["phi"])
    for M in (rot_y(*sc["theta"]), rot_z(*sc["psi"]), rot_x(*sc["dphi"]),
              rot_y(*sc["dtheta"]), rot_z(*sc["dpsi"])):
        R = matmul(R, M)
    return R


def check(reg, tier):
    _rotation(reg, "parallelepiped", triaxial=True)
    _rotation(reg, "cylinder", triaxial=False)
    from contracts import kernel_c
    kernel_c.orientation_clauses(reg, PROP, tier)
    # jitter distributions: absolute width, centred on zero, clipped to the parameter's own limits
    from contracts import c02
    from vp.core import adopt
    for kind in ("gaussian", "uniform"):
        adopt(reg, c02._dist, "C02", args=(kind, False))
    adopt(reg, c02._degenerate, "C02", only=".absolute")
    reg.assume("sin and cos are uninterpreted reals constrained only by sin^2+cos^2=1 at each angle")
    reg.assume("jitter distribution centred on 0 for absolute-width parameters and orientation "
               "parameters inactive for 1-D data: contracts C10.pop.degenerate_single_point.*.abs.* and "
               "C10.get_mesh.orientation_inactive_in_1d.* (and C02 for the non-degenerate case)")
    # "I(-q) = I(q)": the rotation R is linear, so the consequence needs the particle-frame function of each oriented
    # model to be even under (qa, qb, qc) -> -(qa, qb, qc)
    from contracts import parity
    parity.q_parity(reg, PROP)


def _rotation(reg, model, triaxial):
    tu = cvc.model_tu(model)
    ex = CExec(tu, reg)
    lit = _lit_pi_180(tu)
    k = cvc.cfloat(lit)
    names = ["theta", "phi", "psi", "dtheta", "dphi", "dpsi"] if triaxial else \
        ["theta", "phi", "dtheta", "dphi"]
    ang = {n: z3.Real(n) for n in names}
    sin, cos = uf("sin", 1), uf("cos", 1)
    sc = {}
    axioms = []
    pairs = []
    for n in ["theta", "phi", "psi", "dtheta", "dphi", "dpsi"]:
        if n in ang:
            t = ang[n] * k
            sc[n] = (cos(t), sin(t))
            pairs.append((sin(t), cos(t)))
            axioms.append(sin(t) * sin(t) + cos(t) * cos(t) == 1)
        else:
            sc[n] = (z3.RealVal(1), z3.RealVal(0))        # psi = dpsi = 0
    R = spec_R(sc)
    fname = "qabc_rotation" if triaxial else "qac_rotation"
    aname = "qabc_apply" if triaxial else "qac_apply"
    for f in (fname, aname):
        fn = tu.functions[f]
        if reg is not None:
            reg.function_under_contract("kernel_iq.c:%s [%s]" % (f, model), "sasmodels/kernel_iq.c",
                                        fn["loc"].get("presumedLine", 0), 0, tu.func_text(fn))
    rot = ex.new_record("QABCRotation" if triaxial else "QACRotation", "rotation")
    args = [Ptr(rot, 0)] + [ang[n] for n in names]
    ex.call_function(fname, args)
    got = {f: c.value for f, c in rot.fields.items()}
    qx, qy = z3.Real("qx"), z3.Real("qy")
    # (qa,qb,qc) = R^T (qx,qy,0): row i of R^T is column i of R
    rows = ["R1", "R2", "R3"] if triaxial else ["R3"]
    where = "kernel_iq.c:" + fname

    def replay_factory(entry):
        def replay(model_):
            return _replay_rotation(model, triaxial, model_, ang, qx, qy)
        return replay
    for i, rn in enumerate(rows):
        col = i if triaxial else 2
        for j in (0, 1):
            name = "%s%d" % (rn, j + 1)
            reg.prove("%s.%s.%s_is_Rdoc_transpose" % (PROP, fname, name), axioms,
                      got[name] == R[j][col], function=where, engine="cvc", nl=True,
                      replay=replay_factory(name), poly=pairs)
    # apply
    qa_c, qb_c, qc_c = Cell(None, "double", "qa"), Cell(None, "double", "qb"), Cell(None, "double", "qc")
    if triaxial:
        ex.call_function(aname, [Ptr(rot, 0), qx, qy, Ptr(qa_c, 0), Ptr(qb_c, 0), Ptr(qc_c, 0)])
        spec = [R[0][c] * qx + R[1][c] * qy for c in range(3)]
        reg.prove("%s.%s.q_particle_frame_is_Rinv_q" % (PROP, aname), axioms,
                  z3.And(qa_c.value == spec[0], qb_c.value == spec[1], qc_c.value == spec[2]),
                  function="kernel_iq.c:" + aname, engine="cvc", nl=True, replay=replay_factory("apply"),
                  poly=pairs)
        # orthogonality: |q_particle| = |q|
        reg.prove("%s.%s.rotation_preserves_length" % (PROP, aname), axioms,
                  qa_c.value * qa_c.value + qb_c.value * qb_c.value + qc_c.value * qc_c.value
                  == qx * qx + qy * qy, function="kernel_iq.c:" + aname, engine="cvc", nl=True,
                  timeout_ms=60000, poly=pairs)
    else:
        ex.call_function(aname, [Ptr(rot, 0), qx, qy, Ptr(qa_c, 0), Ptr(qc_c, 0)])
        qc_spec = R[0][2] * qx + R[1][2] * qy
        d = qx * qx + qy * qy - qc_spec * qc_spec
        sq = uf("sqrt", 1)
        reg.prove("%s.%s.qc_is_third_component_of_Rinv_q" % (PROP, aname), axioms,
                  qc_c.value == qc_spec, function="kernel_iq.c:" + aname, engine="cvc", nl=True,
                  replay=replay_factory("apply"), poly=pairs)
        # qab = sqrt(max(|q|^2 - qc^2, 0)): shape of the computed term, then the radicand
        v = qa_c.value
        shape_ok, dc = False, None
        if z3.is_app(v) and v.decl().kind() == z3.Z3_OP_ITE:
            cnd, a, b = v.children()
            if z3.is_app(a) and a.decl().name() == "sqrt" and a.num_args() == 1:
                dc = a.arg(0)
                shape_ok = z3.eq(z3.simplify(v), z3.simplify(z3.If(dc > 0, sq(dc), z3.RealVal(0))))
        if shape_ok:
            reg.passed("%s.%s.qab_is_sqrt_of_clipped_radicand" % (PROP, aname),
                       function="kernel_iq.c:" + aname, engine="cvc", backend="syntactic")
            reg.prove("%s.%s.qab_radicand_is_q_sq_minus_qc_sq" % (PROP, aname), axioms, dc == d,
                      function="kernel_iq.c:" + aname, engine="cvc", nl=True,
                      replay=replay_factory("apply"), poly=pairs)
        else:
            reg.prove("%s.%s.qab_is_sqrt_of_clipped_radicand" % (PROP, aname), axioms,
                      qa_c.value == z3.If(d > 0, sq(d), z3.RealVal(0)),
                      function="kernel_iq.c:" + aname, engine="cvc", nl=True,
                      replay=replay_factory("apply"))
        # qab^2 = qa^2 + qb^2 of the full rotation (so the clip at 0 only absorbs rounding)
        qa_s = R[0][0] * qx + R[1][0] * qy
        qb_s = R[0][1] * qx + R[1][1] * qy
        reg.prove("%s.%s.qab_sq_is_qa_sq_plus_qb_sq" % (PROP, aname), axioms,
                  d == qa_s * qa_s + qb_s * qb_s, function="kernel_iq.c:" + aname, engine="cvc",
                  nl=True, timeout_ms=60000, poly=pairs)
    # detector / phi co-rotation: R(phi+a)^T Rz(a) = R(phi)^T  (lemma over the contract)
    a_c, a_s = z3.Real("cos_a"), z3.Real("sin_a")
    ax2 = axioms + [a_c * a_c + a_s * a_s == 1]
    pairs2 = pairs + [(a_s, a_c)]
    sc2 = dict(sc)
    c0, s0 = sc["phi"]
    sc2["phi"] = (c0 * a_c - s0 * a_s, s0 * a_c + c0 * a_s)       # angle addition formulas
    R2 = spec_R(sc2)
    qx2, qy2 = a_c * qx - a_s * qy, a_s * qx + a_c * qy
    goals = [R2[0][c] * qx2 + R2[1][c] * qy2 == R[0][c] * qx + R[1][c] * qy for c in range(3)]
    reg.prove("%s.lemma.rotating_detector_point_and_phi_together_is_identity.%s" % (PROP, model),
              ax2, z3.And(*goals), function="spec lemma over " + fname, engine="cvc", nl=True,
              timeout_ms=60000, poly=pairs2)
    reg.assume("co-rotation lemma uses the angle addition formulas for sin/cos(phi+a) (axiom rot_add)")


def _replay_rotation(model, triaxial, m, ang, qx, qy):
    """Numeric replay: compile the generated source with a small exporting shim
    and compare qa,qb,qc with the documented matrix product."""
    import numpy as np
    from contracts import cshim
    vals = {n: z3val(m, a) for n, a in ang.items()}
    # the solver's witness is about uninterpreted sin/cos; use generic angles
    rng = np.random.RandomState(7)
    for n in vals:
        vals[n] = float(rng.uniform(-170, 170))
    x, y = 0.031, -0.047
    lib = cshim.build(model)
    if triaxial:
        got = lib.qabc(vals["theta"], vals["phi"], vals["psi"], vals["dtheta"], vals["dphi"],
                       vals["dpsi"], x, y)
    else:
        got = lib.qac(vals["theta"], vals["phi"], vals["dtheta"], vals["dphi"], x, y)

    def Rz(a):
        c, s = np.cos(np.radians(a)), np.sin(np.radians(a))
        return np.array([[c, -s, 0], [s, c, 0], [0, 0, 1]])

    def Ry(a):
        c, s = np.cos(np.radians(a)), np.sin(np.radians(a))
        return np.array([[c, 0, s], [0, 1, 0], [-s, 0, c]])

    def Rx(a):
        c, s = np.cos(np.radians(a)), np.sin(np.radians(a))
        return np.array([[1, 0, 0], [0, c, -s], [0, s, c]])
    R = Rz(vals["phi"]) @ Ry(vals["theta"]) @ Rz(vals.get("psi", 0.0)) @ Rx(vals["dphi"]) \
        @ Ry(vals["dtheta"]) @ Rz(vals.get("dpsi", 0.0))
    q = R.T @ np.array([x, y, 0.0])
    if triaxial:
        expect = q
    else:
        expect = np.array([np.sqrt(max(x * x + y * y - q[2] ** 2, 0.0)), q[2]])
    bad = not np.allclose(got, expect, rtol=1e-10, atol=1e-14)
    return bad, {"call": "%s rotation at angles %r, (qx,qy)=(%g,%g)" % (model, vals, x, y),
                 "real": list(map(float, got)), "spec": list(map(float, expect))}
