"""
C10 -- every calling interface yields the same theory; unknown parameters are refused.

Functions under contract (bodies from the AST of the current tree):
  direct_model._pop_par_weights, direct_model.get_mesh, direct_model.call_kernel,
  DataMixin._calc_theory (background handling), bumps_model.create_parameters
  (name checking), sasview_model.SasviewModel.setParam (name checking).

Contracts
  _pop_par_weights(p, values, active):
     removes from `values` exactly {p.name} u {p.name+s : s in _pd, _pd_n,
     _pd_nsigma, _pd_type} (the latter only for dispersible p) and nothing else;
     returns (value, [value | 0 if not relative], [1]) when inactive, npts == 0 or
     width == 0, else (value, *get_weights(type, npts, width, nsigma, value,
     limits, relative)); value = float(given or default).
  get_mesh(info, values, dim, mono):
     raises TypeError iff `values` holds a key that is not a parameter name or a
     dispersity attribute of a dispersible parameter; otherwise one mesh entry
     per call parameter, in table order; orientation/magnetic parameters are
     inactive for dim='1d'; the caller's dict is not modified.
  call_kernel: calculator(details, values, cutoff, is_magnetic) on exactly the
     mesh of get_mesh -> make_kernel_args (frame: pars unmodified).
  _calc_theory: result = resolution.apply(kernel at background 0) + background,
     background 0 for sesans data (C03/C19 share this obligation).
For get_mesh the parameter tables of all builtin models (live data facts) are
used with a key universe of every legal key plus illegal ones (unknown name,
dispersity suffix on a non-dispersible parameter, misspelt suffix), each with a
symbolic presence bit and value.
"""
import z3

from vp.pyvc import (Interp, Sym, SArr, SObj, SDict, SList, Summary, IRaise, fresh, num_expr,
                     bool_expr, is_sym)
from vp.core import OutsideSubset, z3val, run_parallel

PROP = "C10"
MOD = "sasmodels.direct_model"
SUFFIXES = ["_pd", "_pd_n", "_pd_nsigma", "_pd_type"]


class ParStub(object):
    """A parameter record (plain data)."""

    def __init__(self, name, polydisperse, relative_pd, default=1.0, limits=(0.0, 100.0),
                 ptype="volume"):
        self.name = self.id = name
        self.polydisperse = polydisperse
        self.relative_pd = relative_pd
        self.default = default
        self.limits = limits
        self.type = ptype


def check(reg, tier):
    _pop_contract(reg)
    from sasmodels import core
    names = core.list_models()
    run_parallel(reg, _mesh_job, [names[i::15] for i in range(15)])
    _call_kernel_contract(reg)
    _calc_theory_contract(reg)
    _name_checks(reg)
    _set_param_contract(reg)
    _set_dispersion_contract(reg)
    _convenience_contract(reg)
    from contracts import interp_data
    interp_data.contract(reg, PROP, {"selection"})
    interp_data.contract_2d(reg, PROP)
    # which parameters are dispersible is taken from the live tables by the get_mesh contracts: checked against the
    # declarations in the model files
    from contracts import tables
    tables.check(reg, PROP, "dispersible")
    reg.assume("weights.get_weights replaced by its contract (C02): returns two fresh arrays")
    reg.assume("parameter tables of the builtin models are data facts from the live modules")
    reg.assume("SasView/bumps object plumbing outside the named functions is not under contract")


# -------------------------------------------------------------------------
def _weights_summary(calls):
    def get_weights(it, args, kw):
        calls.append(tuple(args))
        n = z3.Int("gw_n!%d" % len(calls))
        it.assume(n >= 0)
        x = it.new_array("gw_x!%d" % len(calls), n, "real")
        w = it.new_array("gw_w!%d" % len(calls), n, "real")
        return (x, w)
    return Summary(get_weights, "weights.get_weights (contract C02)")


def _pop_contract(reg):
    fn = MOD + "._pop_par_weights"
    for poly in (False, True):
        for relative in (False, True):
            for active in (False, True):
                tag = "%s.%s.%s" % ("pd" if poly else "nopd", "rel" if relative else "abs",
                                    "active" if active else "inactive")

                def body(it, poly=poly, relative=relative, active=active, tag=tag):
                    calls = []
                    it.summaries["sasmodels.weights.get_weights"] = _weights_summary(calls)
                    par = ParStub("p", poly, relative, default=2.5, limits=(0.5, 99.0))
                    keys = ["p"] + ["p" + s for s in SUFFIXES] + ["q", "q_pd", "p_pd_x"]
                    d = it.new_dict()
                    pres, vals = {}, {}
                    for k in keys:
                        pres[k] = z3.Bool("has[%s]" % k)
                        vals[k] = z3.Real("val[%s]" % k) if k != "p_pd_n" else z3.Int("val[p_pd_n]")
                        d.entries[k] = (pres[k], Sym(vals[k]))
                    f = it.get_func(MOD, "_pop_par_weights")
                    try:
                        value, pdx, pdw = it.call(f, [par, d, active])
                    except IRaise as exc:
                        reg.prove("%s.pop.no_exception.%s" % (PROP, tag), it.pc, False, function=fn,
                                  describe=lambda m: {"raised": repr(exc.value)})
                        return
                    pc = list(it.pc)
                    # frame on the dict: exactly the parameter's own keys are removed
                    own = ["p"] + (["p" + s for s in SUFFIXES] if poly else [])
                    goals = []
                    for k in keys:
                        ent = d.entries.get(k, (False, None))
                        p_after = z3.BoolVal(ent[0]) if isinstance(ent[0], bool) else ent[0]
                        if k in own:
                            goals.append(z3.Not(p_after))
                        else:
                            goals.append(p_after == pres[k])
                            if ent[0] is not False:
                                goals.append(z3.Implies(pres[k], num_expr(ent[1]) == vals[k]))
                    reg.prove("%s.pop.removes_exactly_own_keys.%s" % (PROP, tag), pc, z3.And(*goals),
                              function=fn, replay=_pop_replay(poly, relative, active, keys, pres, vals))
                    v_spec = z3.If(pres["p"], vals["p"], z3.RealVal("2.5"))
                    reg.prove("%s.pop.value.%s" % (PROP, tag), pc, num_expr(value) == v_spec,
                              function=fn, replay=_pop_replay(poly, relative, active, keys, pres, vals))
                    npts = z3.If(pres["p_pd_n"], vals["p_pd_n"], 0)
                    width = z3.If(pres["p_pd"], vals["p_pd"], 0)
                    degenerate = z3.Or(npts == 0, width == 0, z3.BoolVal(not active)) if poly \
                        else z3.BoolVal(True)
                    if calls:
                        a = calls[-1]
                        spec_args = z3.And(
                            num_expr(a[1]) == npts, num_expr(a[2]) == width,
                            num_expr(a[3]) == z3.If(pres["p_pd_nsigma"], vals["p_pd_nsigma"], 3),
                            num_expr(a[4]) == v_spec, z3.BoolVal(a[5] == (0.5, 99.0)),
                            z3.BoolVal(a[6] is relative))
                        ok_type = True
                        if not is_sym(a[0]):
                            ok_type = False     # must be the given type or 'gaussian' merged
                        reg.prove("%s.pop.get_weights_arguments.%s" % (PROP, tag), pc,
                                  z3.And(z3.Not(degenerate), spec_args), function=fn)
                        reg.prove("%s.pop.returns_get_weights_result.%s" % (PROP, tag), pc,
                                  z3.BoolVal(isinstance(pdx, SArr) and isinstance(pdw, SArr)),
                                  function=fn)
                    else:
                        centre = v_spec if (relative or not poly) else z3.RealVal(0)
                        shape_ok = (isinstance(pdx, SList) and isinstance(pdw, SList)
                                    and len(pdx.items) == 1 and len(pdw.items) == 1)
                        g = z3.BoolVal(False)
                        if shape_ok:
                            g = z3.And(degenerate, num_expr(pdx.items[0]) == centre,
                                       num_expr(pdw.items[0]) == 1)
                        reg.prove("%s.pop.degenerate_single_point.%s" % (PROP, tag), pc, g,
                                  function=fn,
                                  replay=_pop_replay(poly, relative, active, keys, pres, vals))
                it = Interp(reg)
                it.run_paths(body)


def _pop_replay(poly, relative, active, keys, pres, vals):
    def replay(model):
        from sasmodels import direct_model
        par = ParStub("p", poly, relative, default=2.5, limits=(0.5, 99.0))
        d = {}
        for k in keys:
            if z3val(model, pres[k]) is True:
                d[k] = z3val(model, vals[k])
        if "p_pd_type" in d:
            d["p_pd_type"] = "gaussian"
        before = dict(d)
        try:
            value, x, w = direct_model._pop_par_weights(par, d, active)
        except Exception as exc:
            return True, {"call": "_pop_par_weights(p, %r, %r)" % (before, active), "raised": repr(exc)}
        own = ["p"] + (["p" + s for s in SUFFIXES] if poly else [])
        expect = {k: v for k, v in before.items() if k not in own}
        bad = []
        if d != expect:
            bad.append({"left_in_dict": d, "expected": expect})
        if value != float(before.get("p", 2.5)):
            bad.append({"value": value})
        npts, width = before.get("p_pd_n", 0), before.get("p_pd", 0.0)
        if (not poly) or npts == 0 or width == 0 or not active:
            c = value if (relative or not poly) else 0.0
            if list(x) != [c] or list(w) != [1.0]:
                bad.append({"degenerate": (list(x), list(w)), "expected": ([c], [1.0])})
        return bool(bad), {"call": "_pop_par_weights(p, %r, %r)" % (before, active), "mismatch": bad}
    return replay


# -------------------------------------------------------------------------
def _mesh_job(sub, names):
    for name in names:
        for dim in ("1d", "2d"):
            _mesh_contract(sub, name, dim)


def _mesh_contract(reg, name, dim):
    from sasmodels import core
    fn = MOD + ".get_mesh"
    info = core.load_model_info(name)
    pars = info.parameters.call_parameters
    legal = []
    for p in pars:
        legal.append(p.name)
        if p.polydisperse:
            legal += [p.name + s for s in SUFFIXES]
    nonpd = [p.name for p in pars if not p.polydisperse]
    illegal = ["zz_unknown", pars[-1].name + "_pd_nn", pars[-1].name.upper() + "X"]
    if nonpd:
        illegal += [nonpd[0] + "_pd", nonpd[-1] + "_pd_n"]
    illegal = [k for k in illegal if k not in legal]
    tag = "%s.%s" % (name, dim)

    def body(it):
        popped = []

        def pop_summary(it_, args, kw):
            p, vals = args[0], args[1]
            active = args[2] if len(args) > 2 else kw.get("active", True)
            own = [p.name] + ([p.name + s for s in SUFFIXES] if p.polydisperse else [])
            for k in own:
                vals.entries.pop(k, None)
            popped.append((p, active))
            v = fresh("value_" + p.name)
            return (v, it_.new_list([v]), it_.new_list([1.0]))
        it.summaries[MOD + "._pop_par_weights"] = Summary(pop_summary, "_pop_par_weights (contract)")
        d = it.new_dict()
        pres = {}
        for k in legal + illegal:
            pres[k] = z3.Bool("has[%s]" % k)
            d.entries[k] = (pres[k], Sym(z3.Real("val[%s]" % k)))
        before = dict(d.entries)
        f = it.get_func(MOD, "get_mesh")
        any_illegal = z3.Or(*[pres[k] for k in illegal])
        rp = _mesh_replay(name, dim, legal, illegal, pres)
        try:
            mesh = it.call(f, [info, d], {"dim": dim})
        except IRaise as exc:
            if isinstance(exc.value, TypeError):
                reg.prove("%s.get_mesh.raises_TypeError_only_for_unknown_names.%s" % (PROP, tag),
                          it.pc, any_illegal, function=fn, replay=rp)
            else:
                reg.prove("%s.get_mesh.no_other_exception.%s" % (PROP, tag), it.pc, False,
                          function=fn, replay=rp, describe=lambda m: {"raised": repr(exc.value)})
            _frame(reg, it, d, before, tag, fn, rp)
            return
        pc = list(it.pc)
        reg.prove("%s.get_mesh.unknown_names_are_refused.%s" % (PROP, tag), pc,
                  z3.Not(any_illegal), function=fn, replay=rp)
        order_ok = [p for p, _ in popped] == list(pars) and isinstance(mesh, SList) \
            and len(mesh.items) == len(pars)
        reg.prove("%s.get_mesh.one_entry_per_call_parameter_in_order.%s" % (PROP, tag), pc,
                  z3.BoolVal(order_ok), function=fn, replay=rp)
        # active flags: dispersible and, for 1-D, not orientation/magnetic
        act_ok = True
        for p, a in popped:
            expect = bool(p.polydisperse) and (dim == "2d" or p.type not in ("orientation", "magnetic"))
            if p.polydisperse and bool(a) != expect:
                act_ok = False
        reg.prove("%s.get_mesh.orientation_inactive_in_1d.%s" % (PROP, tag), pc,
                  z3.BoolVal(act_ok), function=fn, replay=rp)
        _frame(reg, it, d, before, tag, fn, rp)
    it = Interp(reg)
    it.run_paths(body, max_paths=50)


def _frame(reg, it, d, before, tag, fn, rp):
    same = (list(d.entries.keys()) == list(before.keys())
            and all(d.entries[k][0] is before[k][0] and d.entries[k][1] is before[k][1]
                    for k in before))
    def frame_replay(model, tag=tag):
        from sasmodels import core, direct_model
        name, dim = tag.rsplit(".", 1)
        info = core.load_model_info(name)
        pars = {p.name: p.default for p in info.parameters.call_parameters}
        before = dict(pars)
        try:
            direct_model.get_mesh(info, pars, dim=dim)
        except Exception:
            pass
        return pars != before, {"call": "get_mesh(%s, <all parameters at defaults>, dim=%r)" % (name, dim),
                                "dict_after": pars}
    reg.prove("%s.get_mesh.frame.callers_dict_unmodified.%s" % (PROP, tag), list(it.pc),
              z3.BoolVal(same), function=fn, replay=frame_replay)


def _mesh_replay(name, dim, legal, illegal, pres):
    def replay(model):
        from sasmodels import core, direct_model
        info = core.load_model_info(name)
        pars = {}
        for k in legal + illegal:
            if z3val(model, pres[k]) is True:
                pars[k] = "gaussian" if k.endswith("_pd_type") else (
                    3 if k.endswith("_pd_n") else 0.1)
        before = dict(pars)
        bad_keys = [k for k in pars if k in illegal]
        try:
            mesh = direct_model.get_mesh(info, pars, dim=dim)
        except TypeError as exc:
            out = {"call": "get_mesh(%s, %r, dim=%r)" % (name, before, dim), "raised": repr(exc)}
            return (not bad_keys) or pars != before, out
        except Exception as exc:
            return True, {"call": "get_mesh(%s, %r, dim=%r)" % (name, before, dim), "raised": repr(exc)}
        out = {"call": "get_mesh(%s, %r, dim=%r)" % (name, before, dim),
               "accepted_unknown_names": bad_keys, "dict_after": pars}
        return bool(bad_keys) or pars != before or len(mesh) != len(info.parameters.call_parameters), out
    return replay


# -------------------------------------------------------------------------
def _call_kernel_contract(reg):
    fn = MOD + ".call_kernel"

    def body(it):
        log = {}
        mesh_token = object()

        def get_mesh(it_, args, kw):
            log["get_mesh"] = (args, kw)
            return mesh_token

        def make_kernel_args(it_, args, kw):
            log["mka"] = args
            return ("details", "values", "is_magnetic")

        def calc_call(it_, args, kw):
            log["call"] = args
            return "result"
        it.summaries[MOD + ".get_mesh"] = Summary(get_mesh, "get_mesh (contract)")
        it.summaries["sasmodels.details.make_kernel_args"] = Summary(make_kernel_args,
                                                                     "make_kernel_args (contract C01)")
        calc = it.new_obj(None, {"info": "INFO", "dim": "2d",
                                 "__call__": Summary(calc_call, "Kernel.Iq (contract C01)")},
                          "calculator")
        pars = it.new_dict({"radius": (z3.Bool("has[radius]"), Sym(z3.Real("radius")))})
        before = dict(pars.entries)
        cutoff = fresh("cutoff")
        f = it.get_func(MOD, "call_kernel")
        r = it.call(f, [calc, pars], {"cutoff": cutoff})
        ok = (r == "result" and log["get_mesh"][0][0] == "INFO" and log["get_mesh"][0][1] is pars
              and log["get_mesh"][1].get("dim") == "2d" and log["get_mesh"][1].get("mono") is False
              and log["mka"][0] is calc and log["mka"][1] is mesh_token
              and log["call"][0] == "details" and log["call"][1] == "values"
              and log["call"][2] is cutoff and log["call"][3] == "is_magnetic")
        reg.prove("%s.call_kernel.composes_mesh_args_kernel" % PROP, it.pc, z3.BoolVal(ok), function=fn)
        reg.prove("%s.call_kernel.frame.pars_unmodified" % PROP, it.pc,
                  z3.BoolVal(dict(pars.entries) == before), function=fn)
    Interp(reg).run_paths(body)


def _calc_theory_contract(reg):
    fn = MOD + ".DataMixin._calc_theory"
    for data_type in ("Iq", "Iqxy", "sesans", "Iq-oriented"):
        def body(it, data_type=data_type):
            import sasmodels.direct_model as live
            log = {}
            nq = z3.Int("nq")
            it.assume(nq >= 0)
            K = z3.Function("Iq_calc", z3.IntSort(), z3.RealSort())
            A = z3.Function("apply", z3.IntSort(), z3.RealSort())

            def call_kernel(it_, args, kw):
                log["kernel"] = args[0]
                log["pars"] = dict(args[1].entries)
                log["pars_obj"] = args[1]
                log["cutoff"] = kw.get("cutoff")
                return it_.array_from_fn(lambda j: K(j), nq, "real", "Iq_calc")

            def apply(it_, args, kw):
                log["applied"] = args[0]
                return it_.array_from_fn(lambda j: A(j), nq, "real", "smeared")
            it.summaries[MOD + ".call_kernel"] = Summary(call_kernel, "call_kernel (contract)")
            res = it.new_obj(None, {"apply": Summary(apply, "resolution.apply (contract C03)"),
                                    "q_calc": "QCALC"}, "resolution")
            common = [ParStub("scale", False, False, 1.0), ParStub("background", False, False, 0.125)]
            minfo = it.new_obj(None, {"parameters": it.new_obj(None, {"common_parameters": common})})
            model = it.new_obj(None, {"info": minfo}, "model")
            kern = it.new_obj(None, {"results": None}, "kernel")
            selfo = it.new_obj(live.DataMixin, {"_kernel": kern, "_model": model, "resolution": res,
                                                "data_type": data_type}, "self")
            has_b = z3.Bool("has[background]")
            b = z3.Real("background")
            pars = it.new_dict({"background": (has_b, Sym(b)),
                                "radius": (True, Sym(z3.Real("radius")))})
            before = dict(pars.entries)
            cutoff = fresh("cutoff")
            f = it.get_func(MOD, "DataMixin._calc_theory")
            out = it.call(f, [selfo, pars], {"cutoff": cutoff})
            pc = list(it.pc)
            j = z3.Int("j")
            bspec = z3.RealVal(0) if data_type == "sesans" else z3.If(has_b, b, z3.RealVal("0.125"))
            kp = log.get("pars", {})
            kb = kp.get("background", (False, None))
            ok_pars = (kb[0] is True and not is_sym(kb[1]) and kb[1] == 0.0
                       and kp.get("radius", (None, None))[1] is before["radius"][1]
                       and log.get("cutoff") is cutoff and log.get("kernel") is kern)
            reg.prove("%s.calc_theory.kernel_called_with_background_zero.%s" % (PROP, data_type), pc,
                      z3.BoolVal(bool(ok_pars)), function=fn,
                      replay=lambda mdl=None, data_type=data_type: _calc_theory_replay(data_type))
            g = z3.BoolVal(False)
            if isinstance(out, SArr) and isinstance(log.get("applied"), SArr):
                g = z3.And(log["applied"].at(j) == K(j), out.at(j) == A(j) + bspec)
            reg.prove("%s.calc_theory.background_added_after_smearing.%s" % (PROP, data_type),
                      pc + [j >= 0, j < nq], g, function=fn,
                      replay=lambda mdl=None, data_type=data_type: _calc_theory_replay(data_type))
            reg.prove("%s.calc_theory.frame.pars_unmodified.%s" % (PROP, data_type), pc,
                      z3.BoolVal(dict(pars.entries) == before and log.get("pars_obj") is not pars),
                      function=fn)
        Interp(reg).run_paths(body)


def _calc_theory_replay(data_type):
    """Real DirectModel: theory(background=b) - theory(background=0) must be b (0 for SESANS)."""
    import numpy as np
    from sasmodels import core, data as sdata
    from sasmodels.direct_model import DirectModel
    model = core.load_model("sphere")
    if data_type == "sesans":
        d = sdata.empty_sesans(z=np.array([100.0, 400.0, 1600.0]))
        want = 0.0
    elif data_type == "Iqxy":
        d = sdata.empty_data2D(np.linspace(-0.05, 0.05, 5), resolution=0.05)
        want = 0.37
    else:
        d = sdata.empty_data1D(np.logspace(-3, -1, 12), resolution=0.05)
        want = 0.37
    calc = DirectModel(d, model)
    y0 = calc(radius=200.0, background=0.0)
    y1 = calc(radius=200.0, background=0.37)
    diff = np.asarray(y1) - np.asarray(y0)
    bad = not np.allclose(diff, want, rtol=1e-9, atol=1e-12)
    info = {"call": "DirectModel(<%s data>, sphere)(background=0.37) - (background=0)" % data_type,
            "real": diff[:4].tolist(), "spec": want}
    if not bad and data_type == "Iq":
        # the cutoff given to DirectModel reaches the kernel: perfect resolution, two dispersed parameters
        from sasmodels.direct_model import call_kernel
        cyl = core.load_model("cylinder")
        q = np.logspace(-2, -0.5, 6)
        d0 = sdata.empty_data1D(q, resolution=0.0)
        pars = dict(radius=30.0, length=200.0, radius_pd=0.3, radius_pd_n=12, length_pd=0.3, length_pd_n=12, background=0.0)
        got = np.asarray(DirectModel(d0, cyl, cutoff=1e-3)(**pars))
        ref = np.asarray(call_kernel(cyl.make_kernel([q]), pars, cutoff=1e-3))
        if not np.allclose(got, ref, rtol=1e-12):
            bad = True
            info = {"call": "DirectModel(data, cylinder, cutoff=1e-3)(radius_pd=0.3, length_pd=0.3) vs call_kernel(..., cutoff=1e-3)",
                    "real": got.tolist(), "spec": ref.tolist()}
    return bool(bad), info


def _name_checks(reg):
    """bumps_model.create_parameters and SasviewModel.setParam refuse unknown names."""
    from vp.pyvc import ModuleCtx
    # bumps_model.create_parameters ------------------------------------------
    fn = "sasmodels.bumps_model.create_parameters"

    def body(it):
        from sasmodels import core
        info = core.load_model_info("cylinder")
        made = []

        def bumps_parameter(it_, args, kw):
            made.append((args, kw))
            return it_.new_obj(None, {"value": args[0] if args else None,
                                      "limits": kw.get("limits")}, "Parameter")
        # bumps is not installed in the sandbox: BumpsParameter is replaced by
        # its stub contract (.default(value, name=, limits=) -> record)
        stub = it.new_obj(None, {"default": Summary(bumps_parameter, "bumps Parameter.default (stub contract)",
                                                     contract=False)}, "BumpsParameter")
        it.global_overrides = {("sasmodels.bumps_model", "BumpsParameter"): stub}
        kw = it.new_dict({"radius": (z3.Bool("has[radius]"), Sym(z3.Real("radius"))),
                          "zz_unknown": (z3.Bool("has[zz_unknown]"), Sym(z3.Real("zz"))),
                          "scale_pd": (z3.Bool("has[scale_pd]"), Sym(z3.Real("spd")))})
        f = it.get_func("sasmodels.bumps_model", "create_parameters")
        bad = z3.Or(z3.Bool("has[zz_unknown]"), z3.Bool("has[scale_pd]"))
        try:
            # **kwargs with symbolic presence: call through the interpreter's binder
            frame_kwargs = {}
            it.call(f, [info], {"__symbolic_kwargs__": kw})
        except IRaise as exc:
            if isinstance(exc.value, TypeError) and "__symbolic_kwargs__" not in repr(exc.value):
                reg.prove("%s.create_parameters.raises_only_for_unknown_names" % PROP, it.pc, bad,
                          function=fn)
            else:
                reg.prove("%s.create_parameters.no_other_exception" % PROP, it.pc, False, function=fn,
                          describe=lambda m: {"raised": repr(exc.value)})
            return
        reg.prove("%s.create_parameters.unknown_names_are_refused" % PROP, it.pc, z3.Not(bad),
                  function=fn)
    it = Interp(reg)
    try:
        it.run_paths(body, max_paths=64)
    except OutsideSubset as exc:
        reg.undecided("%s.create_parameters.engine" % PROP, "outside subset: %s" % exc, function=fn)


def _set_param_contract(reg):
    """SasviewModel.setParam: a name is accepted iff it is a parameter of the model or <dispersible parameter>.<one of
    its dispersion attributes>; then exactly that entry is set; every other name raises ValueError and leaves the
    parameter and dispersion dictionaries unchanged (no stray keys)."""
    import sasmodels.sasview_model as live
    fn = "sasmodels.sasview_model.SasviewModel.setParam"
    attrs = ("width", "npts", "nsigmas", "type")
    legal = {"radius": ("params", "radius"), "sld": ("params", "sld"), "scale": ("params", "scale")}
    for a in attrs:
        legal["radius.%s" % a] = ("dispersion", "radius", a)
        legal["length.%s" % a] = ("dispersion", "length", a)
    illegal = ["bogus", "bogus.width", "sld.width", "scale.npts", "radius.nsigma", "radius.Width", "length.pd_n",
               "radius.width.x", "radius.", ".width", "Radius", "radius_pd"]
    for name in list(legal) + illegal:
        def body(it, name=name):
            def disp():
                return it.new_dict({"width": (True, 0.0), "npts": (True, 35), "nsigmas": (True, 3.0),
                                    "type": (True, "gaussian")})
            dispersion = it.new_dict({"radius": (True, disp()), "length": (True, disp())})
            params = it.new_dict({"radius": (True, 50.0), "length": (True, 400.0), "sld": (True, 1.0), "scale": (True, 1.0)})
            before_p = dict(params.entries)
            before_d = {k: dict(v[1].entries) for k, v in dispersion.entries.items()}
            selfo = it.new_obj(live.SasviewModel, {"dispersion": dispersion, "params": params}, "SasviewModel")
            value = Sym(z3.Real("value"))
            f = it.get_func("sasmodels.sasview_model", "SasviewModel.setParam")
            raised = None
            try:
                it.call(f, [selfo, name, value])
            except IRaise as exc:
                raised = exc.value
            after_p = dict(params.entries)
            after_d = {k: dict(v[1].entries) for k, v in dispersion.entries.items()}
            same_keys = set(after_p) == set(before_p) and set(after_d) == set(before_d) \
                and all(set(after_d[k]) == set(before_d[k]) for k in before_d)
            rp = lambda mdl=None: _set_param_replay()
            tag = name.replace(".", "_dot_") or "empty"
            if name in legal:
                where = legal[name]
                if where[0] == "params":
                    stored = after_p[where[1]][1] is value
                    others = all(after_p[k] == before_p[k] for k in before_p if k != where[1]) and after_d == before_d
                else:
                    stored = after_d[where[1]][where[2]][1] is value
                    others = after_p == before_p and all(
                        after_d[k][a] == before_d[k][a] for k in before_d for a in before_d[k] if (k, a) != where[1:])
                reg.prove("%s.setParam.legal_name_sets_exactly_its_entry.%s" % (PROP, tag), it.pc,
                          z3.BoolVal(bool(raised is None and stored and others and same_keys)), function=fn, replay=rp)
            else:
                reg.prove("%s.setParam.unknown_name_is_refused_and_nothing_changes.%s" % (PROP, tag), it.pc,
                          z3.BoolVal(bool(isinstance(raised, ValueError) and after_p == before_p and after_d == before_d)),
                          function=fn, replay=rp)
        it = Interp(reg)
        it.poison_one_arm = False
        try:
            it.run_paths(body)
        except OutsideSubset as exc:
            reg.undecided("%s.setParam.engine.%s" % (PROP, name), "outside subset: %s" % exc, function=fn)


def _set_param_replay():
    """Real SasviewModel of the cylinder: misspelt dispersity attributes must be refused."""
    from sasmodels.sasview_model import make_model_from_info
    from sasmodels.core import load_model_info
    m = make_model_from_info(load_model_info("cylinder"))()
    out, bad = {}, False
    for name in ("radius.nsigma", "length.Width", "radius.pd_n", "bogus.width", "sld.width"):
        try:
            m.setParam(name, 3.0)
            out[name] = "accepted"
            bad = True
        except ValueError:
            out[name] = "ValueError"
    m.setParam("radius.width", 0.2)
    if m.dispersion["radius"]["width"] != 0.2:
        bad = True
        out["radius.width"] = "not stored"
    return bad, {"call": "SasviewModel(cylinder).setParam(<misspelt names>, 3.0)", "real": out,
                 "spec": "ValueError for every misspelt name"}


def _convenience_contract(reg):
    """direct_model.Iq / Iqxy: the data object handed to the calculator carries q and the resolution arguments in
    the documented slots (dq -> dx; ql, qw -> dxl, dxw; dqx -> dqx_data, dqy -> dqy_data), the model name and the
    parameter keywords are forwarded unchanged."""
    import sasmodels.data as sdata
    fn = "sasmodels.direct_model.Iqxy"

    def body(it):
        seen = {}

        def direct(it_, a, k):
            seen["model"], seen["data"], seen["pars"] = a[0], a[1], a[2]
            return "result"
        it.summaries[MOD + "._direct_calculate"] = Summary(direct, "_direct_calculate (contract: DirectModel)", contract=False)

        def data2d(it_, a, k):
            return it_.new_obj(None, {"qx_data": k.get("x"), "qy_data": k.get("y"), "dqx_data": k.get("dx"),
                                      "dqy_data": k.get("dy")}, "Data2D")
        it.models[sdata.Data2D] = data2d
        n = z3.Int("n")
        qx, qy, dqx, dqy = (it.new_array(nm, n, "real") for nm in ("qx", "qy", "dqx", "dqy"))
        f = it.get_func(MOD, "Iqxy")
        radius = Sym(z3.Real("radius"))
        out = it.call(f, ["sphere", qx, qy], {"dqx": dqx, "dqy": dqy, "radius": radius})
        d = seen.get("data")
        ok = (out == "result" and seen.get("model") == "sphere" and d is not None
              and it.getattr(d, "qx_data") is qx and it.getattr(d, "qy_data") is qy
              and it.getattr(d, "dqx_data") is dqx and it.getattr(d, "dqy_data") is dqy)
        p = seen.get("pars")
        ok = ok and p is not None and list(p.entries) == ["radius"] and p.entries["radius"][1] is radius
        reg.prove("%s.Iqxy.forwards_q_and_resolution_in_the_documented_slots" % PROP, it.pc, z3.BoolVal(bool(ok)),
                  function=fn, replay=lambda mdl=None: _convenience_replay())
    it = Interp(reg)
    it.poison_one_arm = False
    try:
        it.run_paths(body)
    except OutsideSubset as exc:
        reg.undecided("%s.Iqxy.engine" % PROP, "outside subset: %s" % exc, function=fn)

    fn1 = "sasmodels.direct_model.Iq"

    def body1(it):
        seen = {}

        def direct(it_, a, k):
            seen["model"], seen["data"], seen["pars"] = a[0], a[1], a[2]
            return "result"
        it.summaries[MOD + "._direct_calculate"] = Summary(direct, "_direct_calculate", contract=False)

        def data1d(it_, a, k):
            return it_.new_obj(None, {"x": k.get("x"), "dx": k.get("dx"), "dxl": None, "dxw": None}, "Data1D")
        it.models[sdata.Data1D] = data1d
        it.models[sdata._as_numpy] = lambda it_, a, k: a[0]
        n = z3.Int("n")
        q, dq, ql, qw = (it.new_array(nm, n, "real") for nm in ("q", "dq", "ql", "qw"))
        f = it.get_func(MOD, "Iq")
        out = it.call(f, ["sphere", q], {"dq": dq, "ql": ql, "qw": qw})
        d = seen.get("data")
        ok = (out == "result" and d is not None and it.getattr(d, "x") is q and it.getattr(d, "dx") is dq
              and it.getattr(d, "dxl") is ql and it.getattr(d, "dxw") is qw)
        reg.prove("%s.Iq.forwards_q_and_resolution_in_the_documented_slots" % PROP, it.pc, z3.BoolVal(bool(ok)),
                  function=fn1, replay=lambda mdl=None: _convenience_replay())
    it = Interp(reg)
    it.poison_one_arm = False
    try:
        it.run_paths(body1)
    except OutsideSubset as exc:
        reg.undecided("%s.Iq.engine" % PROP, "outside subset: %s" % exc, function=fn1)


def _convenience_replay():
    """Real Iqxy with anisotropic widths against DirectModel on an explicit Data2D."""
    import numpy as np
    from sasmodels import core, data as sdata
    from sasmodels.direct_model import Iqxy, DirectModel
    qx, qy = np.array([0.05, 0.02, 0.08]), np.array([0.0, 0.03, 0.01])
    dqx, dqy = np.array([0.012, 0.01, 0.015]), np.array([0.001, 0.002, 0.001])
    got = np.asarray(Iqxy("sphere", qx, qy, dqx=dqx, dqy=dqy, radius=120.0))
    d = sdata.Data2D(x=qx, y=qy, dx=dqx, dy=dqy)
    want = np.asarray(DirectModel(d, core.load_model("sphere"))(radius=120.0))
    return not np.allclose(got, want, rtol=1e-12), {"call": "Iqxy('sphere', qx, qy, dqx=wide, dqy=narrow)",
                                                    "real": got.tolist(), "spec_DirectModel_on_Data2D": want.tolist()}


def _set_dispersion_contract(reg):
    """SasviewModel.set_dispersion: accepted exactly for the dispersible parameters of the model (the keys of the
    dispersion table); any other name - unknown, or a parameter that cannot be dispersed - raises ValueError and adds
    no entry (otherwise setParam would afterwards accept '<name>.width' for it)."""
    import sasmodels.sasview_model as live
    fn = "sasmodels.sasview_model.SasviewModel.set_dispersion"
    for name, legal in (("radius", True), ("length", True), ("sld", False), ("scale", False), ("bogus", False)):
        def body(it, name=name, legal=legal):
            def disp():
                return it.new_dict({"width": (True, 0.0), "npts": (True, 35), "nsigmas": (True, 3.0), "type": (True, "gaussian")})
            dispersion = it.new_dict({"radius": (True, disp()), "length": (True, disp())})
            params = it.new_dict({"radius": (True, 50.0), "length": (True, 400.0), "sld": (True, 1.0), "scale": (True, 1.0)})
            before = set(dispersion.entries)
            selfo = it.new_obj(live.SasviewModel, {"dispersion": dispersion, "params": params}, "SasviewModel")
            newpars = it.new_dict({"width": (True, Sym(z3.Real("w"))), "npts": (True, 7), "nsigmas": (True, 2.0),
                                   "type": (True, "rectangle")})
            disperser = it.new_obj(None, {"get_pars": Summary(lambda it_, a, k: newpars, "Dispersion.get_pars", contract=False)},
                                   "disperser")
            f = it.get_func("sasmodels.sasview_model", "SasviewModel.set_dispersion")
            raised = None
            try:
                it.call(f, [selfo, name, disperser])
            except IRaise as exc:
                raised = exc.value
            after = set(dispersion.entries)
            rp = lambda mdl=None: _set_dispersion_replay()
            if legal:
                reg.prove("%s.set_dispersion.dispersible_parameter_gets_the_new_table.%s" % (PROP, name), it.pc,
                          z3.BoolVal(bool(raised is None and after == before and dispersion.entries[name][1] is newpars)),
                          function=fn, replay=rp)
            else:
                reg.prove("%s.set_dispersion.other_names_are_refused_and_add_no_entry.%s" % (PROP, name), it.pc,
                          z3.BoolVal(bool(isinstance(raised, ValueError) and after == before)), function=fn, replay=rp)
        it = Interp(reg)
        it.poison_one_arm = False
        try:
            it.run_paths(body)
        except OutsideSubset as exc:
            reg.undecided("%s.set_dispersion.engine.%s" % (PROP, name), "outside subset: %s" % exc, function=fn)


def _set_dispersion_replay():
    from sasmodels.sasview_model import make_model_from_info
    from sasmodels.core import load_model_info
    from sasmodels import weights
    m = make_model_from_info(load_model_info("cylinder"))()
    out, bad = {}, False
    for name in ("sld", "scale", "bogus"):
        try:
            m.set_dispersion(name, weights.GaussianDispersion())
            out[name] = "accepted"
            bad = True
        except ValueError:
            out[name] = "ValueError"
    try:
        m.setParam("sld.width", 0.3)
        out["then setParam('sld.width')"] = "accepted"
        bad = True
    except ValueError:
        out["then setParam('sld.width')"] = "ValueError"
    return bad, {"call": "SasviewModel(cylinder).set_dispersion(<non-dispersible or unknown name>, GaussianDispersion())",
                 "real": out, "spec": "ValueError"}
