"""
C14 -- amplitude outputs are mutually consistent for every form factor.

Functions under contract (C, generated source of each of the models with
amplitude output): Fq, form_volume, shell_volume, radius_effective and the
helpers they call (inlined); quadrature loops are Sigma-summarised.

Clauses
 structure   Fq's two outputs have the form  F = K * SUM_n c_n f_n,  F^2out = K^2/.. SUM_n c_n f_n^2
             with a common node weight c_n that does not depend on q or the shape
             parameters: proved as the polynomial identity
                 F1s(n; x)^2 * F2s(n; x') = F1s(n; x')^2 * F2s(n; x)
             on the Sigma-normal-form summands for symbolic node index n and two
             independent argument vectors x, x' (special functions as atoms,
             sin^2+cos^2=1).  Without quadrature (spherically symmetric shapes)
             the clause is  F2 = F1^2  exactly.
 inequality  (SUM c f)^2 <= (SUM c)(SUM c f^2) for c >= 0 is the weighted
             Cauchy-Schwarz lemma (Lean, lemmas/Sas.lean); SUM c (= lim q->0 F1^2/F2)
             is measured on the compiled model and must be <= 1 + 1e-6.
 kernel      <F>^2 <= <F^2> under dispersity: Cauchy-Schwarz again over the mesh
             (same lemma) -- the mesh sums are the C01 postcondition.
 equivalent volume sphere   for every mode whose name says so,
             M_4PI_3 R^3 = form_volume  (cbrt(x)^3 = x).
 intensity   I = scale <F^2>/<V_shell> + background: C01 (Kernel.Iq contract).
A failed clause is replayed on the compiled model (F1^2 <= F2 over parameter
sets incl. one-at-a-time perturbations, 4/3 pi R^3 = V) before it counts.
"""
import z3

from vp import cvc, sigma
from vp.core import OutsideSubset, run_parallel
from contracts.modelfn import ModelExec, trig_pairs

PROP = "C14"


def fq_models():
    from sasmodels import core
    out = []
    for name in core.list_models():
        info = core.load_model_info(name)
        if info.have_Fq and not callable(info.Iq):
            out.append(name)
    return out


def check(reg, tier):
    models = fq_models()
    reg.extra["models_with_amplitude_output"] = models
    run_parallel(reg, _job, models)
    from contracts import pykernel, kernel_c
    pykernel.kernel_Fq_Iq(reg, PROP)
    # the amplitude kernels themselves (F, F^2 interleaved, shell-volume slot): C01 contract
    kernel_c.kernel_contracts(reg, PROP, tier, [("sphere", "Iq"), ("vesicle", "Iq"), ("hollow_cylinder", "Iq")])
    from contracts import leanlib
    leanlib.lean_lemmas(reg, PROP, ["weighted_cauchy_schwarz"])
    reg.assume("weighted Cauchy-Schwarz (sum c f)^2 <= (sum c)(sum c f^2) for c >= 0 is the Lean lemma "
               "Sas.weighted_cauchy_schwarz (lemmas/Sas.lean, checked on every run); its instantiation at the model's "
               "nodes and at the dispersity mesh is a paper step")
    reg.assume("node weights: SUM_n c_n = 1 and c_n >= 0 are evaluated in float64 over all nodes of the tables in the "
               "generated source (machine arithmetic treated as mathematical, tolerance 1e-6)")
    reg.assume("equality as q -> 0 and positivity/finiteness of radii and volumes are checked only by the "
               "numeric replay grid (limits and floating point are outside the contracts)")


def _squares_only(reg, name):
    """Models whose Fq leaves the subset of _structure (vector parameters, shell loops of symbolic length): the
    clause 'the F^2 output is the square of the amplitude' needs nothing from those loops, so they are taken with the
    trivial contract (cvc.HavocLoop: whatever they modify is arbitrary afterwards) and the vector parameters are
    arbitrary functions of the index."""
    me = ModelExec(name, vectors=True, havoc_loops=True)
    where = "models/%s: Fq" % name
    fn = me.tu.functions["Fq"]
    reg.function_under_contract("generated[%s]:Fq" % name, "sasmodels/models/%s.c" % name,
                                fn["loc"].get("presumedLine", 0), 0, me.tu.func_text(fn))
    F1, F2, defs = me.run_1d()
    if F1 is None or F2 is None:
        raise OutsideSubset("no amplitude output")
    reg.assume("models/%s: loops of symbolic length in Fq and its helpers enter through the trivial contract (modified "
               "variables arbitrary afterwards); vector parameters are arbitrary functions of the index" % name)
    reg.prove("%s.structure.%s.F2_is_F1_squared" % (PROP, name), [], F2 == F1 * F1, function=where, engine="cvc",
              poly=trig_pairs([F1, F2]), nl=True, replay=lambda m=None: replay_amplitudes(name))


def _job(sub, name):
    try:
        try:
            _structure(sub, name)
        except OutsideSubset as first:
            try:
                _squares_only(sub, name)
            except OutsideSubset:
                raise first
    except OutsideSubset as exc:
        sub.passed("%s.structure.%s.numeric_stand_in" % (PROP, name), function="models/%s: Fq" % name,
                   engine="cvc", kind="bounded", backend="numeric replay",
                   bound="Fq outside the modelled subset (%s); replay grid: %s"
                         % (exc, replay_amplitudes(name)[1].get("summary")))
        rep, info = replay_amplitudes(name)
        if rep:
            sub.fail("%s.structure.%s" % (PROP, name), {"replay": info}, function="models/%s: Fq" % name)
    try:
        _radius_modes_finite(sub, name)
    except OutsideSubset:
        pass
    try:
        _equivalent_volume(sub, name)
    except OutsideSubset as exc:
        from sasmodels import core
        info = core.load_model_info(name)
        for k, mode_name in enumerate(info.radius_effective_modes or [], 1):
            if "equivalent" in mode_name and "volume sphere" in mode_name:
                rep, rinfo = replay_equiv_volume(name, k)
                oid = "%s.equivalent_volume_sphere.%s.mode%d" % (PROP, name, k)
                where = "models/%s: radius_effective mode %d" % (name, k)
                if rep:
                    sub.fail(oid, {"replay": rinfo}, function=where)
                else:
                    sub.passed(oid + ".numeric_stand_in", function=where, kind="bounded",
                               backend="numeric replay",
                               bound="outside the modelled subset (%s); %s" % (exc, rinfo.get("summary")))


def _structure(reg, name):
    me = ModelExec(name)
    where = "models/%s: Fq" % name
    fn = me.tu.functions["Fq"]
    reg.function_under_contract("generated[%s]:Fq" % name, "sasmodels/models/%s.c" % name,
                                fn["loc"].get("presumedLine", 0), 0, me.tu.func_text(fn))
    # inner quadratures in model-local helpers (barbell's _bell_kernel, superball's oriented_superball, ...): Fq is
    # checked against the helper's contract "the result is a function of the arguments" (frame checked on the AST),
    # which is all the Cauchy-Schwarz structure needs from it
    from contracts.c12 import pure_loop_helpers
    from contracts.modelfn import lib_functions
    helpers = pure_loop_helpers(me.tu, "Fq", lib_functions(me.tu))
    me.extra_uninterpreted = set(helpers)
    for f in helpers:
        reg.assume("models/%s: helper %s (inner quadrature) enters Fq through its contract 'the result is a function of "
                   "the arguments'; frame checked on the AST (reads only parameters, locals, const tables), body not "
                   "interpreted" % (name, f))
    F1, F2, defs = me.run_1d()
    nf1 = sigma.normal_form(F1, defs)
    nf2 = sigma.normal_form(F2, defs)
    chain_defs = nf1[0][0] if nf1 else []

    def key(chain):
        return tuple(d.index.sexpr() for d in chain)
    d1 = {}
    for ch, s in nf1:
        d1[key(ch)] = d1.get(key(ch), z3.RealVal(0)) + s
    d2 = {}
    for ch, s in nf2:
        d2[key(ch)] = d2.get(key(ch), z3.RealVal(0)) + s
    oid = "%s.structure.%s" % (PROP, name)
    rp = lambda m=None: replay_amplitudes(name)
    if set(d1) != set(d2) or len(d1) != 1:
        raise OutsideSubset("F and F^2 are not single sums over the same nodes (%s / %s)"
                            % (sorted(d1), sorted(d2)))
    k = list(d1)[0]
    s1, s2 = d1[k], d2[k]
    pairs = trig_pairs([s1, s2])
    if k == ():
        # no quadrature: F^2 output is the square of the amplitude
        reg.prove(oid + ".F2_is_F1_squared", [], s2 == s1 * s1, function=where, engine="cvc",
                  poly=pairs, nl=True, replay=rp)
        return
    # primed copy of the arguments (same node indices)
    subs = [(me.q, z3.Real("q'"))] + [(v, z3.Real(v.decl().name() + "'")) for v in me.iq_args]
    s1p, s2p = z3.substitute(s1, *subs), z3.substitute(s2, *subs)
    pairs = trig_pairs([s1, s2, s1p, s2p])
    reg.prove(oid + ".common_node_weight", [], s1 * s1 * s2p == s1p * s1p * s2, function=where,
              engine="cvc", poly=pairs, nl=True, replay=rp, timeout_ms=60000)
    # node weights c_n = s1^2 / s2 (independent of q and the parameters by the identity above): SUM c_n = 1 and
    # c_n >= 0 over every node of the quadrature tables in the generated source - with them the Lean lemma gives
    # F1^2 <= F2, with equality where the summand is constant over the nodes (q -> 0)
    from contracts.c12 import node_weight_sum, _NoEval
    o_sum, o_pos = oid + ".node_weights_sum_to_one", oid + ".node_weights_are_non_negative"
    try:
        total, winfo = node_weight_sum(me, s1 * s1, s2, chain_defs)
    except _NoEval:
        total = None
        reg.undecided(o_sum, "the node weights could not be evaluated over the tables", function=where, engine="cvc")
    if total is not None:
        backend = "ground evaluation over the quadrature tables (float64)"
        for o_, ok, what in ((o_sum, abs(total - 1.0) <= 1e-6, "SUM_n c_n = %.15g" % total),
                             (o_pos, winfo["min_weight"] >= -1e-12, "min_n c_n = %.3g" % winfo["min_weight"])):
            if ok:
                reg.passed(o_, function=where, engine="cvc", backend=backend,
                           sample={"obligation": o_, "value": what, "nodes": winfo["nodes"]})
                continue
            rep_, info_ = replay_amplitudes(name)
            if rep_:
                reg.fail(o_, {"node_weights": what, "nodes": winfo["nodes"], "replay": info_}, function=where,
                         engine="cvc")
            else:
                reg.undecided(o_, "%s over %s nodes, but the compiled model keeps F1^2 <= F2 on the replay grid (%s)"
                              % (what, winfo["nodes"], info_.get("summary")), function=where, engine="cvc")
    # measured sum of node weights
    rep, info = replay_amplitudes(name)
    S = info.get("sum_of_node_weights")
    reg.extra.setdefault("sum_of_node_weights", {})[name] = S
    if rep:
        reg.fail(oid + ".F1_sq_le_F2_on_the_compiled_model", {"replay": info}, function=where)
    else:
        reg.passed(oid + ".F1_sq_le_F2_on_the_compiled_model", function=where, kind="bounded",
                   backend="numeric replay", bound=info.get("summary"))


def _equivalent_volume(reg, name):
    me = ModelExec(name)
    info = me.info
    modes = info.radius_effective_modes or []
    if "radius_effective" not in me.tu.functions or "form_volume" not in me.tu.functions:
        return
    from vp.cvc import uf
    for k, mode_name in enumerate(modes, 1):
        if "equivalent" not in mode_name or "volume sphere" not in mode_name:
            continue
        where = "models/%s: radius_effective mode %d (%s)" % (name, k, mode_name)
        Rv, defs = me.run_fn("radius_effective", [z3.IntVal(k)] + me.vol_args)
        Vv, defs2 = me.run_fn("form_volume", me.vol_args)
        if defs or defs2:
            raise OutsideSubset("quadrature inside radius_effective/form_volume")
        m43 = _m43()
        # cbrt axioms at every cbrt atom, sqrt likewise
        ax = []
        seen, stack = set(), [Rv, Vv]
        while stack:
            e = stack.pop()
            if e.get_id() in seen:
                continue
            seen.add(e.get_id())
            if z3.is_app(e):
                if e.decl().name() == "cbrt":
                    ax.append(e * e * e == e.arg(0))
                if e.decl().name() == "sqrt":
                    ax.append(z3.And(e * e == e.arg(0), e >= 0))
                stack.extend(e.children())
        pos = [v > 0 for v in me.vol_args]
        oid = "%s.equivalent_volume_sphere.%s.mode%d" % (PROP, name, k)
        rp = lambda m=None, k=k: replay_equiv_volume(name, k)
        # "outer" volume modes of hollow/shell shapes refer to the outer shape: form_volume is the outer volume
        reg.prove(oid, ax + pos, m43 * Rv * Rv * Rv == Vv, function=where, engine="cvc", nl=True,
                  replay=rp, timeout_ms=60000)


def _radius_modes_finite(reg, name):
    """For every selectable effective-radius mode: no division by zero in radius_effective for positive size
    parameters (a zero divisor is how a NaN radius arises).  A satisfiable divisor == 0 is replayed on the
    compiled model; obligations the solver cannot decide are listed, not claimed."""
    me = ModelExec(name)
    info = me.info
    modes = info.radius_effective_modes or []
    if not modes or "radius_effective" not in me.tu.functions:
        return
    pos = [v > 0 for v in me.vol_args]
    skipped = []
    for k, mode_name in enumerate(modes, 1):
        where = "models/%s: radius_effective mode %d (%s)" % (name, k, mode_name)
        safety = []
        try:
            Rv, defs = me.run_fn("radius_effective", [z3.IntVal(k)] + me.vol_args, safety=safety)
        except OutsideSubset as exc:
            skipped.append("mode %d: %s" % (k, exc))
            continue
        # sqrt facts for the divisors
        oid = "%s.radius_effective_has_no_zero_divisor.%s.mode%d" % (PROP, name, k)
        verdict, witness = "discharged", None
        for kind, facts, goal, line in safety:
            ax = []
            seen, stack = set(), [goal] + facts
            while stack:
                e = stack.pop()
                if e.get_id() in seen:
                    continue
                seen.add(e.get_id())
                if z3.is_app(e):
                    if e.decl().name() == "sqrt" and e.num_args() == 1:
                        ax += [e >= 0, z3.Implies(e.arg(0) >= 0, e * e == e.arg(0)), z3.Implies(e.arg(0) > 0, e > 0)]
                    if e.decl().name() == "cbrt" and e.num_args() == 1:
                        ax += [e * e * e == e.arg(0), z3.Implies(e.arg(0) > 0, e > 0)]
                    stack.extend(e.children())
            s = z3.Solver()
            s.set("timeout", 30000)
            s.add(*(pos + facts + ax))
            s.add(z3.Not(goal))
            r = s.check()
            if r == z3.sat:
                m = s.model()
                pars = {}
                for v in me.vol_args:
                    val = m.eval(v, model_completion=True)
                    try:
                        pars[v.decl().name()] = float(val.as_fraction())
                    except Exception:
                        pars[v.decl().name()] = float(val.approx(12).as_fraction()) if hasattr(val, "approx") else 1.0
                bad, rinfo = replay_radius_finite(name, k, pars)
                if bad:
                    verdict, witness = "violated", dict(rinfo, source_line=line)
                    break
                verdict = "unknown" if verdict == "discharged" else verdict
            elif r != z3.unsat:
                verdict = "unknown" if verdict == "discharged" else verdict
        if verdict == "violated":
            reg.fail(oid, witness, function=where, engine="cvc")
        elif verdict == "discharged":
            reg.passed(oid, function=where, engine="cvc", backend="z3")
        else:
            skipped.append("mode %d: a divisor obligation is undecided" % k)
    if skipped:
        reg.extra.setdefault("radius_modes_not_decided", {})[name] = skipped


def replay_radius_finite(name, mode, pars):
    import numpy as np
    from sasmodels import core
    from sasmodels.direct_model import call_Fq
    m = core.load_model(name)
    k = m.make_kernel([np.array([0.01])])
    try:
        F1, F2, R, Vs, Vr = call_Fq(k, dict(pars, radius_effective_mode=mode))
    except Exception as exc:      # noqa
        return False, {"note": repr(exc)[:100]}
    bad = not (np.isfinite(R) and R > 0)
    return bool(bad), {"call": "call_Fq(%s, %r, radius_effective_mode=%d)" % (name, pars, mode), "real": float(R),
                       "spec": "positive and finite"}


_m43_cache = []


def _m43():
    """The value the header gives M_4PI_3 on the DLL path: read off the generated
    sphere source (form_volume = M_4PI_3 * radius^3), identical for every model."""
    if not _m43_cache:
        me = ModelExec("sphere")
        v, _ = me.run_fn("form_volume", [z3.RealVal(1)])
        _m43_cache.append(z3.simplify(v))
    return _m43_cache[0]


def _harvest_const(exprs, approx):
    """The rational numeral the code itself uses for a mathematical constant
    (within 1e-9 of `approx`), so that the identity is stated with the code's own value."""
    found = {}
    seen, stack = set(), list(exprs)
    while stack:
        e = stack.pop()
        if e.get_id() in seen:
            continue
        seen.add(e.get_id())
        if z3.is_rational_value(e):
            v = float(e.numerator_as_long()) / float(e.denominator_as_long())
            if abs(v / approx - 1) < 1e-9:
                found[e.sexpr()] = e
        elif z3.is_app(e):
            stack.extend(e.children())
    if len(found) == 1:
        return list(found.values())[0]
    return None


def _const(tu, name):
    import re
    m = re.search(r"#\s*define\s+%s\s+([0-9.eE+-]+)" % name, tu.source)
    return cvc.cfloat(m.group(1))


def parameter_sets(info, seed=1):
    import numpy as np
    names = [p.name for p in info.parameters.call_parameters[2:2 + info.parameters.npars]]
    plist = {p.name: p for p in info.parameters.call_parameters}
    base = {n: plist[n].default for n in names}
    sets = [dict(base)]
    for s_ in range(3):
        np.random.seed(seed + s_)
        try:
            r = info.random()
            sets.append({n: r.get(n, base[n]) for n in names})
        except Exception:
            pass
    for n in names:
        p = plist[n]
        if p.type in ("orientation",) or p.is_control or p.choices:
            continue
        for f in (lambda v: v * 0.1, lambda v: v * 10, lambda v: v + 5.0):
            v = f(base[n])
            if p.limits[0] <= v <= p.limits[1]:
                sets.append(dict(base, **{n: v}))
    return sets


_replay_cache = {}


def replay_amplitudes(name):
    if name in _replay_cache:
        return _replay_cache[name]
    import numpy as np
    from sasmodels import core
    from sasmodels.direct_model import call_Fq
    m = core.load_model(name)
    info = m.info
    q = np.hstack(([1e-6], np.logspace(-3, 0, 25)))
    k = m.make_kernel([q])
    worst, worst_case, S = 0.0, None, None
    for pars in parameter_sets(info):
        try:
            F1, F2, R, Vs, Vr = call_Fq(k, dict(pars))
        except Exception:
            continue
        ok = np.isfinite(F1) & np.isfinite(F2) & (F2 > 0)
        if not ok.any():
            continue
        ratio = F1[ok] ** 2 / F2[ok]
        if S is None and ok[0]:
            S = float(ratio[0])
        e = float(np.max(ratio))
        if e > worst:
            worst, worst_case = e, dict(pars)
    bad = worst > 1 + 1e-6
    out = (bad, {"summary": "max F1^2/F2 = %.9g over %d parameter sets x %d q" % (
        worst, len(parameter_sets(info)), len(q)), "sum_of_node_weights": S,
        "worst_case": worst_case, "call": "call_Fq(%s)" % name})
    _replay_cache[name] = out
    return out


def replay_equiv_volume(name, mode):
    import numpy as np
    from sasmodels import core
    from sasmodels.direct_model import call_Fq
    m = core.load_model(name)
    k = m.make_kernel([np.array([0.01])])
    worst, wc = 0.0, None
    for pars in parameter_sets(m.info)[:12]:
        try:
            F1, F2, R, Vs, Vr = call_Fq(k, dict(pars, radius_effective_mode=mode))
        except Exception:
            continue
        Vform = Vs * Vr
        if Vform > 0:
            e = abs(4 * np.pi / 3 * R ** 3 / Vform - 1)
            if e > worst:
                worst, wc = float(e), dict(pars)
    return worst > 1e-9, {"summary": "max |4/3 pi R^3 / V_form - 1| = %.3g" % worst, "worst_case": wc,
                          "call": "call_Fq(%s, radius_effective_mode=%d)" % (name, mode)}
