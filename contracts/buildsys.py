"""
Contracts on the build pipeline (generate.convert_type, kerneldll.dll_name,
kerneldll.make_dll), shared by C15 (precision), C17 (cache key) and C18
(atomic build).

Strings are z3 strings (source text, model id, paths).  The file system is
ghost state: every path term has a state absent / partial / complete and a
content term.  Library calls that touch it (os.path.exists, open/write,
tempfile.mkstemp, compile_model, os.replace, os.unlink) are summaries with
contracts over that ghost state; each one is also an *interference point*:
other processes running make_dll may act there, constrained by the guarantee
G that make_dll itself is proved to respect:

   G: a file under a final cache name is only ever created whole (absent ->
      complete, in one step) with the content its name stands for, and is
      never modified or removed afterwards.

Invariant I (holds at every interference point if all processes respect G):
   for every final cache name N: state(N) in {absent, complete} and
   complete => content(N) = COMPILE(CONV(src, d)) for the (src, d) naming N.
"""
import z3

from vp.pyvc import (Interp, Sym, SObj, Summary, IRaise, fresh, is_str_sym, str_expr)
from vp.core import OutsideSubset

S = z3.StringSort()
ABSENT, PARTIAL, COMPLETE = 0, 1, 2

TAG = z3.Function("tag_source", S, S)                   # generate.tag_source (CRC32 text)
TG = z3.Function("fix_tgmath_int", S, S)
CONV = z3.Function("convert", S, S, S, S)                # _convert_type(source, type_name, flag)
CONVT = z3.Function("convert_type", S, z3.IntSort(), S)  # generate.convert_type(source, itemsize)
COMPILE = z3.Function("compile", S, S)                   # library produced from a C text


def dtypes():
    from sasmodels import generate
    return {"F16": generate.F16, "F32": generate.F32, "F64": generate.F64, "F128": generate.F128}


# --------------------------------------------------------------------------
# generate.convert_type
# --------------------------------------------------------------------------

SPEC_TYPES = {"F16": (2, "half", "f"), "F32": (4, "float", "f"), "F64": (8, None, None),
              "F128": (16, "long double", "L")}


def convert_type_contract(reg, prop):
    """result = '#define FLOAT_SIZE n\\n' + convert(fix_tgmath_int(source), T, flag) for the
    four precisions (F64: no conversion), ValueError otherwise; the integer promotion runs
    BEFORE the literal tagging so promoted literals get the suffix."""
    import numpy as np
    fn = "sasmodels.generate.convert_type"
    cases = dict(dtypes(), other=np.dtype("int32"))
    for name, dt in cases.items():
        def body(it, name=name, dt=dt):
            src = Sym(z3.String("source"))
            it.summaries["sasmodels.generate._fix_tgmath_int"] = Summary(
                lambda it_, a, k: Sym(TG(str_expr(a[0]))), "_fix_tgmath_int (regex lemmas C15.tgmath.*)", contract=False)
            it.summaries["sasmodels.generate._convert_type"] = Summary(
                lambda it_, a, k: Sym(CONV(str_expr(a[0]), str_expr(a[1]), str_expr(a[2]))),
                "_convert_type (regex lemmas C15.keyword.*, C15.literal.*)", contract=False)
            f = it.get_func("sasmodels.generate", "convert_type")
            try:
                out = it.call(f, [src, dt])
            except IRaise as exc:
                reg.prove("%s.convert_type.raises_only_for_unsupported_dtype.%s" % (prop, name), it.pc,
                          z3.BoolVal(name == "other" and isinstance(exc.value, ValueError)), function=fn)
                return
            if name == "other":
                reg.prove("%s.convert_type.raises_only_for_unsupported_dtype.%s" % (prop, name), it.pc,
                          z3.BoolVal(False), function=fn)
                return
            nbytes, tname, flag = SPEC_TYPES[name]
            inner = TG(src.e)
            if tname is not None:
                inner = CONV(inner, z3.StringVal(tname), z3.StringVal(flag))
            spec = z3.Concat(z3.StringVal("#define FLOAT_SIZE %d\n" % nbytes), inner)
            ok = is_str_sym(out)
            reg.prove("%s.convert_type.post.define_then_converted_promoted_source.%s" % (prop, name), it.pc,
                      out.e == spec if ok else z3.BoolVal(False), function=fn,
                      replay=lambda model, name=name: replay_convert_type(name))
        it = Interp(reg)
        it.run_paths(body)


def replay_convert_type(name):
    """Real convert_type on a fragment with a promoted integer, a literal and the keyword."""
    from sasmodels import generate
    nbytes, tname, flag = SPEC_TYPES[name]
    src = "double f(double x) { return sqrt(2)*x + 1.5e-3; }"
    got = generate.convert_type(src, dtypes()[name])
    if tname is None:
        want = "#define FLOAT_SIZE 8\ndouble f(double x) { return sqrt(2.)*x + 1.5e-3; }"
    else:
        want = "#define FLOAT_SIZE %d\n%s f(%s x) { return sqrt(2.%s)*x + 1.5e-3%s; }" % (
            nbytes, tname, tname, flag, flag)
    return got != want, {"call": "generate.convert_type(%r, %s)" % (src, name), "real": got, "spec": want}


# --------------------------------------------------------------------------
# kerneldll.dll_name / dll_path
# --------------------------------------------------------------------------

def _path_models(it, exists):
    """Models of os.path.* used by kerneldll on symbolic strings."""
    import os
    import os.path

    def join(it_, args, kw):
        out = args[0]
        for b in args[1:]:
            if isinstance(out, str) and isinstance(b, str):
                out = os.path.join(out, b)
                continue
            eb = str_expr(b)
            absolute = z3.PrefixOf(z3.StringVal("/"), eb)
            # decide 'b is absolute' under the path condition when possible (keeps path terms small)
            verdict = None
            for val in (True, False):
                s = z3.Solver()
                s.set("timeout", 5000)
                s.add(*it_.pc)
                s.add(absolute if not val else z3.Not(absolute))
                if s.check() == z3.unsat:
                    verdict = val
                    break
            if verdict is True:
                out = Sym(eb)
            elif verdict is False:
                out = Sym(z3.Concat(str_expr(out), z3.StringVal("/"), eb))
            else:
                out = Sym(z3.If(absolute, eb, z3.Concat(str_expr(out), z3.StringVal("/"), eb)))
        return out
    it.models[os.path.join] = join
    it.models[os.path.exists] = exists
    it.models[os.path.abspath] = lambda it_, a, k: a[0]


def dll_name_contract(reg, prop):
    """The library path is an injective function of (model file tag, precision bits): two
    requests share a path only if they have the same tag and the same precision."""
    fn = "sasmodels.kerneldll.dll_path"
    dts = {k: v for k, v in dtypes().items() if k != "F16"}
    names = {}

    def run(mf, dt):
        out = {}

        def body(it):
            it.global_overrides = {("sasmodels.kerneldll", "SAS_DLL_PATH"): Sym(z3.String("cache_dir"))}
            it.assume(z3.PrefixOf(z3.StringVal("/"), z3.String("cache_dir")))
            # the 'precompiled dll next to the package' hack: not present (assumption)
            _path_models(it, lambda it_, a, k: False)
            f = it.get_func("sasmodels.kerneldll", "dll_path")
            out["v"] = it.call(f, [Sym(mf), dt])
            out["pc"] = list(it.pc)
        it = Interp(reg)
        it.run_paths(body)
        return out
    m1, m2 = z3.String("model_file_1"), z3.String("model_file_2")
    res = {}
    for k, dt in dts.items():
        res[k, 1] = run(m1, dt)
        res[k, 2] = run(m2, dt)
    noslash = [z3.Not(z3.Contains(m1, z3.StringVal("/"))), z3.Not(z3.Contains(m2, z3.StringVal("/")))]
    for a in dts:
        for b in dts:
            pa, pb = res[a, 1], res[b, 2]
            if not (is_str_sym(pa["v"]) and is_str_sym(pb["v"])):
                reg.undecided("%s.dll_path.injective.%s.%s" % (prop, a, b), "path is not a string term", function=fn)
                continue
            same = pa["v"].e == pb["v"].e
            if a == b:
                goal = z3.Implies(same, m1 == m2)
            else:
                goal = z3.Not(same)
            reg.prove("%s.dll_path.injective_in_tag_and_precision.%s.%s" % (prop, a, b),
                      pa["pc"] + pb["pc"] + noslash, goal, function=fn, timeout_ms=30000,
                      replay=lambda model, a=a, b=b: replay_dll_name(a, b))
    reg.assume("kerneldll.dll_name's look-up of a precompiled library next to the package finds nothing; "
               "SAS_DLL_PATH is absolute; os.path.join(a, b) = b if b is absolute else a + '/' + b")


def replay_dll_name(a, b):
    from sasmodels import kerneldll
    d = dtypes()
    pa, pb = kerneldll.dll_path("model_0A1B2C3D", d[a]), kerneldll.dll_path("model_0A1B2C3D", d[b])
    bad = (pa == pb) if a != b else False
    return bad, {"call": "kerneldll.dll_path('model_0A1B2C3D', %s) vs (..., %s)" % (a, b), "real": [pa, pb],
                 "spec": "different paths for different precisions"}


# --------------------------------------------------------------------------
# core.parse_dtype
# --------------------------------------------------------------------------

SPELLINGS = {"single": "F32", "float32": "F32", "f": "F32", "fast": "F32",
             "double": "F64", "float64": "F64", "d": "F64",
             "quad": "F128", "longdouble": "F128", "g": "F128",
             "half": "F16", "float16": "F16"}


def parse_dtype_contract(reg, prop):
    """Every spelling of a precision request selects the stated type, whatever the
    platform, the model flags and the GPU availability (symbolic booleans); a
    trailing '!' forces the dll platform; 'fast' sets the fast flag; with no
    request the default is single on a GPU for single-safe models, else double."""
    fn = "sasmodels.core.parse_dtype"
    D = dtypes()
    for spelling in list(SPELLINGS) + [None, "default"]:
        for bang in ("", "!"):
            if spelling is None and bang:
                continue
            for platform in (None, "ocl", "cuda", "dll"):
                tag = "%s%s.%s" % (spelling, "_forced" if bang else "", platform)

                def body(it, spelling=spelling, bang=bang, platform=platform, tag=tag):
                    opencl, single = z3.Bool("info.opencl"), z3.Bool("info.single")
                    have_cl, have_cuda, has_type = z3.Bool("use_opencl"), z3.Bool("use_cuda"), z3.Bool("env.has_type")
                    asked = []

                    def env(it_, a, k):
                        def has(it__, a_, k_):
                            asked.append(a_[0])
                            return Sym(has_type)
                        return it_.new_obj(None, {"has_type": Summary(has, "GpuEnvironment.has_type", contract=False)},
                                           "gpu_environment")
                    it.summaries["sasmodels.kernelcl.use_opencl"] = Summary(lambda it_, a, k: Sym(have_cl), "use_opencl", contract=False)
                    it.summaries["sasmodels.kernelcuda.use_cuda"] = Summary(lambda it_, a, k: Sym(have_cuda), "use_cuda", contract=False)
                    it.summaries["sasmodels.kernelcl.environment"] = Summary(env, "kernelcl.environment", contract=False)
                    it.summaries["sasmodels.kernelcuda.environment"] = Summary(env, "kernelcuda.environment", contract=False)
                    it.poison_one_arm = False       # few paths: fork instead of poisoning one-arm assignments
                    info = it.new_obj(None, {"opencl": Sym(opencl), "single": Sym(single)}, "model_info")
                    f = it.get_func("sasmodels.core", "parse_dtype")
                    arg = None if spelling is None else spelling + bang
                    try:
                        out = it.call(f, [info, arg, platform])
                    except IRaise as exc:
                        reg.prove("%s.parse_dtype.no_exception.%s" % (prop, tag), it.pc, z3.BoolVal(False), function=fn,
                                  replay=lambda m: (True, {"call": "parse_dtype(info, %r, %r)" % (arg, platform),
                                                           "real": repr(exc.value), "spec": "no exception"}))
                        return
                    items = out.items if hasattr(out, "items") and not isinstance(out, dict) else list(out)
                    dt, fast, plat = items
                    rp = lambda m, arg=arg, platform=platform: replay_parse_dtype(arg, platform)
                    # platform actually in use before the has_type fallback
                    p0 = platform or "ocl"
                    forced = bool(bang)
                    on_gpu0 = z3.BoolVal(False) if (forced or p0 == "dll") else (
                        z3.And(opencl, z3.Or(have_cl, have_cuda)) if p0 == "ocl" else opencl)
                    if spelling in SPELLINGS:
                        reg.prove("%s.parse_dtype.selects_stated_type.%s" % (prop, tag), it.pc,
                                  z3.BoolVal(not isinstance(dt, Sym) and dt == D[SPELLINGS[spelling]]), function=fn, replay=rp)
                    else:
                        if isinstance(dt, Sym):
                            reg.undecided("%s.parse_dtype.default_type.%s" % (prop, tag), "symbolic dtype", function=fn)
                        else:
                            want32 = z3.And(single, on_gpu0, z3.Or(has_type, z3.BoolVal(spelling == "default")))
                            reg.prove("%s.parse_dtype.default_type.%s" % (prop, tag), it.pc,
                                      z3.If(want32, z3.BoolVal(dt == D["F32"]), z3.BoolVal(dt == D["F64"])),
                                      function=fn, replay=rp)
                    isdll = z3.BoolVal(plat == "dll") if not isinstance(plat, Sym) else plat.e == z3.StringVal("dll")
                    if forced:
                        reg.prove("%s.parse_dtype.bang_forces_dll.%s" % (prop, tag), it.pc, isdll, function=fn, replay=rp)
                    reg.prove("%s.parse_dtype.gpu_only_if_allowed_available_and_type_supported.%s" % (prop, tag), it.pc,
                              z3.Or(isdll, z3.And(on_gpu0, has_type)), function=fn, replay=rp)
                    reg.prove("%s.parse_dtype.fast_flag.%s" % (prop, tag), it.pc,
                              z3.BoolVal((fast is True) == (spelling == "fast") and isinstance(fast, bool)), function=fn,
                              replay=rp)
                it = Interp(reg)
                it.run_paths(body)


def replay_parse_dtype(arg, platform):
    """The real parse_dtype in this sandbox (no GPU): stated type and dll platform."""
    from sasmodels import core
    info = core.load_model_info("sphere")
    dt, fast, plat = core.parse_dtype(info, arg, platform)
    D = dtypes()
    name = (arg or "").rstrip("!")
    want = D[SPELLINGS[name]] if name in SPELLINGS else D["F64"]
    bad = (dt != want) or plat != "dll" or (fast != (name == "fast"))
    return bad, {"call": "core.parse_dtype(<sphere>, %r, %r) with no GPU" % (arg, platform),
                 "real": [str(dt), fast, plat], "spec": [str(want), name == "fast", "dll"]}


# --------------------------------------------------------------------------
# kerneldll.make_dll on a ghost file system
# --------------------------------------------------------------------------

class MakeDllRun(object):
    """One symbolic run of kerneldll.make_dll per path: ghost-file-system event trace,
    path condition, returned value."""

    def __init__(self, reg, dtype_name, system=False):
        self.reg, self.dtype_name, self.system = reg, dtype_name, system
        self.paths = []          # one record per explored path

    def run(self):
        import os
        import os.path
        import tempfile
        import shutil
        import logging
        D = dtypes()
        dt = D[self.dtype_name]
        src0 = z3.String("source")
        model_id = z3.String("model_id")
        cache_dir = z3.String("cache_dir")
        allow_single = z3.Bool("ALLOW_SINGLE_PRECISION_DLLS")

        def body(it):
            ev = []              # ghost events, in program order
            fresh_n = [0]
            rec = {"events": ev, "raised": None, "ret": None}

            def fresh_path(hint):
                fresh_n[0] += 1
                return z3.String("fresh!%s!%d" % (hint, fresh_n[0]))

            def exists(it_, a, k):
                p = a[0]
                if not is_str_sym(p) and not isinstance(p, str):
                    return False
                pe = str_expr(p)
                # precompiled-library hack of dll_name: not present (assumption)
                if "compiled_models" in pe.sexpr() and "cache_dir" not in pe.sexpr():
                    return False
                b = z3.Bool("exists!%d" % len(ev))
                ev.append(("exists", pe, b))
                return Sym(b)
            _path_models(it, exists)
            it.models[os.makedirs] = lambda it_, a, k: ev.append(("makedirs", str_expr(a[0]))) or None
            def basename(it_, a, k):
                t = z3.Function("basename", S, S)(str_expr(a[0]))
                it_.assume(z3.Not(z3.Contains(t, z3.StringVal("/"))))     # os.path.basename: no separator in the result
                return Sym(t)
            it.models[os.path.basename] = basename
            it.models[os.path.dirname] = lambda it_, a, k: Sym(z3.Function("dirname", S, S)(str_expr(a[0])))

            def splitext(it_, a, k):
                e = str_expr(a[0])
                return (Sym(z3.Function("splitext_root", S, S)(e)), Sym(z3.Function("splitext_ext", S, S)(e)))
            it.models[os.path.splitext] = splitext

            def mkstemp(it_, a, k):
                p = fresh_path("mkstemp")
                ev.append(("create", p, "mkstemp", {kk: vv for kk, vv in k.items()}))
                return (("fd", p), Sym(p))
            it.models[tempfile.mkstemp] = mkstemp

            def mkdtemp(it_, a, k):
                p = fresh_path("mkdtemp")
                ev.append(("mkdir", p, {kk: vv for kk, vv in k.items()}))
                return Sym(p)
            it.models[tempfile.mkdtemp] = mkdtemp

            def file_obj(p):
                def write(it_, a, k):
                    ev.append(("write", p, str_expr(a[0])))
                    return None
                return it.new_obj(None, {"write": Summary(write, "file.write", contract=False),
                                         "__exit__": Summary(lambda it_, a, k: ev.append(("close", p)) or None,
                                                             "file.close", contract=False)}, "file")

            def fdopen(it_, a, k):
                fd = a[0]
                return file_obj(fd[1])
            it.models[os.fdopen] = fdopen
            it.models[open] = lambda it_, a, k: file_obj(str_expr(a[0]))
            it.models[os.close] = lambda it_, a, k: None
            it.models[os.unlink] = lambda it_, a, k: ev.append(("unlink", str_expr(a[0]))) or None
            it.models[os.remove] = it.models[os.unlink]
            it.models[os.replace] = lambda it_, a, k: ev.append(("replace", str_expr(a[0]), str_expr(a[1]))) or None
            it.models[os.rename] = it.models[os.replace]
            # shutil.move is a rename only within one file system; otherwise a copy into the destination
            it.models[shutil.move] = lambda it_, a, k: ev.append(("move", str_expr(a[0]), str_expr(a[1]))) or None
            it.models[shutil.copy] = lambda it_, a, k: ev.append(("copy", str_expr(a[0]), str_expr(a[1]))) or None
            it.models[shutil.copy2] = it.models[shutil.copy]
            it.models[shutil.copyfile] = it.models[shutil.copy]
            it.models[shutil.rmtree] = lambda it_, a, k: ev.append(("rmtree", str_expr(a[0]))) or None
            it.models[os.rmdir] = it.models[shutil.rmtree]
            it.models[os.getpid] = lambda it_, a, k: Sym(z3.Int("pid"))
            it.models[logging.debug] = lambda it_, a, k: None
            it.models[logging.info] = lambda it_, a, k: None
            it.with_hook = lambda src: src.startswith("os.fdopen") or src.startswith("open(")

            def compile_model(it_, a, k):
                source = k.get("source", a[0] if a else None)
                output = k.get("output", a[1] if len(a) > 1 else None)
                ok = z3.Bool("compile_ok!%d" % len(ev))
                ev.append(("compile", str_expr(source), str_expr(output), ok))
                if not it_.decide(ok):
                    raise IRaise(RuntimeError("compile failed."))
                return None
            it.summaries["sasmodels.kerneldll.compile_model"] = Summary(compile_model, "compile_model (external compiler)")
            it.summaries["sasmodels.generate.tag_source"] = Summary(
                lambda it_, a, k: Sym(TAG(str_expr(a[0]))), "generate.tag_source (CRC32, treated as a function)", contract=False)

            def convert_type(it_, a, k):
                d = a[1]
                ev.append(("convert", str_expr(a[0]), d))
                return Sym(CONVT(str_expr(a[0]), z3.IntVal(d.itemsize)))
            it.summaries["sasmodels.generate.convert_type"] = Summary(convert_type, "generate.convert_type (contract C15)")
            it.global_overrides = {("sasmodels.kerneldll", "SAS_DLL_PATH"): Sym(cache_dir),
                                   ("sasmodels.kerneldll", "ALLOW_SINGLE_PRECISION_DLLS"): Sym(allow_single)}
            it.assume(z3.PrefixOf(z3.StringVal("/"), cache_dir))
            it.poison_one_arm = False
            info = it.new_obj(None, {"id": Sym(model_id)}, "model_info")
            f = it.get_func("sasmodels.kerneldll", "make_dll")
            try:
                rec["ret"] = it.call(f, [Sym(src0), info], {"dtype": dt, "system": self.system})
            except IRaise as exc:
                rec["raised"] = exc.value
            rec["pc"] = list(it.pc)
            self.paths.append(rec)
        it = Interp(self.reg)
        it.run_paths(body)
        return self


def final_path(mf_expr, dtype_name, reg):
    """dll_path(model_file, dtype) as a term (the same symbolic run as dll_name_contract)."""
    out = {}

    def body(it):
        it.global_overrides = {("sasmodels.kerneldll", "SAS_DLL_PATH"): Sym(z3.String("cache_dir"))}
        it.assume(z3.PrefixOf(z3.StringVal("/"), z3.String("cache_dir")))
        _path_models(it, lambda it_, a, k: False)
        f = it.get_func("sasmodels.kerneldll", "dll_path")
        out["v"] = it.call(f, [Sym(mf_expr), dtypes()[dtype_name]])
        out["pc"] = list(it.pc)
    Interp(reg).run_paths(body)
    return out["v"].e, out["pc"]


def make_dll_dtype_contract(reg, prop):
    """C15/C17: the precision that names the library is the precision the source is
    converted to, and the name is dll_path(id + '_' + tag_source(source), that precision)."""
    fn = "sasmodels.kerneldll.make_dll"
    src0, model_id = z3.String("source"), z3.String("model_id")
    allow_single = z3.Bool("ALLOW_SINGLE_PRECISION_DLLS")
    for name in ("F16", "F32", "F64", "F128"):
        run = MakeDllRun(reg, name).run()
        for n, rec in enumerate(run.paths):
            tag = "%s.path%d" % (name, n)
            if name == "F16":
                reg.prove("%s.make_dll.half_precision_is_rejected.%s" % (prop, tag), rec["pc"],
                          z3.BoolVal(isinstance(rec["raised"], ValueError) and not rec["events"]), function=fn)
                continue
            if rec["raised"] is not None and not any(e[0] == "compile" for e in rec["events"]):
                reg.prove("%s.make_dll.no_exception_before_compile.%s" % (prop, tag), rec["pc"], z3.BoolVal(False),
                          function=fn, replay=lambda m, name=name: replay_make_dll_dtype(name))
                continue
            # effective precision per the documentation: single falls back to double when not allowed
            mf = z3.Concat(model_id, z3.StringVal("_"), TAG(src0))
            conv = [e for e in rec["events"] if e[0] == "convert"]
            rp = lambda m, name=name: replay_make_dll_dtype(name)
            for eff, cond in ((("F64", z3.Not(allow_single)), ("F32", allow_single)) if name == "F32"
                              else ((name, z3.BoolVal(True)),)):
                want, pcw = final_path(mf, eff, reg)
                ret = rec["ret"]
                if rec["raised"] is None:
                    reg.prove("%s.make_dll.returns_path_named_by_id_tag_and_effective_precision.%s" % (prop, tag),
                              rec["pc"] + pcw + [cond], ret.e == want if is_str_sym(ret) else z3.BoolVal(False),
                              function=fn, replay=rp)
                if conv:
                    reg.prove("%s.make_dll.converts_the_given_source_to_the_precision_in_the_name.%s" % (prop, tag),
                              rec["pc"] + [cond],
                              z3.And(z3.BoolVal(len(conv) == 1 and conv[0][2] == dtypes()[eff]), conv[0][1] == src0),
                              function=fn, replay=rp)
            comp = [e for e in rec["events"] if e[0] == "compile"]
            writes = {e[1].sexpr(): e[2] for e in rec["events"] if e[0] == "write"}
            for c in comp:
                text = writes.get(c[1].sexpr())
                reg.prove("%s.make_dll.compiles_exactly_the_converted_source.%s" % (prop, tag), rec["pc"],
                          z3.And(z3.BoolVal(text is not None and len(conv) == 1),
                                 text == CONVT(src0, z3.IntVal(conv[0][2].itemsize)) if text is not None and conv
                                 else z3.BoolVal(False)),
                          function=fn, replay=rp)


def replay_make_dll_dtype(name):
    """Real make_dll with a recording compiler: name and FLOAT_SIZE of the compiled text agree."""
    import os
    import re
    import tempfile
    import shutil
    from sasmodels import kerneldll, core, generate
    info = core.load_model_info("sphere")
    src = generate.make_source(info)["dll"]
    seen = {}
    d = tempfile.mkdtemp(prefix="verif_make_dll_")
    old = (kerneldll.SAS_DLL_PATH, kerneldll.compile_model)

    def fake_compile(source, output):
        seen["text"] = open(source).read()
        seen["output"] = output
        open(output, "w").write("stub")
    try:
        kerneldll.SAS_DLL_PATH = d
        kerneldll.compile_model = fake_compile
        path = kerneldll.make_dll(src, info, dtype=dtypes()[name])
    finally:
        kerneldll.SAS_DLL_PATH, kerneldll.compile_model = old
        shutil.rmtree(d, ignore_errors=True)
    m = re.match(r"#define FLOAT_SIZE (\d+)", seen.get("text", ""))
    size = int(m.group(1)) if m else None
    bits = int(re.match(r"sas(\d+)_", os.path.basename(path)).group(1))
    want_bits = 8 * dtypes()[name].itemsize
    bad = (size is None) or 8 * size != bits or bits != want_bits
    return bad, {"call": "kerneldll.make_dll(<sphere source>, info, dtype=%s) with a recording compiler" % name,
                 "real": {"library": os.path.basename(path), "FLOAT_SIZE": size},
                 "spec": {"bits_in_name": want_bits, "FLOAT_SIZE": want_bits // 8}}



# --------------------------------------------------------------------------
# kerneldll.DllModel._load_dll: C argument types follow the precision
# --------------------------------------------------------------------------

def load_dll_types_contract(reg, prop):
    """The scalar cutoff argument of the three kernels has the C type of the requested precision (float /
    double / long double), the other arguments are int32 x3, void* x4 and a trailing int32."""
    import ctypes as ct
    import sasmodels.kerneldll as live
    fn = "sasmodels.kerneldll.DllModel._load_dll"
    want_float = {"F32": ct.c_float, "F64": ct.c_double, "F128": ct.c_longdouble}
    for name, dt in dtypes().items():
        if name == "F16":
            continue

        def body(it, name=name, dt=dt):
            kernels = {}

            class FakeKernel(object):
                argtypes = None

            def cdll(it_, a, k):
                def getitem(it__, a_, k_):
                    kern = it__.new_obj(None, {"argtypes": None}, "kernel %s" % (a_[0],))
                    kernels[a_[0]] = kern
                    return kern
                return it_.new_obj(None, {"__getitem__": Summary(getitem, "CDLL[name]", contract=False)}, "cdll")
            it.models[ct.CDLL] = cdll
            info = it.new_obj(None, {"name": "m"}, "info")
            selfo = it.new_obj(live.DllModel, {"dllpath": "/cache/x.so", "dtype": dt, "_dll": None, "info": info,
                                                "_kernels": None}, "DllModel")
            f = it.get_func("sasmodels.kerneldll", "DllModel._load_dll")
            it.call(f, [selfo])
            want = [ct.c_int32] * 3 + [ct.c_void_p] * 4 + [want_float[name], ct.c_int32]
            ok = set(kernels) == {"m_Iq", "m_Iqxy", "m_Imagnetic"}
            for kern in kernels.values():
                at = it.getattr(kern, "argtypes")
                items = list(at.items) if hasattr(at, "items") and not isinstance(at, (list, tuple)) else list(at or [])
                ok = ok and items == want
            reg.prove("%s.DllModel._load_dll.argument_types_follow_the_precision.%s" % (prop, name), it.pc,
                      z3.BoolVal(bool(ok)), function=fn, replay=lambda mdl=None, name=name: replay_load_dll_types(name))
        it = Interp(reg)
        it.poison_one_arm = False
        try:
            it.run_paths(body)
        except OutsideSubset as exc:
            reg.undecided("%s.DllModel._load_dll.engine.%s" % (prop, name), "outside subset: %s" % exc, function=fn)


def replay_load_dll_types(name):
    """Real single/double/quad kernels with dispersity and a large cutoff against the double kernel."""
    import numpy as np
    from sasmodels import core
    from sasmodels.direct_model import call_kernel
    spelling = {"F32": "single!", "F64": "double!", "F128": "quad!"}[name]
    info = core.load_model_info("sphere")
    q = np.array([0.01, 0.05, 0.1])
    pars = dict(radius=50.0, radius_pd=0.3, radius_pd_n=30, background=0.0)
    ref = np.asarray(call_kernel(core.build_model(info, dtype="double!").make_kernel([q]), pars, cutoff=1e-2), "d")
    got = np.asarray(call_kernel(core.build_model(info, dtype=spelling).make_kernel([q]), pars, cutoff=1e-2), "d")
    tol = 1e-4 if name == "F32" else 1e-9
    bad = not np.allclose(got, ref, rtol=tol)
    return bool(bad), {"call": "sphere, radius_pd=0.3, cutoff=1e-2: %s kernel vs double kernel" % spelling,
                       "real": got.tolist(), "spec": ref.tolist()}


# --------------------------------------------------------------------------
# kerneldll.load_dll: the model object carries the precision the library was built for
# --------------------------------------------------------------------------

def load_dll_dtype_contract(reg, prop):
    """load_dll(source, info, dtype) wraps the library in a DllModel whose dtype (the type of the numpy buffers
    handed to the kernel) is the precision make_dll compiled: the requested one, or double when single precision
    libraries are switched off (ALLOW_SINGLE_PRECISION_DLLS = False)."""
    fn = "sasmodels.kerneldll.load_dll"
    D = dtypes()
    for name in ("F32", "F64", "F128"):
        for allow in (True, False):
            def body(it, name=name, allow=allow):
                seen = {}

                def make_dll(it_, a, k):
                    seen["make_dtype"] = k.get("dtype", a[2] if len(a) > 2 else None)
                    return Sym(z3.String("library_path"))

                def dll_model(it_, a, k):
                    seen["model_dtype"] = k.get("dtype", a[2] if len(a) > 2 else None)
                    return "model"
                it.summaries["sasmodels.kerneldll.make_dll"] = Summary(make_dll, "make_dll (contract above)", contract=False)
                stub = Summary(dll_model, "DllModel()", contract=False)
                it.summaries["sasmodels.kerneldll.DllModel"] = stub
                it.global_overrides = {("sasmodels.kerneldll", "DllModel"): stub,
                                       ("sasmodels.kerneldll", "ALLOW_SINGLE_PRECISION_DLLS"): allow}
                f = it.get_func("sasmodels.kerneldll", "load_dll")
                it.call(f, [Sym(z3.String("source")), it.new_obj(None, {}, "info")], {"dtype": D[name]})
                # the precision make_dll compiles for a request (its own contract): double for a single request
                # when single precision libraries are disallowed
                eff = lambda d: D["F64"] if (d == D["F32"] and not allow) else d
                md = seen.get("make_dtype")
                built = eff(md) if md is not None else None
                ok = (seen.get("model_dtype") is not None and seen.get("model_dtype") == built
                      and md in (D[name], eff(D[name])) and built == eff(D[name]))
                region = "single_precision_dlls_disallowed" if (name == "F32" and not allow) else "%s" % name
                reg.prove("%s.load_dll.model_dtype_is_the_precision_of_the_library.%s" % (prop, region), it.pc,
                          z3.BoolVal(bool(ok)), function=fn,
                          replay=lambda mdl=None, name=name, allow=allow: replay_load_dll_dtype(name, allow))
            it = Interp(reg)
            it.poison_one_arm = False
            it.run_paths(body)


def replay_load_dll_dtype(name, allow):
    """Real load_dll with a recording compiler: dtype of the DllModel against FLOAT_SIZE of the compiled text."""
    import os
    import re
    import shutil
    import tempfile
    from sasmodels import kerneldll, core, generate
    info = core.load_model_info("sphere")
    src = generate.make_source(info)["dll"]
    seen = {}
    d = tempfile.mkdtemp(prefix="verif_load_dll_")
    old = (kerneldll.SAS_DLL_PATH, kerneldll.compile_model, kerneldll.ALLOW_SINGLE_PRECISION_DLLS)

    def fake_compile(source, output):
        seen["text"] = open(source).read()
        open(output, "w").write("stub")
    try:
        kerneldll.SAS_DLL_PATH, kerneldll.compile_model, kerneldll.ALLOW_SINGLE_PRECISION_DLLS = d, fake_compile, allow
        model = kerneldll.load_dll(src, info, dtypes()[name])
    finally:
        kerneldll.SAS_DLL_PATH, kerneldll.compile_model, kerneldll.ALLOW_SINGLE_PRECISION_DLLS = old
        shutil.rmtree(d, ignore_errors=True)
    m = re.match(r"#define FLOAT_SIZE (\d+)", seen.get("text", ""))
    size = int(m.group(1)) if m else None
    bad = size is None or model.dtype.itemsize != size
    return bool(bad), {"call": "kerneldll.load_dll(<sphere>, dtype=%s) with ALLOW_SINGLE_PRECISION_DLLS=%s" % (name, allow),
                       "real": {"DllModel.dtype.itemsize": int(model.dtype.itemsize), "FLOAT_SIZE of the compiled source": size},
                       "spec": "equal"}
