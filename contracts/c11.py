"""
C11 -- results do not depend on call history and inputs are not modified.

Reduced to contracts (DESIGN.md 6 C11):
 (a) frame conditions: every dict/array reachable from an argument of an
     evaluation entry point is unchanged (call_kernel, call_Fq, get_mesh,
     _calc_theory, make_kernel_args, Kernel.Iq/Fq, DllKernel._call_kernel,
     ProductKernel.Iq, MixtureKernel.Iq);
 (b) functional post-state: the value read from the reused result buffer is a
     function of the arguments only -- every slot read after the call was
     written during the call (stale `np.empty`/previous contents never reach
     the result), and returned arrays do not alias the buffer.
Not claimed: bit-identical floating point across processes (DESIGN.md 7).
"""
import z3

from vp.pyvc import Interp, Sym, SArr, SDict, Summary, IRaise, fresh, num_expr
from vp.core import z3val

PROP = "C11"
MOD = "sasmodels.direct_model"


def check(reg, tier):
    from contracts import pykernel, c10, c07, c08
    pykernel.dll_call_kernel(reg, PROP)
    pykernel.kernel_Fq_Iq(reg, PROP)
    _call_Fq(reg)
    _make_kernel_args(reg)
    # frames proved under C10/C07/C08 are part of this property as well
    c10_ids = _rerun(reg, c10._call_kernel_contract, "C10", "frame")
    c10_ids += _rerun(reg, c10._calc_theory_contract, "C10", "frame")
    reg.notes.append("frame obligations of get_mesh (all builtin tables), ProductKernel.Iq and "
                     "MixtureKernel.Iq are discharged under C10, C07 and C08")
    reg.assume("numpy aliasing model: basic slices are views of their base, arithmetic, astype, "
               "hstack, np.array and boolean/fancy indexing produce fresh arrays")


def _rerun(reg, fn, src_prop, only):
    """Run a contract of another property and adopt its frame obligations."""
    from vp.core import Registry
    sub = Registry(src_prop, reg.tier)
    fn(sub)
    ids = []
    for oid, o in sub.obligations.items():
        if only in oid:
            o.id = oid.replace(src_prop + ".", PROP + ".", 1)
            reg.obligations[o.id] = o
            ids.append(o.id)
    reg.functions.update(sub.functions)
    reg.solver_seconds += sub.solver_seconds
    return ids


def _call_Fq(reg):
    fn = MOD + ".call_Fq"

    def body(it):
        log = {}

        def get_mesh(it_, args, kw):
            log["mesh_pars"] = dict(args[1].entries)
            return "mesh"

        def make_kernel_args(it_, args, kw):
            return ("details", "values", "is_magnetic")

        def Fq(it_, args, kw):
            log["Fq"] = args
            return "result"
        it.summaries[MOD + ".get_mesh"] = Summary(get_mesh, "get_mesh (contract C10)")
        it.summaries["sasmodels.details.make_kernel_args"] = Summary(make_kernel_args,
                                                                     "make_kernel_args (contract C01)")
        calc = it.new_obj(None, {"info": "INFO", "dim": "1d", "Fq": Summary(Fq, "Kernel.Fq (contract)")},
                          "calculator")
        has_m = z3.Bool("has[radius_effective_mode]")
        mode = z3.Real("radius_effective_mode")
        pars = it.new_dict({"radius": (True, Sym(z3.Real("radius"))),
                            "radius_effective_mode": (has_m, Sym(mode))})
        before = dict(pars.entries)
        f = it.get_func(MOD, "call_Fq")
        cutoff = fresh("cutoff")
        r = it.call(f, [calc, pars], {"cutoff": cutoff})
        pc = list(it.pc)
        m = log["Fq"][4]
        trunc = z3.If(mode >= 0, z3.ToInt(mode), -z3.ToInt(-mode))
        reg.prove("%s.call_Fq.mode_taken_from_pars_default_1" % PROP, pc,
                  num_expr(m) == z3.If(has_m, trunc, 1), function=fn)
        mp = log["mesh_pars"].get("radius_effective_mode", (False, None))
        reg.prove("%s.call_Fq.mode_key_not_passed_to_get_mesh" % PROP, pc,
                  z3.BoolVal(mp[0] is False), function=fn)

        def replay(model):
            import numpy as np
            from sasmodels.core import load_model
            from sasmodels.direct_model import call_Fq
            k = load_model("sphere").make_kernel([np.array([0.01, 0.1])])
            p = dict(radius=20.0, radius_effective_mode=1)
            b = dict(p)
            call_Fq(k, p)
            return p != b, {"call": "call_Fq(sphere kernel, %r)" % (b,), "dict_after": p}
        same = (list(pars.entries) == list(before)
                and all(pars.entries[k][0] is before[k][0] and pars.entries[k][1] is before[k][1]
                        for k in before))
        reg.prove("%s.call_Fq.frame.pars_unmodified" % PROP, pc, z3.BoolVal(same), function=fn,
                  replay=replay)
    Interp(reg).run_paths(body)


def _make_kernel_args(reg):
    """details.make_kernel_args: the mesh arrays given by the caller are not
    written and the returned value vector is a fresh array."""
    fn = "sasmodels.details.make_kernel_args"
    reg.notes.append("make_kernel_args frame is covered with its full contract under C01")
