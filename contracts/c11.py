"""
C11 -- results do not depend on call history and inputs are not modified.

Reduced to contracts (DESIGN.md 6 C11):
 (a) frame conditions: every dict/array reachable from an argument of an
     evaluation entry point is unchanged (call_kernel, call_Fq, get_mesh,
     _calc_theory, make_kernel_args, Kernel.Iq/Fq, DllKernel._call_kernel,
     ProductKernel.Iq, MixtureKernel.Iq);
 (b) functional post-state: the value read from the reused result buffer is a
     function of the arguments only -- every slot read after the call was
     written during the call (stale `np.empty`/previous contents never reach
     the result), and returned arrays do not alias the buffer.
Not claimed: bit-identical floating point across processes (DESIGN.md 7).
"""
import z3

from vp.pyvc import Interp, Sym, SArr, SDict, Summary, IRaise, fresh, num_expr
from vp.core import z3val

PROP = "C11"
MOD = "sasmodels.direct_model"


def check(reg, tier):
    from contracts import pykernel, c10, c07, c08
    pykernel.dll_call_kernel(reg, PROP)
    pykernel.kernel_Fq_Iq(reg, PROP)
    _call_Fq(reg)
    _make_kernel_args(reg)
    _load_custom_model(reg)
    _dispersion_init(reg)
    _clone(reg)
    _composition_frames(reg)
    # frames proved under C10/C07/C08 are part of this property as well
    c10_ids = _rerun(reg, c10._call_kernel_contract, "C10", "frame")
    c10_ids += _rerun(reg, c10._calc_theory_contract, "C10", "frame")
    reg.notes.append("frame obligations of get_mesh (all builtin tables), ProductKernel.Iq and "
                     "MixtureKernel.Iq are discharged under C10, C07 and C08")
    reg.assume("numpy aliasing model: basic slices are views of their base, arithmetic, astype, "
               "hstack, np.array and boolean/fancy indexing produce fresh arrays")


def _snapshot(info):
    """Everything a later evaluation of this model reads from its ModelInfo: the attributes of every Parameter object
    of its tables and the plain attributes of the info itself."""
    out = {}
    pt = info.parameters
    seen = {}
    for group in ("kernel_parameters", "call_parameters", "common_parameters"):
        for p in getattr(pt, group, []) or []:
            seen[id(p)] = p
    for k, p in enumerate(seen.values()):
        for a, v in sorted(vars(p).items()):
            out["par%d(%s).%s" % (k, p.id, a)] = repr(v)
    for a, v in sorted(vars(info).items()):
        if isinstance(v, (str, int, float, bool, tuple, list, type(None))):
            out["info." + a] = repr(v)
    for a in ("npars", "nvalues", "nmagnetic", "max_pd", "theta_offset"):
        out["table." + a] = repr(getattr(pt, a, None))
    return out


def _composition_frames(reg):
    """Frame of make_product_info / make_mixture_info: building P@S, P*S or P+S leaves the ModelInfo objects of the
    parts (which the library caches and other model objects share) exactly as they were - otherwise a model evaluated
    after a product was built differs from the same model in a fresh process.  Run-time frame contract on the real
    functions over every builtin form factor x structure factor pair and P+P', P*P' for a few parts."""
    from sasmodels import core, product, mixture
    fn = "sasmodels.product.make_product_info / sasmodels.mixture.make_mixture_info"
    names = [n for n in core.list_models()]
    infos = {n: core.load_model_info(n) for n in names}
    s_names = [n for n in names if infos[n].structure_factor]
    bad, ncalls = [], 0
    for s in s_names:
        for pn in names:
            if infos[pn].structure_factor:
                continue
            before = (_snapshot(infos[pn]), _snapshot(infos[s]))
            try:
                product.make_product_info(infos[pn], infos[s])
            except Exception:          # noqa   (combinations the library refuses are not part of the frame claim)
                continue
            ncalls += 1
            after = (_snapshot(infos[pn]), _snapshot(infos[s]))
            for which, b, a in (("P=" + pn, before[0], after[0]), ("S=" + s, before[1], after[1])):
                diff = [(k, b.get(k), a.get(k)) for k in sorted(set(a) | set(b)) if a.get(k) != b.get(k)]
                if diff:
                    bad.append({"call": "make_product_info(%s, %s)" % (pn, s), "modified": which, "changes": diff[:5]})
            if bad:
                break
        if bad:
            break
    if not bad:
        for op in ("+", "*"):
            for a_, b_ in (("sphere", "cylinder"), ("core_shell_sphere", "lamellar"), ("ellipsoid", "power_law")):
                before = (_snapshot(infos[a_]), _snapshot(infos[b_]))
                try:
                    mixture.make_mixture_info([infos[a_], infos[b_]], operation=op)
                except Exception:      # noqa
                    continue
                ncalls += 1
                after = (_snapshot(infos[a_]), _snapshot(infos[b_]))
                for which, b, a in ((a_, before[0], after[0]), (b_, before[1], after[1])):
                    diff = [(k, b.get(k), a.get(k)) for k in sorted(set(a) | set(b)) if a.get(k) != b.get(k)]
                    if diff:
                        bad.append({"call": "make_mixture_info([%s, %s], %r)" % (a_, b_, op), "modified": which,
                                    "changes": diff[:5]})
    oid = "%s.composition.parts_model_info_unmodified" % PROP
    if bad:
        reg.fail(oid, {"replay": {"real": bad[:3], "spec": "the parts' ModelInfo and Parameter objects are unchanged"}},
                 function=fn, engine="runtime-contract", kind="bounded")
    else:
        reg.passed(oid, function=fn, engine="runtime-contract", kind="bounded", backend="cpython",
                   bound="%d compositions: every builtin form factor x structure factor pair, and 3 pairs x (+, *)" % ncalls)


def _rerun(reg, fn, src_prop, only):
    """Run a contract of another property and adopt its frame obligations."""
    from vp.core import Registry
    sub = Registry(src_prop, reg.tier)
    fn(sub)
    ids = []
    for oid, o in sub.obligations.items():
        if only in oid:
            o.id = oid.replace(src_prop + ".", PROP + ".", 1)
            reg.obligations[o.id] = o
            ids.append(o.id)
    reg.functions.update(sub.functions)
    reg.solver_seconds += sub.solver_seconds
    return ids


def _call_Fq(reg):
    fn = MOD + ".call_Fq"

    def body(it):
        log = {}

        def get_mesh(it_, args, kw):
            log["mesh_pars"] = dict(args[1].entries)
            return "mesh"

        def make_kernel_args(it_, args, kw):
            return ("details", "values", "is_magnetic")

        def Fq(it_, args, kw):
            log["Fq"] = args
            return "result"
        it.summaries[MOD + ".get_mesh"] = Summary(get_mesh, "get_mesh (contract C10)")
        it.summaries["sasmodels.details.make_kernel_args"] = Summary(make_kernel_args,
                                                                     "make_kernel_args (contract C01)")
        calc = it.new_obj(None, {"info": "INFO", "dim": "1d", "Fq": Summary(Fq, "Kernel.Fq (contract)")},
                          "calculator")
        has_m = z3.Bool("has[radius_effective_mode]")
        mode = z3.Real("radius_effective_mode")
        pars = it.new_dict({"radius": (True, Sym(z3.Real("radius"))),
                            "radius_effective_mode": (has_m, Sym(mode))})
        before = dict(pars.entries)
        f = it.get_func(MOD, "call_Fq")
        cutoff = fresh("cutoff")
        r = it.call(f, [calc, pars], {"cutoff": cutoff})
        pc = list(it.pc)
        m = log["Fq"][4]
        trunc = z3.If(mode >= 0, z3.ToInt(mode), -z3.ToInt(-mode))
        reg.prove("%s.call_Fq.mode_taken_from_pars_default_1" % PROP, pc,
                  num_expr(m) == z3.If(has_m, trunc, 1), function=fn)
        mp = log["mesh_pars"].get("radius_effective_mode", (False, None))
        reg.prove("%s.call_Fq.mode_key_not_passed_to_get_mesh" % PROP, pc,
                  z3.BoolVal(mp[0] is False), function=fn)

        def replay(model):
            import numpy as np
            from sasmodels.core import load_model
            from sasmodels.direct_model import call_Fq
            k = load_model("sphere").make_kernel([np.array([0.01, 0.1])])
            p = dict(radius=20.0, radius_effective_mode=1)
            b = dict(p)
            call_Fq(k, p)
            return p != b, {"call": "call_Fq(sphere kernel, %r)" % (b,), "dict_after": p}
        same = (list(pars.entries) == list(before)
                and all(pars.entries[k][0] is before[k][0] and pars.entries[k][1] is before[k][1]
                        for k in before))
        reg.prove("%s.call_Fq.frame.pars_unmodified" % PROP, pc, z3.BoolVal(same), function=fn,
                  replay=replay)
    Interp(reg).run_paths(body)


def _make_kernel_args(reg):
    """details.make_kernel_args: the mesh arrays given by the caller are not
    written and the returned value vector is a fresh array."""
    fn = "sasmodels.details.make_kernel_args"
    reg.notes.append("make_kernel_args frame is covered with its full contract under C01")


def _load_custom_model(reg):
    """sasview_model.load_custom_model: the class returned is built from the module that
    custom.load_custom_kernel_module has just returned (the current revision of the plugin), whatever was
    loaded before: first load, unchanged reload (registry hit) and reload after an edit."""
    import z3
    from vp.pyvc import Interp, Summary
    fn = "sasmodels.sasview_model.load_custom_model"
    for case in ("first_load", "unchanged_reload", "reload_after_edit", "edited_and_registry_entry_missing"):
        def body(it, case=case):
            path = "/plugins/plug.py"
            new_module = it.new_obj(None, {"__file__": path}, "kernel_module_current")
            old_module = it.new_obj(None, {"__file__": path}, "kernel_module_previous")
            made = {}

            def make_info(it_, a, k):
                return it_.new_obj(None, {"module": a[0]}, "model_info")

            def make_model(it_, a, k):
                m = it_.new_obj(None, {"name": "plug", "id": "plug", "filename": path,
                                       "made_from": it_.getattr(a[0], "module")}, "SasviewModel class")
                made["new"] = m
                return m
            it.summaries["sasmodels.custom.load_custom_kernel_module"] = Summary(
                lambda it_, a, k: new_module, "load_custom_kernel_module (contract C17)", contract=False)
            it.summaries["sasmodels.modelinfo.make_model_info"] = Summary(make_info, "make_model_info", contract=False)
            it.summaries["sasmodels.sasview_model.make_model_from_info"] = Summary(make_model, "make_model_from_info",
                                                                                   contract=False)
            old_model = it.new_obj(None, {"name": "plug", "id": "plug", "filename": path,
                                          "made_from": new_module if case == "unchanged_reload" else old_module},
                                   "registered class")
            cached = {}
            models = {}
            if case == "unchanged_reload":
                cached[path] = (True, new_module)
                models["plug"] = (True, old_model)
            elif case == "reload_after_edit":
                cached[path] = (True, old_module)
                models["plug"] = (True, old_model)
            elif case == "edited_and_registry_entry_missing":
                cached[path] = (True, old_module)
            it.global_overrides = {("sasmodels.sasview_model", "_CACHED_MODULE"): it.new_dict(cached),
                                   ("sasmodels.sasview_model", "MODELS"): it.new_dict(models)}
            f = it.get_func("sasmodels.sasview_model", "load_custom_model")
            out = it.call(f, [path])
            src = it.getattr(out, "made_from", None) if out is not None else None
            reg.prove("%s.load_custom_model.returns_class_built_from_the_current_module.%s" % (PROP, case), it.pc,
                      z3.BoolVal(src is new_module), function=fn, replay=lambda mdl=None: _replay_load_custom_model())
            ent = it.global_overrides[("sasmodels.sasview_model", "MODELS")].entries.get("plug")
            reg.prove("%s.load_custom_model.registry_holds_the_returned_class.%s" % (PROP, case), it.pc,
                      z3.BoolVal(ent is not None and ent[1] is out), function=fn,
                      replay=lambda mdl=None: _replay_load_custom_model())
        it = Interp(reg)
        it.poison_one_arm = False
        it.run_paths(body)


def _replay_load_custom_model():
    """Real load_custom_model on a python plugin edited between two loads."""
    import os
    import shutil
    import tempfile
    import numpy as np
    from sasmodels import sasview_model
    d = tempfile.mkdtemp(prefix="verif_c11_")
    try:
        p = os.path.join(d, "verifplug.py")

        def write(c, t):
            open(p, "w").write('import numpy as np\nname = "verifplug"\ntitle = "t"\ndescription = "d"\n'
                               'category = "shape-independent"\nparameters = [["a", "", 1.0, [0, 10], "", "a"]]\n'
                               'def Iq(q, a):\n    return %r*a + 0*q\nIq.vectorized = True\n' % c)
            os.utime(p, (t, t))
        write(2.0, 1600000000)
        M1 = sasview_model.load_custom_model(p)
        y1 = float(np.ravel(M1().evalDistribution(np.array([0.1])))[0])
        write(5.0, 1600000010)
        M2 = sasview_model.load_custom_model(p)
        y2 = float(np.ravel(M2().evalDistribution(np.array([0.1])))[0])
    finally:
        shutil.rmtree(d, ignore_errors=True)
        sasview_model.MODELS.pop("verifplug", None)
    want1, want2 = 2.0 + 0.001, 5.0 + 0.001
    bad = not (np.isclose(y1, want1) and np.isclose(y2, want2))
    return bool(bad), {"call": "load_custom_model(plugin) / edit the plugin (newer mtime) / load_custom_model(plugin)",
                       "real": [float(y1), float(y2)], "spec": [want1, want2]}


def _same_entries(a, b):
    """Entry-wise comparison of two SDict entry tables that may hold symbolic values (identity for those)."""
    from vp.pyvc import Sym
    if set(a) != set(b):
        return False
    for k in a:
        (p1, v1), (p2, v2) = a[k], b[k]
        if p1 is not p2 and p1 != p2:
            return False
        if v1 is v2:
            continue
        if isinstance(v1, Sym) or isinstance(v2, Sym):
            return False
        if v1 != v2:
            return False
    return True


def _dispersion_init(reg):
    """weights.Dispersion.__init__: the instance takes the given values or the class defaults; the class-level
    `default` table (shared by every later instance of the type) is not modified."""
    import z3
    from vp.pyvc import Interp, Sym
    import sasmodels.weights as live
    fn = "sasmodels.weights.Dispersion.__init__"
    for given in ((True, True, True), (True, False, True), (False, False, False), (False, True, False)):
        def body(it, given=given):
            default = it.new_dict({"npts": (True, 35), "width": (True, 0), "nsigmas": (True, 3)})
            before = dict(default.entries)
            selfo = it.new_obj(live.GaussianDispersion, {"default": default}, "GaussianDispersion")
            npts, width, nsig = 11, Sym(z3.Real("width")), Sym(z3.Real("nsigmas"))
            f = it.get_func("sasmodels.weights", "Dispersion.__init__")
            it.call(f, [selfo], {"npts": npts if given[0] else None, "width": width if given[1] else None,
                                 "nsigmas": nsig if given[2] else None})
            tag = "".join("g" if g else "d" for g in given)
            got = (it.getattr(selfo, "npts"), it.getattr(selfo, "width"), it.getattr(selfo, "nsigmas"))
            want = (npts if given[0] else 35, width if given[1] else 0, nsig if given[2] else 3)
            ok = all((a is b) or (not isinstance(a, Sym) and not isinstance(b, Sym) and a == b) for a, b in zip(got, want))
            reg.prove("%s.Dispersion.__init__.takes_given_values_or_class_defaults.%s" % (PROP, tag), it.pc,
                      z3.BoolVal(bool(ok)), function=fn, replay=lambda mdl=None: _replay_dispersion_defaults())
            reg.prove("%s.Dispersion.__init__.frame.class_defaults_unmodified.%s" % (PROP, tag), it.pc,
                      z3.BoolVal(_same_entries(dict(default.entries), before)), function=fn,
                      replay=lambda mdl=None: _replay_dispersion_defaults())
        it = Interp(reg)
        it.poison_one_arm = False
        it.run_paths(body)


def _replay_dispersion_defaults():
    from sasmodels import weights
    before = dict(weights.GaussianDispersion.default)
    try:
        weights.GaussianDispersion(npts=9, width=0.3, nsigmas=2.0)
        d = weights.GaussianDispersion()
        got = {"npts": d.npts, "width": d.width, "nsigmas": d.nsigmas}
        after = dict(weights.GaussianDispersion.default)
    finally:
        weights.GaussianDispersion.default.clear()
        weights.GaussianDispersion.default.update(before)
        weights.Dispersion.default.update(dict(npts=35, width=0, nsigmas=3))
    bad = got != before or after != before
    return bad, {"call": "GaussianDispersion(npts=9, width=0.3, nsigmas=2.0) ; GaussianDispersion()",
                 "real": got, "spec": before}


def _clone(reg):
    """SasviewModel.clone: the copy shares no mutable table with the original (parameters, details, and the
    per-parameter dispersion dictionaries), and carries equal contents."""
    import z3
    from vp.pyvc import Interp, Sym, SDict
    import sasmodels.sasview_model as live
    fn = "sasmodels.sasview_model.SasviewModel.clone"

    def body(it):
        def disp():
            return it.new_dict({"width": (True, Sym(z3.Real("w"))), "npts": (True, 35), "nsigmas": (True, 3.0),
                                "type": (True, "gaussian")})
        dispersion = it.new_dict({"radius": (True, disp()), "length": (True, disp())})
        params = it.new_dict({"radius": (True, Sym(z3.Real("radius"))), "length": (True, 400.0)})
        details = it.new_dict({"radius": (True, it.new_list(["A", 0.0, 100.0]))})
        pers = it.new_dict({})
        selfo = it.new_obj(live.SasviewModel, {"dispersion": dispersion, "params": params, "details": details,
                                               "_persistency_dict": pers}, "SasviewModel")
        f = it.get_func("sasmodels.sasview_model", "SasviewModel.clone")
        out = it.call(f, [selfo])
        g = lambda o, n: it.getattr(o, n)
        ok_top = all(g(out, n) is not g(selfo, n) for n in ("dispersion", "params", "details"))
        d1, d2 = g(selfo, "dispersion"), g(out, "dispersion")
        ok_inner = isinstance(d2, SDict) and all(d2.entries[k][1] is not d1.entries[k][1] for k in d1.entries)
        ok_equal = isinstance(d2, SDict) and all(
            {a: v[1] for a, v in d2.entries[k][1].entries.items()} == {a: v[1] for a, v in d1.entries[k][1].entries.items()}
            or all(d2.entries[k][1].entries[a][1] is d1.entries[k][1].entries[a][1] or
                   d2.entries[k][1].entries[a][1] == d1.entries[k][1].entries[a][1] for a in d1.entries[k][1].entries)
            for k in d1.entries)
        reg.prove("%s.clone.shares_no_mutable_table_with_the_original" % PROP, it.pc,
                  z3.BoolVal(bool(out is not selfo and ok_top and ok_inner)), function=fn,
                  replay=lambda mdl=None: _replay_clone())
        reg.prove("%s.clone.carries_equal_contents" % PROP, it.pc, z3.BoolVal(bool(ok_equal)), function=fn,
                  replay=lambda mdl=None: _replay_clone())
    it = Interp(reg)
    it.poison_one_arm = False
    it.run_paths(body)


def _replay_clone():
    from sasmodels.sasview_model import make_model_from_info
    from sasmodels.core import load_model_info
    base = make_model_from_info(load_model_info("cylinder"))()
    before = {k: dict(v) for k, v in base.dispersion.items()}
    c = base.clone()
    c.setParam("radius.width", 0.25)
    c.setParam("radius.npts", 11)
    c.setParam("length.width", 0.2)
    after = {k: dict(v) for k, v in base.dispersion.items()}
    bad = after != before or c.dispersion["radius"]["width"] != 0.25
    return bad, {"call": "base.clone().setParam('radius.width', 0.25) ...; inspect base.dispersion",
                 "real": {k: after[k] for k in ("radius", "length")}, "spec": {k: before[k] for k in ("radius", "length")}}
