"""
C15, language-level lemmas about the three regular expressions of
generate.py (FLOAT_RE, the 'double' keyword pattern inside _convert_type,
TGMATH_INT_RE).  The pattern texts are taken from the live module / the AST of
_convert_type, parsed by CPython's regex parser and translated to z3 regular
expressions (vp/rex.py); every lemma is an unsatisfiability query over strings
of any length.

How the lemmas give the token-level property (DESIGN.md 6 C15): re.sub scans left
to right and replaces non-overlapping matches.  For a well-formed token stream
  * a match of FLOAT_RE can only start on a character [0-9.] that is not preceded
    by a word character (L.context, L.first_char), i.e. at the start of a
    pp-number token or just after a '.', '+' or '-' inside one;
  * started at the token's first character it stays inside the token (L.within_ppnumber
    with maximal munch), cannot stop early (L.no_partial_match_of_a_constant) and
    is a C99 decimal floating constant without suffix (L.sound), so the match is the
    whole token and the token is such a constant; conversely every such constant
    (without a redundant leading zero) is matched whole (L.complete, L.maximal);
  * started inside a token that was not matched at its start, a match reaches the
    token's end and the token is a decimal floating constant (L.inner_match_benign):
    the suffix still lands at the end of a floating constant.
"""
import ast
import re

import z3

from vp import rex
from vp.core import OutsideSubset

PROP = "C15"

DEC_FLOAT = r"(\d*\.\d+|\d+\.)([eE][+-]?\d+)?|\d+[eE][+-]?\d+"
HEX_FLOAT = r"0[xX]([0-9a-fA-F]*\.[0-9a-fA-F]+|[0-9a-fA-F]+\.?)[pP][+-]?\d+"
FLOAT_SUFFIX = r"[fFlL]?"
INT_CONST = r"([1-9]\d*|0[0-7]*|0[xX][0-9a-fA-F]+)([uU](l|L|ll|LL)?|(l|L|ll|LL)[uU]?)?"
PPNUM = r"\.?\d([eEpP][+-]|[0-9a-zA-Z_.])*"
LEADING_ZERO = r"0\d[0-9.eE+-]*"


def _str(model, var):
    v = model.eval(var, model_completion=True)
    s = v.as_string() if hasattr(v, "as_string") else str(v)
    # z3 escapes non-printable characters as \u{hex}
    return re.sub(r"\\u\{([0-9a-fA-F]+)\}", lambda m: chr(int(m.group(1), 16)), s)


PRINTABLE = z3.Star(z3.Range(" ", "~"))


def prove_unsat(reg, oid, constraints, function, witness_vars, replay, describe, timeout_ms=60000, kind="proof"):
    """Lemma = unsatisfiability of `constraints`.  A model is a candidate counterexample:
    it is handed to `replay` (real code); unknown is undecided."""
    import time
    t0 = time.time()
    r, m = rex.check_unsat(constraints, timeout_ms)
    dt = time.time() - t0
    if r == "unsat":
        reg.passed(oid, function=function, engine="rex", backend="z3-seq", seconds=dt)
        return True
    if r == "unknown":
        # second opinion with a longer budget
        r2, m2 = rex.check_unsat(constraints, 4 * timeout_ms)
        if r2 == "unsat":
            reg.passed(oid, function=function, engine="rex", backend="z3-seq", seconds=time.time() - t0)
            return True
        if r2 == "unknown":
            reg.undecided(oid, "solver unknown/timeout on the regular-expression query", function=function, engine="rex")
            return False
        m = m2
    # prefer a printable witness when one exists (the verdict does not depend on it)
    r3, m3 = rex.check_unsat(list(constraints) + [z3.InRe(v, PRINTABLE) for v in witness_vars], timeout_ms)
    if r3 == "sat":
        m = m3
    wit = {str(v): _str(m, v) for v in witness_vars}
    bad, info = replay(wit)
    info = dict(info, lemma=describe, witness=wit)
    if bad:
        reg.fail(oid, info, function=function, engine="rex")
    else:
        reg.undecided(oid, "counter-model %r did not replay on the real code" % (wit,), function=function, engine="rex")
    return False


# --------------------------------------------------------------------------
# replay: the real functions on a fragment containing the witness
# --------------------------------------------------------------------------

def replay_fragment(fragment):
    """convert_type on a fragment against the token-level specification."""
    from sasmodels import generate
    from contracts import ctok
    out = {}
    bad = False
    d64 = ctok.tokens(generate.convert_type(fragment, generate.F64))
    for dt, tn, fl, nb in ((generate.F32, "float", "f", "4"), (generate.F128, "long double", "L", "16")):
        got = ctok.tokens(generate.convert_type(fragment, dt))
        want = ctok.spec_convert(d64, tn, fl)
        want[3] = ("num", nb)
        d = ctok.first_difference(got, want)
        if d:
            bad = True
            out[tn] = {"first_difference_at_token": d[0], "real": d[1], "spec": d[2]}
    return bad, {"call": "generate.convert_type(%r, float32 / long double) vs token-level spec" % fragment,
                 "real": generate.convert_type(fragment, generate.F32), "differences": out}


def literal_replay(wit):
    x = wit.get("x") or wit.get("t") or ""
    return replay_fragment("double y = %s;" % x)


# --------------------------------------------------------------------------
# FLOAT_RE
# --------------------------------------------------------------------------

def literal_lemmas(reg):
    from sasmodels import generate
    fn = "sasmodels/generate.py:FLOAT_RE,_tag_float"
    P = rex.pattern_of(generate.FLOAT_RE)
    core = P.re
    x, p, c, r, a = (z3.String(n) for n in ("x", "p", "c", "r", "a"))
    dec, hexf = rex.regex(DEC_FLOAT), rex.regex(HEX_FLOAT)
    lead0 = rex.regex(LEADING_ZERO)
    ppnum = rex.regex(PPNUM)
    valid = z3.Union(z3.Concat(z3.Union(dec, hexf), rex.regex(FLOAT_SUFFIX)), rex.regex(INT_CONST))
    in_ = z3.InRe
    word_ctx = (P.before is not None and P.before[0] == "not" and P.after is not None and P.after[0] == "not")
    # context: the look-arounds are (?<!\w) and (?!\w), as z3 class equalities
    ok = False
    if word_ctx:
        r1, _ = rex.check_unsat([z3.Length(c) == 1, z3.Xor(in_(c, P.before[1]), in_(c, rex.WORD))])
        r2, _ = rex.check_unsat([z3.Length(c) == 1, z3.Xor(in_(c, P.after[1]), in_(c, rex.WORD))])
        ok = (r1 == "unsat" and r2 == "unsat")
    oid = "%s.literal.context_is_not_adjacent_to_word_characters" % PROP
    if ok:
        reg.passed(oid, function=fn, engine="rex", backend="z3-seq")
    else:
        bad, info = replay_fragment("double y = x1.5 + 1.5f + 1.5;")
        (reg.fail if bad else reg.undecided)(oid, info if bad else "pattern context is not (?<!\\w)...(?!\\w)",
                                              function=fn, engine="rex")
    tpl_ok = _tag_template_ok()
    oid = "%s.literal.replacement_appends_the_flag_only" % PROP
    if tpl_ok:
        reg.passed(oid, function=fn, engine="rex", backend="ast-compare")
    else:
        bad, info = replay_fragment("double y = 1.5;")
        (reg.fail if bad else reg.undecided)(oid, info if bad else "replacement template is not \\g<0>flag",
                                              function=fn, engine="rex")

    L = lambda name: "%s.literal.%s" % (PROP, name)
    prove_unsat(reg, L("sound_only_decimal_floating_constants_match"), [in_(x, core), z3.Not(in_(x, dec))],
                fn, [x], literal_replay, "L(FLOAT_RE) is a subset of the C99 decimal floating constants")
    prove_unsat(reg, L("complete_every_decimal_floating_constant_matches"),
                [in_(x, dec), z3.Not(in_(x, lead0)), z3.Not(in_(x, core)),
                 # a match that starts after the point or the exponent sign and reaches the end still tags the constant
                 z3.Not(in_(x, z3.Concat(z3.Star(rex.ASCII), rex.NONWORD, core)))], fn, [x], literal_replay,
                "every C99 decimal floating constant whose integer part has no redundant leading zero is in L(FLOAT_RE) "
                "(or is tagged through a match of its tail that reaches its end)")
    prove_unsat(reg, L("region_leading_zero_constants_match"),
                [in_(x, dec), in_(x, lead0), z3.Not(in_(x, core)),
                 # and no inner match (started after a non-word character) reaches the end of the token either
                 z3.Not(in_(x, z3.Concat(z3.Star(rex.ASCII), rex.NONWORD, core)))],
                fn, [x], literal_replay,
                "decimal floating constants with a leading zero in the integer part (00.5) are tagged")
    prove_unsat(reg, L("region_hexadecimal_floating_constants_match"),
                [in_(x, hexf), z3.Not(in_(x, core))], fn, [x], literal_replay,
                "C99 hexadecimal floating constants (0x1.8p3) are tagged")
    prove_unsat(reg, L("maximal_no_proper_prefix_can_match"),
                [x == z3.Concat(p, c, r), in_(x, core), in_(p, core), z3.Length(c) == 1, in_(c, rex.NONWORD)],
                fn, [x, p], literal_replay,
                "a proper prefix of a matching constant is never itself a match followed by a non-word character")
    prove_unsat(reg, L("first_char_is_digit_or_point_digit"),
                [in_(x, core), z3.Not(in_(x, rex.regex(r"(\d|\.\d)[\x00-\x7f]*")))], fn, [x], literal_replay,
                "a match starts with a digit or with '.' followed by a digit")
    prove_unsat(reg, L("within_ppnumber"), [in_(x, core), z3.Not(in_(x, ppnum))], fn, [x], literal_replay,
                "every match is a C preprocessing number (so it cannot extend beyond a maximal-munch token)")
    t = z3.String("t")
    prove_unsat(reg, L("no_partial_match_of_a_constant"),
                [in_(t, valid), t == z3.Concat(p, c, r), in_(p, core), z3.Length(c) == 1, in_(c, rex.NONWORD)],
                fn, [t, p], literal_replay,
                "no proper prefix of a valid integer/floating constant (with or without suffix) is a match")
    prove_unsat(reg, L("suffixed_and_integer_constants_do_not_match"),
                [in_(t, valid), z3.Not(in_(t, dec)), in_(t, core)], fn, [t], literal_replay,
                "integer constants and suffixed or hexadecimal floating constants are not in L(FLOAT_RE)")
    c1 = z3.String("c1")
    inner = [in_(t, valid), z3.Not(in_(t, core)), in_(p, core), z3.Length(c) == 1, in_(c, rex.NONWORD)]
    prove_unsat(reg, L("inner_match_benign.reaches_the_end_of_the_constant"),
                inner + [z3.Length(c1) == 1, in_(c1, rex.NONWORD), t == z3.Concat(a, c, p, c1, r)],
                fn, [t, a, p], literal_replay,
                "a match starting inside a constant (after '.', '+' or '-') that does not match at its start "
                "ends at the constant's end")
    prove_unsat(reg, L("inner_match_benign.constant_is_an_unsuffixed_decimal_float"),
                inner + [t == z3.Concat(a, c, p), z3.Not(in_(t, dec))],
                fn, [t, a, p], literal_replay,
                "... and then the constant is an unsuffixed decimal floating constant, so the suffix lands correctly")
    # vacuity guards: the same queries with a weakened side must be satisfiable
    for name, cs in (("cover.core_nonempty", [in_(x, core)]),
                     ("cover.prefix_query_reachable", [x == z3.Concat(p, c, r), in_(x, core), in_(p, core),
                                                        z3.Length(c) == 1]),
                     ("cover.valid_constants_nonempty", [in_(t, valid), in_(t, core)])):
        res, _ = rex.check_unsat(cs)
        if res == "sat":
            reg.passed("%s.literal.%s" % (PROP, name), function=fn, engine="rex", backend="z3-seq", kind="cover")
        else:
            reg.undecided("%s.literal.%s" % (PROP, name), "vacuity guard is %s" % res, function=fn, engine="rex")
    reg.function_under_contract("sasmodels.generate._tag_float", "sasmodels/generate.py", 0, 0,
                                generate.FLOAT_RE.pattern)


def _tag_template_ok():
    """_tag_float is `FLOAT_RE.sub(r'\\g<0>%s' % constant_flag, source)` (checked on its AST)."""
    import inspect
    from sasmodels import generate
    tree = ast.parse(inspect.getsource(generate._tag_float))
    for n in ast.walk(tree):
        if isinstance(n, ast.Call) and isinstance(n.func, ast.Attribute) and n.func.attr == "sub" \
                and isinstance(n.func.value, ast.Name) and n.func.value.id == "FLOAT_RE" and len(n.args) == 2:
            t = n.args[0]
            if isinstance(t, ast.BinOp) and isinstance(t.op, ast.Mod) and isinstance(t.left, ast.Constant) \
                    and t.left.value == r"\g<0>%s" and isinstance(t.right, ast.Name) \
                    and t.right.id == "constant_flag" and isinstance(n.args[1], ast.Name) and n.args[1].id == "source":
                return True
    return False


# --------------------------------------------------------------------------
# the 'double' keyword pattern
# --------------------------------------------------------------------------

def keyword_pattern():
    """(pattern text, template text) of the re.sub call in generate._convert_type."""
    import inspect
    from sasmodels import generate
    tree = ast.parse(inspect.getsource(generate._convert_type))
    for n in ast.walk(tree):
        if isinstance(n, ast.Call) and isinstance(n.func, ast.Attribute) and n.func.attr == "sub" \
                and isinstance(n.func.value, ast.Name) and n.func.value.id == "re" and len(n.args) >= 3:
            pat, tpl = n.args[0], n.args[1]
            if isinstance(pat, ast.Constant) and isinstance(tpl, ast.BinOp) and isinstance(tpl.left, ast.Constant) \
                    and isinstance(tpl.right, ast.Name) and tpl.right.id == "type_name":
                return pat.value, tpl.left.value
    raise OutsideSubset("re.sub call of _convert_type not recognised")


def keyword_replay(wit):
    s = wit.get("text")
    if s is None:
        s = "%s%s%s" % (wit.get("a", ""), wit.get("v", ""), wit.get("fv", ""))
    return replay_fragment(s)


def keyword_lemmas(reg):
    fn = "sasmodels/generate.py:_convert_type"
    pat, tpl = keyword_pattern()
    reg.function_under_contract("sasmodels.generate._convert_type", "sasmodels/generate.py", 0, 0, pat)
    P = rex.Pattern(pat)                    # '^' may be the start of the text
    Pn = rex.Pattern(pat, begin_is="empty")  # a match that does not start at the start of the text
    in_ = z3.InRe
    # structure: group 1, the literal 'double', group 2; template \1<type>\2
    items = [(str(op), av) for op, av in P.tree]
    lit = "".join(chr(av) for op, av in items if op == "LITERAL")
    shape = [op for op, av in items]
    struct_ok = (tpl == r"\1%s\2" and lit == "double" and shape[0] == "SUBPATTERN" and shape[-1] == "SUBPATTERN"
                 and all(s == "LITERAL" for s in shape[1:-1]) and items[0][1][0] == 1 and items[-1][1][0] == 2)
    oid = "%s.keyword.only_the_word_double_is_replaced" % PROP
    if struct_ok:
        reg.passed(oid, function=fn, engine="rex", backend="ast-compare")
    else:
        bad, info = replay_fragment("double f(cdouble z, double4 v) { return (double)1; }")
        (reg.fail if bad else reg.undecided)(oid, info if bad else "pattern/template shape not recognised",
                                              function=fn, engine="rex")
        return
    x = z3.String("x")
    g1, g2 = P.groups[1], P.groups[2]
    spec1 = rex.regex(r"([^a-zA-Z0-9_]c?)?")
    spec2_consuming = rex.regex(r"([248]|16)?([^a-zA-Z0-9_])?")
    spec2_lookahead = rex.regex(r"([248]|16)?")
    prove_unsat(reg, "%s.keyword.prefix_group_is_boundary_and_optional_c" % PROP,
                [z3.Xor(in_(x, g1), in_(x, spec1))], fn, [x],
                lambda w: replay_fragment("double f(cdouble z, xdouble y, double4 v, double3 w) { return (double)1; }"),
                "group 1 = (start | one non-identifier character then optional 'c')")
    ahead = P.after is not None
    prove_unsat(reg, "%s.keyword.suffix_group_is_vector_width_and_boundary" % PROP,
                [z3.Xor(in_(x, g2), in_(x, spec2_lookahead if ahead else spec2_consuming))], fn, [x],
                lambda w: replay_fragment("double f(cdouble z, xdouble y, double4 v, double3 w) { return (double)1; }"),
                "group 2 = optional vector width 2/4/8/16 followed by end of text or a non-identifier character")
    if ahead:
        c = z3.String("c")
        cls = P.after[1]
        r1, _ = rex.check_unsat([z3.Length(c) == 1, z3.Xor(in_(c, cls), in_(c, rex.NONWORD))])
        ok = (P.after[0] == "is_or_end" and r1 == "unsat")
        oid = "%s.keyword.lookahead_is_end_or_non_identifier_character" % PROP
        if ok:
            reg.passed(oid, function=fn, engine="rex", backend="z3-seq")
        else:
            bad, info = replay_fragment("double f(double4 v, doublex w);")
            (reg.fail if bad else reg.undecided)(oid, info if bad else "look-ahead not recognised", function=fn,
                                                  engine="rex")
    # overlap freedom: no match consumes text that a later candidate match needs.
    # text = pre . a . T ;  first match u starts after pre, second candidate v starts |a| > 0 later,
    # inside u:   u . Fu = a . T   and   v . Fv = T ,  |a| < |u|
    a, u, v, fu, fv = (z3.String(n) for n in ("a", "u", "v", "fu", "fv"))
    cons = [in_(u, P.re), in_(v, Pn.re), z3.Length(a) > 0, z3.Length(a) < z3.Length(u),
            z3.Concat(u, fu) == z3.Concat(a, v, fv)]
    if ahead:
        for m_, f_ in ((u, fu), (v, fv)):
            cons.append(in_(f_, z3.Union(rex.EPS, z3.Concat(P.after[1], z3.Star(rex.ASCII)))))
    cons += [z3.Length(fv) == 0]      # w.l.o.g.: the text ends after the later candidate (fv only has to satisfy its look-ahead)
    prove_unsat(reg, "%s.keyword.matches_never_overlap_a_later_candidate" % PROP, cons, fn, [a, v, fv, u, fu],
                keyword_replay,
                "no match consumes a character that a later occurrence of the keyword needs as its left boundary "
                "(otherwise re.sub skips the later occurrence)")
    res, _ = rex.check_unsat([in_(u, P.re), in_(v, Pn.re)])
    if res == "sat":
        reg.passed("%s.keyword.cover.pattern_nonempty" % PROP, function=fn, engine="rex", backend="z3-seq", kind="cover")
    else:
        reg.undecided("%s.keyword.cover.pattern_nonempty" % PROP, "vacuity guard is %s" % res, function=fn, engine="rex")


# --------------------------------------------------------------------------
# TGMATH_INT_RE
# --------------------------------------------------------------------------

def tgmath_lemmas(reg):
    from sasmodels import generate
    fn = "sasmodels/generate.py:TGMATH_INT_RE,_fix_tgmath_int"
    P = rex.pattern_of(generate.TGMATH_INT_RE)
    core = rex.pattern_of(generate.FLOAT_RE).re
    in_ = z3.InRe
    x, h, i = z3.String("x"), z3.String("h"), z3.String("i")
    # every match ends with an integer constant whose promoted form 'i.' is tagged by FLOAT_RE
    ints = rex.regex(r"0|[1-9]\d*")
    tail = rex.regex(r"[\x00-\x7f]*[(\s+-]")
    prove_unsat(reg, "%s.tgmath.match_ends_with_decimal_integer" % PROP,
                [in_(x, P.re), z3.Not(in_(x, z3.Concat(tail, ints)))], fn, [x],
                lambda w: replay_fragment("double f(double x) { return %s, x); }" % w["x"]),
                "a match of TGMATH_INT_RE is '<function> ( [sign] <decimal integer>'")
    prove_unsat(reg, "%s.tgmath.promoted_integer_is_tagged" % PROP,
                [in_(i, ints), z3.Not(in_(z3.Concat(i, z3.StringVal(".")), core))], fn, [i],
                lambda w: replay_fragment("double f(double x) { return sqrt(%s)*x; }" % w["i"]),
                "for every decimal integer i the promoted text 'i.' is matched by FLOAT_RE")
    ok = (P.after is not None and P.after[0] in ("is", "is_or_end", "re"))
    oid = "%s.tgmath.only_a_point_is_appended" % PROP
    import inspect
    src = inspect.getsource(generate._fix_tgmath_int)
    if ok and "TGMATH_INT_RE.sub(r'\\g<0>.', source)" in src:
        reg.passed(oid, function=fn, engine="rex", backend="ast-compare")
    else:
        bad, info = replay_fragment("double f(double x) { return sqrt(2)*pow(10, x); }")
        (reg.fail if bad else reg.undecided)(oid, info if bad else "_fix_tgmath_int shape not recognised",
                                              function=fn, engine="rex")


def run(reg):
    literal_lemmas(reg)
    keyword_lemmas(reg)
    tgmath_lemmas(reg)
    reg.assume("regular-expression lemmas: alphabet is 7-bit ASCII, \\w = [A-Za-z0-9_]; re.sub's leftmost "
               "non-overlapping scan is not modelled, the lemmas are stated for every possible match; the step from "
               "the lemmas to token streams (DESIGN.md 6 C15) is a paper argument")
