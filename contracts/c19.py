"""
C19 -- the SESANS transform is the Hankel transform G(xi) - G(0) of I(q).

SesansTransform._set_hankel and .apply are executed symbolically with the 2-D
array model (vp/pymat.py): the number of spin-echo lengths is enumerated (1, 2),
the number of calculated q values is symbolic.

  Q   q_calc[j] = exp(log(q_min) + j log(spacing)): positive and increasing;
      q_min, q_max from the documented formulas
  H0  H0[j] = q_j dq_j / 2pi,  dq_0 = q_1 - q_0, dq_j = q_j - q_{j-1}
  H   H[j,k] = accept(j,k) * J0(q_j xi_k) q_j dq_j / 2pi, where accept is false
      exactly when q_j lambda_k / 2pi is outside [-1, 1] (unreachable q, numpy NaN)
      or arcsin(q_j lambda_k / 2pi) > zaccept
  A   apply(I)[k] = sum_j H[j,k] I_j - sum_j H0[j] I_j
      = (1/2pi) sum_j [accept J0(q_j xi_k) - 1] I_j q_j dq_j  (the Riemann sum of the
      documented integral); linear in I by the Lean lemma apply_linear
  B   DataMixin._calc_theory adds no background for SESANS data (C10 obligations)
Bounded: Gaussian I(q) against (exp(-xi^2/2s^2) - 1)/(2 pi s^2); single point against
the same point inside a larger set.
"""
import math

import z3

from vp.pyvc import Interp, Sym, SArr, Summary, IRaise, J0, EXP, LOG, ARCSIN
from vp import pymat
from vp.core import OutsideSubset, adopt

PROP = "C19"


def _float(x):
    from vp.pyvc import _real_of_float
    return _real_of_float(x)


def _sel(j, items):
    out = items[-1]
    for k in range(len(items) - 2, -1, -1):
        out = z3.If(j == k, items[k], out)
    return out


def hankel_contract(reg, nxi):
    import sasmodels.sesans as live
    fn = "sasmodels.sesans.SesansTransform._set_hankel"
    from contracts import leanlib

    def body(it):
        xis = [z3.Real("xi_%d" % k) for k in range(nxi)]
        lams = [z3.Real("lambda_%d" % k) for k in range(nxi)]
        zacc = z3.Real("zaccept")
        pre = [xis[0] > 0] + [xis[k] < xis[k + 1] for k in range(nxi - 1)] + [l > 0 for l in lams]
        it.assume(z3.And(*pre))
        twopi = _float(2 * math.pi)
        if nxi == 1:
            qmin = _float(0.01 * 2 * math.pi) / xis[-1]
            qmax = _float(10 * 2 * math.pi) / xis[0]
        else:
            qmin = _float(0.1 * 2 * math.pi) / (nxi * xis[-1])
            qmax = twopi / (xis[1] - xis[0])
        spacing = 1.0003
        c = _float(math.log(spacing))
        # the calculated range always holds at least two grid points: q_max >= 19 q_min (proved), hence
        # log q_max - log q_min >= log 19 > 2 log(spacing)  (log increasing, log(19 x) = log 19 + log x)
        reg.prove("%s._set_hankel.lemma.q_max_is_at_least_19_q_min.nxi%d" % (PROP, nxi), pre, qmax >= 19 * qmin,
                  function=fn, nl=True)
        it.assume(z3.Implies(qmax >= 19 * qmin, LOG(qmax) - LOG(qmin) > 2 * c))
        se = it.array_from_fn(lambda j: _sel(j, xis), nxi, "real", "SElength")
        lam = it.array_from_fn(lambda j: _sel(j, lams), nxi, "real", "lam")
        selfo = it.new_obj(live.SesansTransform, {"log_spacing": spacing}, "SesansTransform")
        g = it.get_func("sasmodels.sesans", "SesansTransform._set_hankel")
        it.with_hook = lambda src: src.startswith("np.errstate")
        it.call(g, [selfo, se, lam, Sym(zacc), 10000000])
        pc = list(it.pc)
        q = it.getattr(selfo, "q_calc")
        H, H0 = it.getattr(selfo, "_H"), it.getattr(selfo, "_H0")
        tag = "nxi%d" % nxi
        ok = isinstance(q, SArr) and isinstance(H, pymat.SMat) and isinstance(H0, SArr) and H.shape2[1] == nxi
        reg.prove("%s._set_hankel.post.shapes.%s" % (PROP, tag), pc, z3.BoolVal(bool(ok)), function=fn)
        if not ok:
            return
        m = q.length()
        me = m.e if isinstance(m, Sym) else z3.IntVal(m)
        j = z3.Int("j")
        rng = [j >= 0, j < me]
        Q = lambda jj: EXP(LOG(qmin) + z3.ToReal(z3.IntVal(jj) if isinstance(jj, int) else jj) * c)
        rp = lambda mdl=None: replay_hankel()
        reg.prove("%s._set_hankel.post.q_calc_is_the_log_spaced_grid_from_documented_q_min.%s" % (PROP, tag), pc + rng,
                  q.at(j) == Q(j), function=fn, replay=rp)
        reg.prove("%s._set_hankel.post.q_calc_stops_before_q_max.%s" % (PROP, tag), pc + [me > 0],
                  z3.And(LOG(qmin) + z3.ToReal(me - 1) * c < LOG(qmax), LOG(qmin) + z3.ToReal(me) * c >= LOG(qmax)),
                  function=fn, replay=rp)
        expf = [EXP(LOG(qmin) + z3.ToReal(j) * c) > 0,
                z3.Implies(LOG(qmin) + z3.ToReal(j) * c < LOG(qmin) + z3.ToReal(j + 1) * c,
                           EXP(LOG(qmin) + z3.ToReal(j) * c) < EXP(LOG(qmin) + z3.ToReal(j + 1) * c))]
        reg.prove("%s._set_hankel.post.q_calc_is_positive_and_increasing.%s" % (PROP, tag), pc + expf + [j >= 0, j + 1 < me],
                  z3.And(q.at(j) > 0, q.at(j) < q.at(j + 1)), function=fn, replay=rp)
        dq = lambda jj: z3.If(jj == 0, Q(1) - Q(0), Q(jj) - Q(jj - 1))
        reg.prove("%s._set_hankel.post.H0_is_q_dq_over_2pi.%s" % (PROP, tag), pc + rng + [me >= 2],
                  H0.at(j) == dq(j) / twopi * Q(j), function=fn, replay=rp)
        for k in range(nxi):
            x = Q(j) * (lams[k] / twopi)
            accept = z3.And(x >= -1, x <= 1, ARCSIN(x) <= zacc)
            spec = z3.If(accept, J0(Q(j) * xis[k]) * (dq(j) * Q(j) / twopi), 0)
            reg.prove("%s._set_hankel.post.H_is_accepted_J0_q_dq_over_2pi.%s.col%d" % (PROP, tag, k), pc + rng + [me >= 2],
                      H.el(j, k) == spec, function=fn, replay=rp,
                      describe="H[j,k] = [q_j lambda_k/2pi in [-1,1] and arcsin(q_j lambda_k/2pi) <= zaccept] J0(q_j xi_k) q_j dq_j / 2pi")
        it.discharge_sides(reg, "%s._set_hankel.%s" % (PROP, tag), function=fn)
    it = Interp(reg)
    it.poison_one_arm = False
    it.run_paths(body)
    leanlib.lean_lemmas(reg, PROP, ["apply_linear"])


def apply_contract(reg, nxi):
    import sasmodels.sesans as live
    fn = "sasmodels.sesans.SesansTransform.apply"

    def body(it):
        m = z3.Int("m")
        Iq = it.new_array("Iq", m, "real")
        cols = [it.new_array("H_col%d" % k, m, "real") for k in range(nxi)]
        H0 = it.new_array("H0", m, "real")
        it.assume(m >= 1)
        selfo = it.new_obj(live.SesansTransform, {"_H": pymat.SMat(cols, 1, m, "real"), "_H0": H0}, "SesansTransform")
        g = it.get_func("sasmodels.sesans", "SesansTransform.apply")
        out = it.call(g, [selfo, Iq])
        sig = it.ghost.get("sigma_terms", [])
        j = z3.Int("j")
        ok = isinstance(out, SArr) and out.length() == nxi and len(sig) == nxi + 1
        reg.prove("%s.apply.post.one_value_per_spin_echo_length.nxi%d" % (PROP, nxi), it.pc, z3.BoolVal(bool(ok)), function=fn)
        if not ok:
            return
        f0, g0, _ = sig[0]
        If_ = Iq.buf.base_fn
        rp = lambda mdl=None: replay_hankel()
        reg.prove("%s.apply.post.G0_is_sum_of_H0_times_I.nxi%d" % (PROP, nxi), list(it.pc) + [j >= 0, j < m],
                  g0(j) == H0.buf.base_fn(j) * If_(j), function=fn, replay=rp)
        for k in range(nxi):
            fk, gk, _ = sig[1 + k]
            reg.prove("%s.apply.post.value_is_sum_H_I_minus_sum_H0_I.nxi%d.col%d" % (PROP, nxi, k),
                      list(it.pc) + [j >= 0, j < m],
                      z3.And(gk(j) == cols[k].buf.base_fn(j) * If_(j),
                             out.at(k) == fk(z3.IntVal(0), m) - f0(z3.IntVal(0), m)), function=fn, replay=rp,
                      describe="P[k] = sum_j H[j,k] I_j - sum_j H0[j] I_j")
    it = Interp(reg)
    it.poison_one_arm = False
    it.run_paths(body)


def replay_hankel():
    """Real SesansTransform against the documented sums (numpy), with a short wavelength so that part of the
    calculated q range is unreachable, and a finite acceptance."""
    import numpy as np
    from scipy.special import j0
    from sasmodels import sesans
    bad, out = False, []
    for xi, lam, zacc in ((np.array([50.0, 100.0, 200.0, 400.0]), np.full(4, 2.0), 2 * np.pi / 2.0 * np.sin(np.pi / 2)),
                          (np.array([300.0]), np.array([5.0]), 0.3),
                          (np.array([1.5, 3.0, 6.0]), np.array([2.0, 2.0, 8.0]), 2.0)):
        t = sesans.SesansTransform(xi, xi, lam, zacc, 1e7)
        q = t.q_calc
        n = len(xi)
        qmin = 0.01 * 2 * np.pi / xi[-1] if n == 1 else 0.1 * 2 * np.pi / (n * xi[-1])
        qmax = 10 * 2 * np.pi / xi[0] if n == 1 else 2 * np.pi / (xi[1] - xi[0])
        want_q = np.exp(np.arange(np.log(qmin), np.log(qmax), np.log(1.0003)))
        dq = np.diff(want_q)
        dq = np.insert(dq, 0, dq[0])
        Iq = np.exp(-0.5 * (want_q * 40.0) ** 2) + 0.01
        x = np.outer(want_q, lam / (2 * np.pi))
        with np.errstate(invalid="ignore"):
            accept = (np.abs(x) <= 1) & (np.arcsin(np.clip(x, -1, 1)) <= zacc)
        want = ((accept * j0(np.outer(want_q, xi))) * (want_q * dq * Iq / (2 * np.pi))[:, None]).sum(axis=0) \
            - (want_q * dq * Iq / (2 * np.pi)).sum()
        got = t.apply(Iq) if len(q) == len(want_q) else None
        ok = got is not None and np.allclose(q, want_q, rtol=1e-13) and np.allclose(got, want, rtol=1e-9, atol=1e-16) \
            and np.all(q > 0) and np.all(np.diff(q) > 0)
        bad = bad or not ok
        out.append({"xi": xi.tolist(), "lambda": lam.tolist(), "zaccept": float(zacc),
                    "real": None if got is None else got.tolist(), "spec": want.tolist(),
                    "rejected_q_points": int((~accept).sum())})
    return bad, {"call": "SesansTransform(xi, xi, lambda, zaccept).apply(gaussian + 0.01)", "real": out,
                 "spec": "(1/2pi) sum_j [accept J0(q_j xi) - 1] I_j q_j dq_j on the documented log grid"}


def bounded_runs(reg):
    """Gaussian Hankel pair and single-point consistency (real code)."""
    import numpy as np
    from sasmodels import sesans
    where = "sasmodels/sesans.py:SesansTransform"
    s = 200.0
    xi = np.linspace(50.0, 2000.0, 40)
    t = sesans.SesansTransform(xi, xi, np.full_like(xi, 5.0), 2 * np.pi / 5.0, 1e7)
    q = t.q_calc
    got = t.apply(np.exp(-0.5 * (q * s) ** 2))
    want = (np.exp(-xi ** 2 / (2 * s * s)) - 1) / (2 * np.pi * s * s)
    err = float(np.max(np.abs(got - want) / np.max(np.abs(want))))
    oid = "%s.bounded.gaussian_hankel_pair" % PROP
    if err < 5e-3 and np.all(q > 0) and np.all(np.diff(q) > 0):
        reg.passed(oid, function=where, engine="runtime-contract", kind="bounded", backend="cpython",
                   bound="s = 200 A, 40 spin-echo lengths 50..2000 A: max error %.1e of the peak" % err)
    else:
        reg.fail(oid, {"call": "SesansTransform.apply(exp(-q^2 s^2/2)), s=200", "real": got[:5].tolist(),
                       "spec": want[:5].tolist(), "max_err_over_peak": err}, function=where, engine="runtime-contract",
                 kind="bounded")
    # linearity on the real code
    I1, I2 = np.exp(-0.5 * (q * 150) ** 2), 1.0 / (1 + (q * 90) ** 2) ** 2
    lin = t.apply(2.5 * I1 - 0.75 * I2) - (2.5 * t.apply(I1) - 0.75 * t.apply(I2))
    oid = "%s.bounded.linear_in_I" % PROP
    if np.max(np.abs(lin)) <= 1e-12 * max(np.max(np.abs(t.apply(I1))), 1e-30) + 1e-18:
        reg.passed(oid, function=where, engine="runtime-contract", kind="bounded", backend="cpython",
                   bound="two intensities, coefficients 2.5 and -0.75")
    else:
        reg.fail(oid, {"call": "apply(2.5 I1 - 0.75 I2) - (2.5 apply(I1) - 0.75 apply(I2))", "real": float(np.max(np.abs(lin))),
                       "spec": 0.0}, function=where, engine="runtime-contract", kind="bounded")
    # a single point against the same point inside a set (the existing test allows 10 %)
    xs = np.logspace(1, 3, 100)
    tv = sesans.SesansTransform(xs, xs, np.full_like(xs, 5.0), 2 * np.pi / 5.0, 1e7)
    f = lambda qq: np.exp(-0.5 * (qq * 120.0) ** 2)
    yv = tv.apply(f(tv.q_calc))
    worst = 0.0
    for k in (0, 20, 50, 99):
        t1 = sesans.SesansTransform(xs[k:k + 1], xs[k:k + 1], np.array([5.0]), 2 * np.pi / 5.0, 1e7)
        y1 = t1.apply(f(t1.q_calc))[0]
        worst = max(worst, abs((y1 - yv[k]) / yv[k]))
    oid = "%s.bounded.single_point_matches_point_in_set" % PROP
    if worst < 0.1:
        reg.passed(oid, function=where, engine="runtime-contract", kind="bounded", backend="cpython",
                   bound="4 of 100 log-spaced lengths, worst relative difference %.2e < 0.1" % worst)
    else:
        reg.fail(oid, {"call": "single xi vs the same xi inside logspace(1,3,100)", "real": worst, "spec": "< 0.1"},
                 function=where, engine="runtime-contract", kind="bounded")


def check(reg, tier):
    from contracts import c10
    for nxi in (1, 2, 3):          # 3: the first step differs from the other steps (non-uniform grids)
        hankel_contract(reg, nxi)
        apply_contract(reg, nxi)
    adopt(reg, c10._calc_theory_contract, "C10", only="calc_theory")
    bounded_runs(reg)
    reg.assume("J0, exp, log, arcsin uninterpreted (exp positive and increasing instantiated where used); numpy's "
               "arcsin outside [-1, 1] is NaN and every ordered comparison with NaN is false; doubles are reals; "
               "2*pi and log(1.0003) are the float constants")
    reg.assume("the number of spin-echo lengths is enumerated (1, 2; the two q_min/q_max formulas); each column of H only "
               "reads its own xi_k, lambda_k (outer-product semantics); that the Riemann sum approximates the integral to "
               "the stated accuracy is checked only by the bounded Gaussian run")
