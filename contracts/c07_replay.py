"""Replay adapter for C07: the real ProductKernel.Iq with recording stub kernels,
next to the documented formula evaluated in numpy."""
import numpy as np
import z3

from vp.core import z3val, SEED

_cands = None


def candidates():
    """(have_Fq, has_er_modes, volfraction in P) -> builtin form factor names."""
    global _cands
    if _cands is None:
        from sasmodels import core
        _cands = {}
        for name in core.list_models():
            try:
                info = core.load_model_info(name)
            except Exception:
                continue
            if info.structure_factor or "radius_effective" in info.parameters:
                continue
            key = (bool(info.have_Fq), info.radius_effective_modes is not None,
                   "volfraction" in info.parameters)
            _cands.setdefault(key, []).append(name)
    return _cands


class StubP(object):
    def __init__(self, info, dim, F1, F2, R, Vs, Vr):
        self.info, self.dim, self.dtype = info, dim, np.dtype("d")
        self.ret = (F1, F2, R, Vs, Vr)
        self.calls = []
        self.results = lambda: "P-intermediates"

    def Fq(self, details, values, cutoff, magnetic, radius_effective_mode=0):
        self.calls.append((details, np.array(values), cutoff, magnetic, radius_effective_mode))
        F1, F2, R, Vs, Vr = self.ret
        return (None if F1 is None else np.array(F1)), np.array(F2), R, Vs, Vr

    def release(self):
        pass


class StubS(object):
    def __init__(self, info, dim, S):
        self.info, self.dim, self.dtype = info, dim, np.dtype("d")
        self.S = S
        self.calls = []

    def Iq(self, details, values, cutoff, magnetic):
        self.calls.append((details, np.array(values), cutoff, magnetic))
        return np.array(self.S)

    def release(self):
        pass


def run_real(pname, sname, dim, er_mode, beta_mode, seed=SEED, pd_on_er=True):
    from sasmodels import core, product, details as det
    p_info, s_info = core.load_model_info(pname), core.load_model_info(sname)
    info = product.make_product_info(p_info, s_info)
    rng = np.random.RandomState(seed)
    NP = info.parameters.npars
    lengths = np.ones(NP, "i4")
    p_npars = p_info.parameters.npars
    if pd_on_er:
        lengths[p_npars] = 3            # dispersity on S.radius_effective
    offset = np.hstack((0, np.cumsum(lengths)))[:-1].astype("i4")
    nw = int(lengths.sum())
    nvalues = info.parameters.nvalues
    n = nvalues + 2 * nw
    n += (32 - n % 32) % 32
    values = rng.uniform(0.5, 2.0, n)
    ids = [p.id for p in info.parameters.call_parameters]
    if "radius_effective_mode" in ids:
        values[ids.index("radius_effective_mode")] = er_mode
    if "structure_factor_mode" in ids:
        values[ids.index("structure_factor_mode")] = 1.0 if beta_mode else 0.0
    call_details = det.make_details(info, lengths.copy(), offset.copy(), nw)
    nq = 4
    F2, S = rng.uniform(1, 2, nq), rng.uniform(0.5, 1.5, nq)
    F1 = rng.uniform(0.5, 1, nq) if p_info.have_Fq else None
    R, Vs, Vr = 7.5, 3.25, 1.75
    pk = StubP(p_info, dim, F1, F2, R, Vs, Vr)
    sk = StubS(s_info, dim, S)
    q = (np.linspace(0.01, 0.1, nq),) * (2 if dim == "2d" else 1)
    kern = product.ProductKernel(info, pk, sk, q)
    v0 = values.copy()
    len0, off0 = call_details.length.copy(), call_details.offset.copy()
    bad = []
    try:
        out = kern.Iq(call_details, values, 1e-5, False)
    except NotImplementedError:
        if beta_mode and dim == "2d" and p_info.have_Fq:
            return [], {"note": "beta on 2-D refused"}
        raise
    vf_index = ids.index("volfraction")
    vip = vf_index < 2 + p_npars
    has_er = p_info.radius_effective_modes is not None
    mode = int(er_mode) if has_er else 0
    beta = bool(beta_mode) and p_info.have_Fq
    PS = F2 + F1 ** 2 * (S - 1) if beta else F2 * S
    expected = v0[0] / Vs * (1.0 if vip else v0[vf_index]) * PS + v0[1]
    if not np.allclose(out, expected, rtol=1e-12):
        bad.append({"what": "result", "real": np.asarray(out).tolist(), "spec": expected.tolist()})
    # P arguments
    if len(pk.calls) != 1 or len(sk.calls) != 1:
        bad.append({"what": "P called %d times, S %d times" % (len(pk.calls), len(sk.calls))})
        return bad, {}
    pd, pv, pc, pm, pmode = pk.calls[0]
    nmag = p_info.parameters.nmagnetic
    s_npars = s_info.parameters.npars
    last_s = 2 + p_npars + 2 - int(vip) + s_npars - 2
    first_mag = last_s + int(p_info.have_Fq) + int(has_er)
    pspec = [1.0, 0.0] + list(v0[2:2 + p_npars])
    if nmag:
        pspec += list(v0[first_mag:first_mag + 4 + 3 * nmag])
    pspec += list(v0[nvalues:nvalues + 2 * nw])
    pspec += [0.0] * ((32 - len(pspec) % 32) % 32)
    if len(pv) != len(pspec) or not np.array_equal(pv, np.array(pspec)):
        bad.append({"what": "values given to P", "real": pv.tolist(), "spec": pspec})
    if pmode != mode:
        bad.append({"what": "effective radius mode given to P", "real": pmode, "spec": mode})
    if not (np.array_equal(pd.length, len0[:p_npars]) and np.array_equal(pd.offset, off0[:p_npars])):
        bad.append({"what": "details given to P"})
    # S arguments
    sd, sv, sc, sm = sk.calls[0]
    er_index = 2 + p_npars
    R_used = R if mode > 0 else v0[er_index]
    vf_used = v0[vf_index] * Vr
    first_s = er_index + 2 - int(vip)
    w = np.array(v0[nvalues:nvalues + 2 * nw])
    off_er = off0[p_npars]
    off_vf = off0[vf_index - 2] if vip else off0[p_npars + 1]
    if mode > 0:
        w[off_er] = R
        w[off_er + nw] = 1.0
    w[off_vf] = vf_used
    w[off_vf + nw] = 1.0
    sspec = [1.0, 0.0, R_used, vf_used] + list(v0[first_s:first_s + s_npars - 2]) + list(w)
    sspec += [0.0] * ((32 - len(sspec) % 32) % 32)
    if len(sv) != len(sspec) or not np.allclose(sv, np.array(sspec), rtol=1e-14):
        bad.append({"what": "values given to S", "real": sv.tolist(), "spec": sspec})
    slen = [len0[p_npars]] + ([1] if vip else [len0[p_npars + 1]]) + \
        list(len0[p_npars + 2 - int(vip):p_npars + s_npars - int(vip)])
    if mode > 0:
        slen[0] = 1
    if list(sd.length) != [int(x) for x in slen]:
        bad.append({"what": "dispersity lengths given to S", "real": list(map(int, sd.length)),
                    "spec": [int(x) for x in slen]})
    if sm is not False:
        bad.append({"what": "magnetic flag given to S", "real": sm})
    frame = []
    if not np.array_equal(values, v0):
        frame.append("values modified")
    if not (np.array_equal(call_details.length, len0) and np.array_equal(call_details.offset, off0)):
        frame.append("call_details.length/offset modified: length %s -> %s"
                     % (len0.tolist(), call_details.length.tolist()))
    info_d = {"model": "%s@%s" % (pname, sname), "dim": dim, "radius_effective_mode": er_mode,
              "structure_factor_mode": int(beta_mode), "frame": frame}
    return bad, info_d


def _pick(sym):
    c = candidates()
    names = c.get((sym["have_beta"], sym["have_er"], sym["vip"]), [])
    return names[:3]


def make(sym):
    def replay(model):
        names = _pick(sym)
        if not names:
            return False, {"note": "no builtin form factor with flags have_Fq=%s, er_modes=%s, "
                                   "volfraction_in_P=%s" % (sym["have_beta"], sym["have_er"], sym["vip"])}
        er = max(0, int(z3val(model, sym["V"](sym["er_mode_idx"])))) if sym["have_er"] else 0
        beta = bool(z3val(model, sym["V"](sym["beta_idx"])) > 0) if sym["have_beta"] else False
        tried = []
        for name in names:
            for er_mode in sorted(set([er, 0, 1])):
                for b in sorted(set([beta, False, True])):
                    try:
                        bad, info = run_real(name, "squarewell", sym["dim"], er_mode, b)
                    except Exception as exc:
                        # squarewell's radius_effective is dispersible: every
                        # combination tried here is a legal call
                        return True, {"call": "ProductKernel(make_product_info(%s, squarewell), stubs).Iq, "
                                              "radius_effective_mode=%d, beta=%s" % (name, er_mode, b),
                                      "raised": repr(exc)}
                    if bad:
                        return True, {"call": "ProductKernel(make_product_info(%s, squarewell), stubs).Iq" % name,
                                      "inputs": info, "mismatches": bad}
                    tried.append(info)
        return False, {"tried": tried[:6]}
    return replay


def make_frame(sym):
    def replay(model):
        names = _pick(sym)
        for name in names:
            for er_mode in (1, 0):
                try:
                    bad, info = run_real(name, "squarewell", sym["dim"], er_mode, False)
                except Exception as exc:
                    continue
                if info.get("frame"):
                    return True, {"call": "ProductKernel(make_product_info(%s, squarewell), stubs).Iq "
                                          "with dispersity on radius_effective, mode %d" % (name, er_mode),
                                  "frame_violation": info["frame"]}
        return False, {"note": "caller's arrays unchanged in the replayed cases"}
    return replay


def replay_results(model=None):
    """Real product kernels: the reported intermediates P(Q), S(Q) recombine to I(q) and P(Q) equals
    scale*volfraction*<F^2>/<V> of an independent evaluation of P (plain and beta mode)."""
    import numpy as np
    from sasmodels import core
    from sasmodels.direct_model import call_kernel, call_Fq
    q = np.array([0.01, 0.05, 0.12])
    bad, out = False, []
    for mode in (0, 1):
        m = core.load_model("sphere@hardsphere")
        k = m.make_kernel([q])
        pars = dict(radius=45.0, volfraction=0.2, structure_factor_mode=mode, radius_effective_mode=1, background=0.02,
                    scale=1.3)
        I = np.asarray(call_kernel(k, pars))
        res = k.results()
        P, S = np.asarray(res["P(Q)"][1]), np.asarray(res["S(Q)"][1])     # entries are (q vectors, values)
        kp = core.load_model("sphere").make_kernel([q])
        F1, F2, R, V, ratio = call_Fq(kp, dict(radius=45.0))
        wantP = 1.3 * 0.2 * np.asarray(F2) / V
        ok = np.allclose(P, wantP, rtol=1e-10)
        if mode == 0:
            ok = ok and np.allclose(P * S + 0.02, I, rtol=1e-10)
        bad = bad or not ok
        out.append({"structure_factor_mode": mode, "real_P": P.tolist(), "spec_P": wantP.tolist(), "I": I.tolist()})
    return bool(bad), {"call": "sphere@hardsphere: results()['P(Q)'] after call_kernel", "real": out,
                       "spec": "P(Q) = scale*volfraction*<F^2>/<V>; P*S + background = I(q) in plain mode"}
