"""
Bounded stand-in (run-time contract over the enumerated builtin models) for
details.make_kernel_args / make_details: the dispersity table handed to the
kernels is well formed and covers every non-trivial distribution.

For every builtin model and every dispersible parameter i three meshes are
built by hand and passed through the real make_kernel_args:
  several   parameter i has 3 points            -> i must be a loop parameter
  single    parameter i has exactly one point that differs from its nominal
            value (a distribution cut down to one point by the limits)
            -> the kernel must see that point: i is a loop parameter or the
               value slot holds the point
  empty     parameter i has no point at all     -> the mesh is empty (num_eval == 0)
and the layout invariants (strides, offsets, lengths, 32-padding) are checked.
Labelled bounded: enumerates models/parameters; values are concrete.
"""
import time
import numpy as np


class FakeKernel(object):
    def __init__(self, info):
        self.info = info
        self.dtype = np.dtype("d")


def run(reg, prop):
    from sasmodels import core, details
    t0 = time.time()
    bad = {"several": [], "single": [], "empty": [], "layout": []}
    ncases = 0
    for name in core.list_models():
        info = core.load_model_info(name)
        pars = info.parameters.call_parameters
        npars = info.parameters.npars
        kern = FakeKernel(info)
        for i, p in enumerate(pars):
            if not p.polydisperse or i < 2 or i >= npars + 2:
                continue
            for case in ("several", "single", "empty"):
                mesh = []
                for k, pk in enumerate(pars):
                    v = 1.0 + 0.25 * k
                    if k == i:
                        if case == "several":
                            d, w = np.array([v * 0.9, v, v * 1.1]), np.array([0.25, 0.5, 0.25])
                        elif case == "single":
                            d, w = np.array([v * 1.5]), np.array([1.0])
                        else:
                            d, w = np.array([]), np.array([])
                    else:
                        d, w = np.array([v if (pk.relative_pd or not pk.polydisperse) else 0.0]), np.array([1.0])
                    mesh.append((v, d, w))
                ncases += 1
                try:
                    cd, values, mag = details.make_kernel_args(kern, mesh)
                except Exception as exc:
                    bad[case].append((name, p.name, repr(exc)))
                    continue
                k_i = i - 2
                in_loop = k_i in [int(x) for x in cd.pd_par]
                # layout invariants
                L = [int(x) for x in cd.pd_length]
                S = [int(x) for x in cd.pd_stride]
                ok = all(L[t] == int(cd.length[int(cd.pd_par[t])]) for t in range(len(L)))
                ok = ok and (not S or S[0] == 1) and all(S[t + 1] == S[t] * L[t] for t in range(len(S) - 1))
                ok = ok and int(cd.num_eval) == (int(np.prod(L)) if L else 1)
                ok = ok and len(set(int(x) for x in cd.pd_par)) == len(L)
                ok = ok and len(values) % 32 == 0 and int(cd.num_weights) == sum(len(m[1]) for m in mesh[2:2 + npars])
                if not ok:
                    bad["layout"].append((name, p.name, case))
                if case == "several" and not in_loop:
                    bad["several"].append((name, p.name))
                if case == "single" and not (in_loop or values[2 + k_i] == mesh[i][1][0]):
                    bad["single"].append((name, p.name))
                if case == "empty" and int(cd.num_eval) != 0:
                    bad["empty"].append((name, p.name))
    fn = "sasmodels.details.make_kernel_args"
    names = {"several": "every_dispersed_parameter_is_a_loop_parameter",
             "single": "single_surviving_point_is_evaluated",
             "empty": "empty_distribution_gives_empty_mesh",
             "layout": "table_layout_wellformed"}
    for case, lst in bad.items():
        oid = "%s.make_kernel_args.%s" % (prop, names[case])
        if lst:
            reg.fail(oid, {"cases_checked": ncases, "failing_model_parameter_pairs": len(lst),
                           "first": lst[:5],
                           "call": "make_kernel_args(kernel of %s, mesh with parameter %s %s)"
                                   % (lst[0][0], lst[0][1], case)},
                     function=fn, kind="bounded")
        else:
            reg.passed(oid, function=fn, kind="bounded", backend="run-time contract",
                       seconds=time.time() - t0, bound="%d (model, parameter, case) meshes over all builtin models" % ncases)
