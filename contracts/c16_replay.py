"""Replay adapter for C16: the real reparameterised model (compiled DLL) against
the real base model at parameters translated in python, with dispersity on the
new parameters summed explicitly over the mesh."""
import itertools
import math

import numpy as np


def _namespace():
    ns = {k: getattr(math, k) for k in ("sqrt", "exp", "log", "sin", "cos", "tan", "pow", "fabs")}
    ns.update(cbrt=lambda x: math.copysign(abs(x) ** (1.0 / 3.0), x), square=lambda x: x * x,
              cube=lambda x: x * x * x, M_PI=math.pi, M_4PI_3=4 * math.pi / 3, M_PI_2=math.pi / 2,
              M_PI_4=math.pi / 4)
    return ns


def translate(translation, point, base_ids):
    ns = dict(_namespace(), **point)
    for line in translation.split("\n"):
        code = line.split("#", 1)[0].strip()
        if not code:
            continue
        var, expr = code.split("=", 1)
        ns[var.strip()] = eval(expr.strip(), {"__builtins__": {}}, ns)
    return {k: ns[k] for k in base_ids if k in ns}


def base_valid(base_info, bp):
    """The base model's validity expression evaluated in python at base parameters bp."""
    txt = getattr(base_info, "valid", None)
    if not txt:
        return True
    import re
    py = txt.replace("&&", " and ").replace("||", " or ")
    py = re.sub(r"!(?!=)", " not ", py)
    try:
        return bool(eval(py, {"__builtins__": {}}, dict(_namespace(), **bp)))
    except Exception:
        return True


def validity_scan(program, kind, ndraw=400):
    """Monodisperse scan: where the base model's validity expression holds at the translated parameters the
    reparameterised model equals the base model, elsewhere it contributes nothing."""
    from sasmodels import core
    from sasmodels.direct_model import call_kernel
    from contracts import c16
    tag, base, pars, translation, insert_after, kinds = program
    base_info, info = c16.build(program)
    if not getattr(base_info, "valid", None):
        return False, {}
    rng = np.random.RandomState(7)
    m_new, m_base = core.build_model(info), core.build_model(base_info)
    q = np.array([0.01, 0.1])
    qv = [q] if kind == "Iq" else [q, q[::-1] * 0.7]
    k_new, k_base = m_new.make_kernel(qv), m_base.make_kernel(qv)
    base_ids = [p.id for p in base_info.parameters.kernel_parameters]
    for _ in range(ndraw):
        point = {}
        for p in info.parameters.kernel_parameters:
            point[p.id] = rng.uniform(10, 70) if p.type == "orientation" else p.default * rng.uniform(0.2, 5.0)
        bp = translate(translation, point, base_ids)
        for k_ in base_ids:
            bp.setdefault(k_, point.get(k_))
        ok = base_valid(base_info, bp)
        got = np.asarray(call_kernel(k_new, dict(point, scale=1.0, background=0.0)))
        if ok:
            want = np.asarray(call_kernel(k_base, dict(bp, scale=1.0, background=0.0)))
            if not np.allclose(got, want, rtol=1e-7):
                return True, {"call": "reparameterised %s at %s (valid for the base model)" % (tag, point),
                              "real": got.tolist(), "spec_base_model": want.tolist()}
        elif np.any(np.nan_to_num(got, nan=0.0) != 0.0):
            # an invalid point contributes nothing: the library returns the background (0 here) or NaN for it
            return True, {"call": "reparameterised %s at %s: base parameters %s violate the base model's validity "
                                  "expression %r" % (tag, point, bp, base_info.valid),
                          "real": got.tolist(), "spec": "no contribution (background only)"}
    return False, {}


def replay(program, kind, seed=0):
    """Several parameter draws (wide ranges, so that validity boundaries are crossed)."""
    last = validity_scan(program, kind)
    if last[0]:
        return last
    for s in range(seed, seed + 6):
        last = _replay_once(program, kind, s)
        if last[0]:
            return last
    return last


def _replay_once(program, kind, seed=0):
    from sasmodels import core
    from sasmodels.direct_model import call_kernel, call_Fq, get_mesh
    from contracts import c16
    tag, base, pars, translation, insert_after, kinds = program
    base_info, info = c16.build(program)
    rng = np.random.RandomState(seed)
    m_new, m_base = core.build_model(info), core.build_model(base_info)
    q = np.linspace(0.01, 0.3, 5)
    qv = [q] if kind == "Iq" else [q, q[::-1] * 0.7]
    k_new, k_base = m_new.make_kernel(qv), m_base.make_kernel(qv)
    base_ids = [p.id for p in base_info.parameters.kernel_parameters]
    point = {}
    for p in info.parameters.kernel_parameters:
        if p.type == "orientation":
            point[p.id] = rng.uniform(10, 70)
        elif p.type == "sld":
            point[p.id] = rng.uniform(0.5, 5)
        else:
            point[p.id] = p.default * (rng.uniform(0.8, 1.3) if seed == 0 else rng.uniform(0.3, 4.0))
    new_ids = [p[0] for p in pars]
    disp = {}
    sizes = [7, 4, 3]
    for name, n in zip([i for i in new_ids if info.parameters[i].polydisperse], sizes):
        disp[name + "_pd"] = 0.15 if info.parameters[name].relative_pd else 5.0
        disp[name + "_pd_n"] = n
    full_pars = dict(point, scale=1.0, background=0.0, **disp)
    got = np.asarray(call_kernel(k_new, full_pars))
    # the defining sum over the mesh in the new parameters
    mesh = []
    full_mesh = get_mesh(info, full_pars, dim=k_new.dim)
    call_ids = [p.id for p in info.parameters.call_parameters]
    for name in new_ids:
        entry = full_mesh[call_ids.index(name)]
        mesh.append((name, np.atleast_1d(entry[1]), np.atleast_1d(entry[2])))
    form = info.parameters.form_volume_parameters
    tot_w = tot_i = tot_v = 0.0
    for idx in itertools.product(*[range(len(v)) for _, v, _ in mesh]):
        w = float(np.prod([mesh[k][2][i] for k, i in enumerate(idx)]))
        x = dict(point)
        for k, i in enumerate(idx):
            x[mesh[k][0]] = float(mesh[k][1][i])
        bp = translate(translation, x, base_ids)
        for k in base_ids:
            if k not in bp:
                bp[k] = x[k]
        if not base_valid(base_info, bp):
            continue            # invalid mesh points contribute nothing
        F, F2, reff, vshell, ratio = call_Fq(k_base, dict(bp, scale=1.0, background=0.0))
        # F2 is <F^2>/V normalised by the monodisperse shell volume: undo it
        tot_w += w
        tot_i = tot_i + w * np.asarray(F2)
        tot_v += w * vshell
    if tot_w == 0:
        # no valid mesh point: nothing to compare (the kernel's 0/0 convention is not part of the property)
        return False, {"note": "all mesh points invalid"}
    expect = tot_i / tot_v if tot_v != 0 else tot_i / tot_w
    bad = not np.allclose(got, expect, rtol=1e-7, equal_nan=False)
    return bool(bad), {"call": "reparameterised %s (%s), %s kernel, new parameters %s, dispersity %s"
                               % (base, tag, kind, point, disp),
                       "real": got.tolist(), "spec_base_model_over_mesh": np.asarray(expect).tolist()}
