"""
C02 -- distribution weights match their documented densities, limits and widths.

Functions under contract (sasmodels/weights.py, bodies from the AST of the
current tree): weights.get_weights, Dispersion.__init__/get_weights/_linspace,
Gaussian/Uniform/Rectangle/LogNormal/Schulz/BoltzmannDispersion._weights.

All arrays have symbolic length (npts is a symbolic integer); an element of
the result is addressed by a skolem index k, so every clause holds for all
npts and all k.  numpy axioms: linspace, elementwise arithmetic, comparison ->
boolean arrays, mask selection (order preserving, exactly the true positions),
sum as an uninterpreted Sigma with the lemmas named below.

Spec (class docstrings, doc/guide/pd/polydispersity.rst, property statement):
  sigma = width*value (relative) | width (absolute);  centre = value | 0
  degenerate (sigma == 0 or npts < 2): ([centre],[1]) if lb <= centre <= ub else ([],[])
  grid:    x_k = centre - nsigmas*sigma + j_k * 2*nsigmas*sigma/(npts-1), j_k strictly increasing
           (uniform: nsigmas -> 1), restricted to [lb, ub] (lognormal/schulz: to [max(lb,1e-8), ..])
           and to |x - centre| <= sqrt(3) sigma for rectangle
  weights: w_k = dens(x_k) / sum_j dens(x_j)
     gaussian  exp(-(x-c)^2/(2 sigma^2))        rectangle, uniform  1
     boltzmann exp(-|x-c|/sigma)
     lognormal exp(-((ln x - ln c)/s)^2/2)/(x s),  s = sigma/c     (median c)
     schulz    exp(z ln z + (z-1) ln R - R z - ln c - lnGamma(z)),  z = (c/sigma)^2, R = x/c
Lemmas (assumed, listed in the evidence): sum_lin  Sigma(f/S) = Sigma(f)/S;
  sum_pos  a non-empty sum of positive terms is positive; exp > 0.
"""
import z3

from vp.pyvc import (Interp, Sym, SArr, SList, Summary, IRaise, fresh, num_expr, bool_expr,
                     EXP, LOG, GAMMALN, SQRT)
from vp.core import OutsideSubset, z3val, run_parallel

PROP = "C02"
MOD = "sasmodels.weights"
TYPES = ["gaussian", "uniform", "rectangle", "boltzmann", "lognormal", "schulz"]


def dens(kind, x, c, sigma):
    if kind == "gaussian":
        return EXP(-((x - c) * (x - c)) / (2 * sigma * sigma))
    if kind in ("uniform", "rectangle"):
        return z3.RealVal(1)
    if kind == "boltzmann":
        d = z3.If(x - c >= 0, x - c, -(x - c))
        return EXP(-d / sigma)
    if kind == "lognormal":
        s = sigma / c
        t = (LOG(x) - LOG(c)) / s
        return EXP(-(t * t) / 2) / (x * s)
    if kind == "schulz":
        z = (c / sigma) * (c / sigma)
        Rr = x / c
        return EXP(z * LOG(z) + (z - 1) * LOG(Rr) - Rr * z - LOG(c) - GAMMALN(z))
    raise ValueError(kind)


def check(reg, tier):
    jobs = []
    for kind in TYPES:
        for relative in (True, False):
            if kind in ("lognormal", "schulz") and not relative:
                continue       # outside the distributions' domain (median/mean 0): see DESIGN.md
            jobs.append((kind, relative))
    run_parallel(reg, _job, jobs)
    _degenerate(reg)
    # "relative for size parameters, absolute for angles": the flag the interfaces hand to get_weights comes from the
    # parameter table; checked against the declarations of every builtin model (vector elements included)
    from contracts import tables
    tables.check(reg, PROP, "relative")
    # lemma linspace_mono: i < i2, a < b, n >= 2  =>  a + i (b-a)/(n-1) < a + i2 (b-a)/(n-1)
    i1, i2, nn = z3.Ints("i i2 n")
    a, b = z3.Reals("a b")
    reg.prove("%s.lemma.linspace_mono" % PROP, [i1 < i2, a < b, nn >= 2],
              a + z3.ToReal(i1) * (b - a) / z3.ToReal(nn - 1) < a + z3.ToReal(i2) * (b - a) / z3.ToReal(nn - 1),
              function="lemma (real arithmetic)", timeout_ms=60000)
    reg.prove("%s.lemma.linspace_ends" % PROP, [nn >= 2],
              z3.And(a + z3.ToReal(z3.IntVal(0)) * (b - a) / z3.ToReal(nn - 1) == a,
                     a + z3.ToReal(nn - 1) * (b - a) / z3.ToReal(nn - 1) == b),
              function="lemma (real arithmetic)", timeout_ms=60000)
    reg.assume("numpy axioms: linspace, elementwise arithmetic, comparisons, boolean mask selection "
               "(order preserving, exactly the true positions), sum as uninterpreted Sigma")
    reg.assume("lemmas sum_lin (Sigma(f/S) = Sigma(f)/S), sum_pos (non-empty sum of positive terms > 0), exp > 0: "
               "assumed, not proved here")
    reg.assume("preconditions: npts >= 2, width > 0, nsigmas > 0, lb <= ub; relative distributions have value > 0; "
               "lognormal and schulz are only specified for relative widths")
    reg.assume("finite/NaN-free weights are a floating-point clause: checked only by the replay grid, not proved")


def _job(sub, job):
    _dist(sub, *job)


def _setup(it):
    n = z3.Int("npts")
    width, ns, value = z3.Real("width"), z3.Real("nsigmas"), z3.Real("value")
    lb, ub = z3.Real("lb"), z3.Real("ub")
    return n, width, ns, value, lb, ub


def _dist(reg, kind, relative):
    tag = "%s.%s" % (kind, "relative" if relative else "absolute")
    fn = MOD + ".%sDispersion._weights" % {"gaussian": "Gaussian", "uniform": "Uniform",
                                            "rectangle": "Rectangle", "boltzmann": "Boltzmann",
                                            "lognormal": "LogNormal", "schulz": "Schulz"}[kind]

    def body(it):
        n, width, ns, value, lb, ub = _setup(it)
        it.assume(z3.And(n >= 2, width > 0, ns > 0, lb <= ub))
        if relative:
            it.assume(value > 0)
        if kind in ("lognormal", "schulz"):
            from vp.pyvc import _real_of_float
            it.assume(ub >= _real_of_float(1e-8))   # an upper limit below the support's minimum is meaningless
        c = value if relative else z3.RealVal(0)
        sigma = width * value if relative else width
        f = it.get_func(MOD, "get_weights")
        for q in ("Dispersion.__init__", "Dispersion.get_weights", "Dispersion._linspace"):
            it.get_func(MOD, q)
        it.get_func(MOD, fn.split(".", 2)[2])
        rp = _replay(kind, relative)
        try:
            v, w = it.call(f, [kind, Sym(n), Sym(width), Sym(ns), Sym(value),
                               (Sym(lb), Sym(ub)), relative])
        except IRaise as exc:
            reg.prove("%s.no_exception.%s" % (PROP, tag), it.pc, False, function=fn, replay=rp,
                      describe=lambda m: {"raised": repr(exc.value)})
            return
        pc = list(it.pc)
        it.discharge_sides(reg, "%s.%s" % (PROP, tag), function=fn, replay=rp)
        if not (isinstance(v, SArr) and isinstance(w, SArr)):
            reg.prove("%s.returns_arrays.%s" % (PROP, tag), pc, False, function=fn, replay=rp)
            return
        m = v.n if not isinstance(v.n, int) else z3.IntVal(v.n)
        wm = w.n if not isinstance(w.n, int) else z3.IntVal(w.n)
        k, k2 = z3.Int("k"), z3.Int("k2")
        rng = [k >= 0, k < m]
        # quantifier-free instances of the mask-selection axioms at the skolem
        # indices and their images (two rounds cover the nested selection)
        schemas = list(getattr(it, "axiom_schemas", []))
        terms = [k, k + 1, k2]
        for _ in range(2):
            terms = terms + [z3.simplify(s.sel(t)) for s in schemas for t in terms]
        seen, uniq = set(), []
        for t in terms:
            if t.sexpr() not in seen:
                seen.add(t.sexpr())
                uniq.append(t)
        ax = []
        for s in schemas:
            for t in uniq:
                ax += s(t)
            ax += s(k, k + 1)
            for t in uniq:
                ax += s(z3.simplify(s.sel(k)) if False else t, None)
        # monotone images: sel_outer(k) < sel_outer(k+1) => sel_inner(sel_outer(k)) < sel_inner(sel_outer(k+1))
        for s in schemas:
            for s2 in schemas:
                if s is not s2:
                    ax += s(z3.simplify(s2.sel(k)), z3.simplify(s2.sel(k + 1)))
        # lemma linspace_mono (proved once below) instantiated at the selected grid indices
        for mono in getattr(it, "linspace_schemas", []):
            for a_ in uniq:
                for b_ in uniq:
                    if a_ is not b_:
                        ax.append(mono(a_, b_))
        reg.prove("%s.same_length.%s" % (PROP, tag), pc + ax, wm == m, function=fn, replay=rp)
        from vp.pyvc import _real_of_float
        E8 = _real_of_float(1e-8)          # the double 1e-8 the code uses as lower end of the support
        lo = lb if kind not in ("lognormal", "schulz") else z3.If(lb >= E8, lb, E8)
        hi = ub if kind not in ("lognormal", "schulz") else z3.If(ub >= E8, ub, E8)
        reg.prove("%s.values_inside_limits.%s" % (PROP, tag), pc + ax + rng,
                  z3.And(v.at(k) >= lo, v.at(k) <= hi, v.at(k) >= lb), function=fn, replay=rp)
        # strictly increasing: the grid is increasing and selection preserves order
        grid = getattr(it, "last_linspace", None)
        reg.prove("%s.values_strictly_increasing.%s" % (PROP, tag), pc + ax + [k >= 0, k + 1 < m],
                  v.at(k) < v.at(k + 1), function=fn, replay=rp, timeout_ms=60000)
        span = sigma if kind == "uniform" else ns * sigma
        lins = getattr(it, "linspace_schemas", [])
        # grid: value k is grid point j_k = sel-chain(k) of the documented equally spaced grid
        jk = k
        for s in reversed(schemas):
            jk = s.sel(jk)
        defs = [m_.defn(jk) for m_ in lins] + [m_.defn(z3.Int("jgrid")) for m_ in lins]

        def gridpoint(jv):
            return c - span + z3.ToReal(jv) * (2 * span) / z3.ToReal(n - 1)
        reg.prove("%s.values_on_documented_grid.%s" % (PROP, tag), pc + ax + rng + defs,
                  z3.And(jk >= 0, jk < n, v.at(k) == gridpoint(jk)),
                  function=fn, replay=rp, timeout_ms=60000)
        if kind == "rectangle":
            d = v.at(k) - c
            # sqrt(3) rounded up in the 17th digit (1.7320508075688772935...)
            import math
            R3 = _real_of_float(math.sqrt(3.0))    # the double nearest to sqrt(3)
            reg.prove("%s.support.%s" % (PROP, tag), pc + ax + rng,
                      z3.If(d >= 0, d, -d) <= R3 * sigma,
                      function=fn, replay=rp, timeout_ms=60000)
        if kind == "uniform":
            d = v.at(k) - c
            # end points of the grid (lemma linspace_last: x_{n-1} = b) and monotonicity in between
            ends = []
            for m_ in lins:
                a_, b_, n_ = m_.bounds
                ends += [m_.fn(z3.IntVal(0)) == a_, m_.fn(n_ - 1) == b_,
                         m_(z3.IntVal(0), jk), m_(jk, n_ - 1)]
            reg.prove("%s.support.%s" % (PROP, tag), pc + ax + rng + ends, z3.If(d >= 0, d, -d) <= sigma,
                      function=fn, replay=rp, timeout_ms=60000)
        if kind in ("lognormal", "schulz"):
            reg.prove("%s.support.%s" % (PROP, tag), pc + ax + rng, v.at(k) >= E8,
                      function=fn, replay=rp)
        # completeness: every grid point inside the limits (and the support) takes part
        jg = z3.Int("jgrid")
        xg = lins[0].fn(jg) + (c if kind != "uniform" else 0) if lins else gridpoint(jg)
        inside = z3.And(jg >= 0, jg < n, xg >= lo, xg <= hi)
        if kind == "rectangle":
            import math
            dg = xg - c
            inside = z3.And(inside, z3.If(dg >= 0, dg, -dg) <= _real_of_float(math.sqrt(3.0)) * sigma)
        # instances of the onto-axioms along the selection chain
        cax = []
        cur = jg
        for s in schemas:
            cax.append(z3.Implies(z3.And(cur >= 0, cur < s.n, s.mask(cur)),
                                  z3.And(s.inv(cur) >= 0, s.inv(cur) < s.m, s.sel(s.inv(cur)) == cur)))
            cur = s.inv(cur)
        reg.prove("%s.every_grid_point_inside_limits_takes_part.%s" % (PROP, tag), pc + ax + cax + [inside],
                  z3.And(cur >= 0, cur < m, v.at(cur) == xg), function=fn, replay=rp, timeout_ms=60000)
        reg.prove("%s.grid_point_is_documented_value.%s" % (PROP, tag), pc + defs + [jg >= 0, jg < n],
                  xg == gridpoint(jg), function=fn, replay=rp, timeout_ms=60000)
        sig = it.ghost.get("sigmas", [])
        if len(sig) != 1:
            reg.prove("%s.normalised_by_one_sum.%s" % (PROP, tag), pc, False, function=fn, replay=rp)
            return
        Sf, arr = sig[0]
        off = z3.IntVal(arr.off) if isinstance(arr.off, int) else arr.off
        an = arr.n if not isinstance(arr.n, int) else z3.IntVal(arr.n)
        S = Sf(off, off + an)
        # normalisation: w_k = px_k / Sigma(px)   (then Sigma(w) = 1 by sum_lin)
        same = z3.eq(z3.simplify(w.at(k)), z3.simplify(arr.at(k) / S))
        if same:
            reg.passed("%s.normalised_by_sum_of_all_weights.%s" % (PROP, tag), function=fn,
                       backend="syntactic")
        else:
            reg.prove("%s.normalised_by_sum_of_all_weights.%s" % (PROP, tag), pc + ax + rng + [S != 0],
                      w.at(k) * S == arr.at(k), function=fn, replay=rp, timeout_ms=30000)
        reg.prove("%s.sum_ranges_over_all_points.%s" % (PROP, tag), pc + ax, z3.And(an == m, off == 0),
                  function=fn, replay=rp)
        # unnormalised weight = documented density at the value (pointwise, by congruence)
        from vp.core import prove_eq_decomposed
        st_, backend, dt = prove_eq_decomposed(pc + ax + rng, arr.at(k), dens(kind, v.at(k), c, sigma))
        oid = "%s.weights_are_documented_density.%s" % (PROP, tag)
        if st_ == "unsat":
            reg.passed(oid, function=fn, backend=backend, seconds=dt)
        else:
            reproduced, info = rp(None)
            if reproduced:
                reg.fail(oid, {"solver": st_, "replay": info}, function=fn)
            else:
                reg.undecided(oid, "density identity not proved (%s) and the replay grid agrees" % st_,
                              function=fn)
        # non-negative: exp > 0, positive denominators, S > 0 (lemma sum_pos)
        t_ = z3.Real("t!exp")
        pos = [z3.ForAll([t_], EXP(t_) > 0, patterns=[EXP(t_)]), S > 0]
        reg.prove("%s.weights_nonnegative.%s" % (PROP, tag), pc + ax + rng + pos,
                  z3.Implies(arr.at(k) >= 0, w.at(k) >= 0), function=fn, replay=rp, timeout_ms=30000)
        reg.prove("%s.unnormalised_weights_nonnegative.%s" % (PROP, tag), pc + ax + rng + pos,
                  arr.at(k) >= 0, function=fn, replay=rp, timeout_ms=30000)
        s_ = z3.Solver(); s_.add(*pc)
        if s_.check() == z3.unsat:
            reg.errors.append("vacuous precondition in %s" % tag)
    it = Interp(reg)
    it.run_paths(body, max_paths=64)


def _degenerate(reg):
    """sigma == 0 or npts < 2: the single central value with weight one (or nothing)."""
    fn = MOD + ".Dispersion.get_weights"
    for kind in TYPES:
        for relative in (True, False):
            tag = "%s.%s" % (kind, "relative" if relative else "absolute")

            def body(it, kind=kind, relative=relative, tag=tag):
                n, width, ns, value, lb, ub = _setup(it)
                it.assume(z3.And(n >= 0, width >= 0, ns > 0, lb <= ub))
                sigma = width * value if relative else width
                it.assume(z3.Or(sigma == 0, n < 2))
                c = value if relative else z3.RealVal(0)
                f = it.get_func(MOD, "get_weights")
                rp = _replay(kind, relative)
                try:
                    v, w = it.call(f, [kind, Sym(n), Sym(width), Sym(ns), Sym(value),
                                       (Sym(lb), Sym(ub)), relative])
                except IRaise as exc:
                    reg.prove("%s.degenerate.no_exception.%s" % (PROP, tag), it.pc, False, function=fn,
                              replay=rp, describe=lambda m: {"raised": repr(exc.value)})
                    return
                pc = list(it.pc)
                inside = z3.And(lb <= c, c <= ub)
                goal = z3.BoolVal(False)
                if isinstance(v, SArr) and isinstance(w, SArr):
                    vn = v.n if not isinstance(v.n, int) else z3.IntVal(v.n)
                    wn = w.n if not isinstance(w.n, int) else z3.IntVal(w.n)
                    goal = z3.If(inside, z3.And(vn == 1, wn == 1, v.at(0) == c, w.at(0) == 1),
                                 z3.And(vn == 0, wn == 0))
                reg.prove("%s.degenerate.single_central_value.%s" % (PROP, tag), pc, goal, function=fn,
                          replay=rp, nl=True)
            it = Interp(reg)
            it.run_paths(body, max_paths=64)


def _replay(kind, relative):
    """Differential replay over the property's quantifier grid: the real
    get_weights against the documented grid/density evaluated in numpy."""
    def replay(model):
        import numpy as np
        from scipy.special import gammaln
        from sasmodels import weights
        bad = []
        n_cases = 0
        centres = [0.1, 1.0, 50.0, 1e4] if relative else [0.0, 30.0, -200.0, 350.0]
        widths = [1e-3, 0.035, 0.1, 0.5, 2.0] if relative else [0.5, 5.0, 30.0, 90.0]
        if model is not None:
            try:
                centres.insert(0, float(z3val(model, z3.Real("value"))))
                widths.insert(0, float(z3val(model, z3.Real("width"))))
            except Exception:
                pass
        for c0 in centres:
            for wd in widths:
                for npts in (1, 2, 3, 35, 80, 200):
                    for ns in (0.5, 3.0, 8.0):
                        for lims in ((-np.inf, np.inf), (0.0, np.inf), (c0 * 0.9 if relative else -10.0,
                                                                        c0 * 1.5 if relative else 20.0)):
                            if relative and c0 <= 0:
                                continue
                            n_cases += 1
                            try:
                                v, w = weights.get_weights(kind, npts, wd, ns, c0, lims, relative)
                            except Exception as exc:
                                bad.append({"args": (kind, npts, wd, ns, c0, lims, relative),
                                            "raised": repr(exc)})
                                continue
                            c = c0 if relative else 0.0
                            sg = wd * c0 if relative else wd
                            if sg == 0 or npts < 2:
                                ex_v = np.array([c]) if lims[0] <= c <= lims[1] else np.array([])
                                ex_w = np.ones_like(ex_v)
                            else:
                                span = sg if kind == "uniform" else ns * sg
                                x = c + np.linspace(-span, span, npts)
                                lo, hi = lims
                                if kind in ("lognormal", "schulz"):
                                    lo, hi = max(lo, 1e-8), max(hi, 1e-8)
                                x = x[(x >= lo) & (x <= hi)]
                                if kind == "rectangle":
                                    x = x[np.abs(x - c) <= abs(sg) * np.sqrt(3.0)]
                                with np.errstate(all="ignore"):
                                    if kind == "gaussian":
                                        lg = -(x - c) ** 2 / (2 * sg * sg)
                                    elif kind in ("uniform", "rectangle"):
                                        lg = np.zeros_like(x)
                                    elif kind == "boltzmann":
                                        lg = -np.abs(x - c) / sg
                                    elif kind == "lognormal":
                                        s = sg / c
                                        lg = -0.5 * ((np.log(x) - np.log(c)) / s) ** 2 - np.log(x * s)
                                    else:
                                        z = (c / sg) ** 2
                                        lg = z * np.log(z) + (z - 1) * np.log(x / c) - (x / c) * z - np.log(c) - gammaln(z)
                                    if len(lg):
                                        px = np.exp(lg - np.max(lg))
                                        ex_w = px / np.sum(px)
                                    else:
                                        ex_w = np.array([])
                                ex_v = x
                            ok = (len(v) == len(ex_v) and len(w) == len(ex_w)
                                  and np.allclose(v, ex_v, rtol=1e-12, atol=1e-300)
                                  and np.all(np.isfinite(w)) and np.allclose(w, ex_w, rtol=1e-8, atol=1e-300))
                            if not ok:
                                bad.append({"args": (kind, npts, wd, ns, c0, lims, relative),
                                            "real": (np.asarray(v)[:4].tolist(), np.asarray(w)[:4].tolist()),
                                            "spec": (ex_v[:4].tolist(), ex_w[:4].tolist())})
        return bool(bad), {"call": "weights.get_weights over the quantifier grid (%d cases)" % n_cases,
                           "mismatches": bad[:3], "n_mismatches": len(bad)}
    return replay
