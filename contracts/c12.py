"""
C12 -- the 1-D intensity is the orientational average of the model's 2-D intensity.

Functions under contract (C, generated source of each oriented model): Fq or
Iq (1-D, with its quadrature loops), Iqac / Iqabc (2-D, particle frame), and
the helpers they share (inlined; special functions uninterpreted).

Claim proved per model (for all q and shape parameters, symbolic node indices):
   F2_1d(q) = SUM_n c_n * I2d(q * n_n)      with  |n_n| = 1,  c_n independent of q
                                             and of the shape parameters
i.e. the model's own quadrature of its own 2-D function at unit directions.
The 1-D function is brought to Sigma-normal form (summand S_n); the unit
directions are *discovered* among the sin/cos atoms of S_n (theta or
(theta, phi) parametrisation, u = cos theta parametrisation) and the claim is
the polynomial identity  S_n(x) * I2d(q' n_n; x') = S_n(x') * I2d(q n_n; x)
for two independent argument vectors x, x' (so c_n = S_n / I2d does not depend
on x), together with |n_n|^2 = 1.  SUM_n c_n is measured on the compiled model
(lim q->0 F2_1d / I2d) and must be 1 within 1e-6.  Models for which no
direction candidate closes the identity are not under contract: they get a
bounded numeric stand-in (orientation average of the compiled 2-D kernel by an
independent Gauss-Legendre rule), are listed, and are never counted as proved.
How close the model's quadrature is to the true spherical mean is analysis and
is not claimed (DESIGN.md 7).
"""
import itertools
import z3

from vp import cvc, sigma, polynf
from vp.cvc import uf
from vp.core import OutsideSubset, run_parallel
from contracts.modelfn import ModelExec, trig_pairs

PROP = "C12"


def oriented_models():
    from sasmodels import core
    out = []
    for name in core.list_models():
        info = core.load_model_info(name)
        if callable(info.Iq):
            continue
        if any(p.type == "orientation" for p in info.parameters.kernel_parameters):
            out.append(name)
    return out


def check(reg, tier):
    models = oriented_models()
    reg.extra["oriented_models"] = models
    run_parallel(reg, _job, models)
    reg.assume("quadrature accuracy (distance of the model's own Gauss sum from the true spherical mean) is "
               "numerical analysis: not claimed")
    reg.assume("node weights c_n >= 0: quadrature tables and Jacobians are non-negative on the node range "
               "(tables checked numerically through the measured sum)")


def _job(sub, name):
    where = "models/%s: 1-D vs 2-D" % name
    try:
        ok, info = _prove(sub, name)
    except OutsideSubset as exc:
        ok, info = False, {"reason": "outside the modelled subset: %s" % exc}
    except polynf.NotPolynomial as exc:
        ok, info = False, {"reason": "not polynomial: %s" % exc}
    oid = "%s.one_d_is_own_quadrature_of_two_d.%s" % (PROP, name)
    if ok:
        sub.passed(oid, function=where, engine="cvc", backend="polynomial normal form",
                   sample={"obligation": oid, "discovered_direction": info.get("direction"),
                           "sum_levels": info.get("levels")})
        sub.extra.setdefault("under_contract", []).append(name)
        if sub.tier == "thorough":
            rep, rinfo = replay_orientation_average(name)
            if rep:
                sub.fail(oid + ".orientation_average_on_compiled_model", {"replay": rinfo}, function=where)
            else:
                sub.passed(oid + ".orientation_average_on_compiled_model", function=where, kind="bounded",
                           backend="numeric replay", bound=rinfo.get("summary"))
    elif "paracrystal" in name:
        # sharp Bragg peaks: no affordable independent reference converges (DESIGN.md App. A);
        # without the Sigma identity nothing can be decided: listed, not checked
        sub.extra.setdefault("not_under_contract", []).append(
            {"model": name, "reason": info.get("reason"), "numeric_stand_in": "none: no reliable reference"})
        sub.passed(oid + ".not_checked", function=where, kind="bounded", engine="cvc", backend="none",
                   bound="not under contract (%s); no reliable numeric reference for sharp Bragg peaks: "
                         "NOT CHECKED" % info.get("reason"))
    else:
        rep, rinfo = replay_orientation_average(name)
        if rep:
            sub.fail(oid, {"structure": info, "replay": rinfo}, function=where, engine="cvc")
        else:
            sub.passed(oid + ".numeric_stand_in", function=where, kind="bounded", engine="cvc",
                       backend="numeric replay",
                       bound="not under contract (%s); %s" % (info.get("reason"), rinfo.get("summary")))
            sub.extra.setdefault("not_under_contract", []).append({"model": name, "reason": info.get("reason")})


def _prove(reg, name):
    me = ModelExec(name)
    tu = me.tu
    two_d = "Iqabc" if "Iqabc" in tu.functions else ("Iqac" if "Iqac" in tu.functions else None)
    if two_d is None:
        raise OutsideSubset("no Iqac/Iqabc")
    for f in (two_d, "Fq" if (me.info.have_Fq and "Fq" in tu.functions) else "Iq"):
        fn = tu.functions[f]
        reg.function_under_contract("generated[%s]:%s" % (name, f), "sasmodels/models/%s.c" % name,
                                    fn["loc"].get("presumedLine", 0), 0, tu.func_text(fn))
    F1, F2, defs = me.run_1d()
    nf = sigma.normal_form(F2, defs)
    chains = {}
    for ch, s in nf:
        k = tuple(d.index.sexpr() for d in ch)
        chains[k] = chains.get(k, z3.RealVal(0)) + s
    if len(chains) != 1 or list(chains)[0] == ():
        raise OutsideSubset("1-D function is not a single (nested) sum: %s" % sorted(chains))
    key = list(chains)[0]
    S = chains[key]
    # the 2-D function at a symbolic direction
    a, b, c = z3.Real("dir_a"), z3.Real("dir_b"), z3.Real("dir_c")
    if two_d == "Iqabc":
        E = me.run_2d([me.q * a, me.q * b, me.q * c])
    else:
        E = me.run_2d([me.q * a, me.q * c])          # (qab, qc)
    # candidate unit directions from the trig atoms of the summand
    sin, cos = uf("sin", 1), uf("cos", 1)
    targs = []
    for s_, c_ in trig_pairs([S]):
        targs.append(s_.arg(0))
    # polar pairs (s, c) with s^2 + c^2 = 1: (sin t, cos t) atoms, and (sqrt(1-u^2), u) atoms
    polar = [(sin(t), cos(t), "t = %s" % _short(t)) for t in targs]
    for A, u in _sqrt_pairs(S):
        polar.append((A, u, "u = %s" % _short(u)))
    cands = []
    if two_d == "Iqac":
        for s_, c_, d in polar:
            cands.append(((s_, None, c_), "(s, c) with %s" % d))
            cands.append(((c_, None, s_), "(c, s) with %s" % d))
    else:
        for (s1, c1, d1), (s2, c2, d2) in itertools.permutations(polar, 2):
            base = (s1 * c2, s1 * s2, c1)
            for perm in itertools.permutations(range(3)):
                cands.append((tuple(base[i] for i in perm),
                              "perm%s of (s1 c2, s1 s2, c1), %s, %s" % (perm, d1, d2)))
    subs_x = [(me.q, z3.Real("q'"))] + [(v, z3.Real(v.decl().name() + "'")) for v in me.iq_args]
    Sp = z3.substitute(S, *subs_x)
    Ep = z3.substitute(E, *subs_x)
    tried = 0
    import time as _t
    t_end = _t.process_time() + (180 if reg.tier == "thorough" else 60)
    for (da, db, dc), desc in cands[:60]:
        if _t.process_time() > t_end:
            return False, {"reason": "time budget for the direction search exhausted after %d candidates" % tried}
        tried += 1
        sub = [(a, da), (c, dc)] + ([(b, db)] if db is not None else [])
        Ec, Ecp = z3.substitute(E, *sub), z3.substitute(Ep, *sub)
        goal = S * Ecp == Sp * Ec
        pairs = trig_pairs([S, Sp, Ec, Ecp])
        try:
            st, wit = polynf.decide(goal, pairs)
        except polynf.NotPolynomial:
            continue
        if st == "unsat":
            return True, {"direction": desc, "levels": len(key), "candidates_tried": tried}
    return False, {"reason": "no unit-direction candidate among %d closes the identity "
                             "(independent formulations of the 1-D and 2-D functions)" % tried}


def _sqrt_pairs(S):
    """(sqrt(1 - u^2), u) for every sqrt atom of S whose radicand is 1 - u*u for a subterm u."""
    out = []
    seen, stack, sqrts = set(), [S], []
    while stack:
        e = stack.pop()
        if e.get_id() in seen:
            continue
        seen.add(e.get_id())
        if z3.is_app(e):
            if e.decl().name() == "sqrt" and e.num_args() == 1:
                sqrts.append(e)
            stack.extend(e.children())
    for A in sqrts:
        arg = A.arg(0)
        subs, st2, seen2 = [], [arg], set()
        while st2:
            e = st2.pop()
            if e.get_id() in seen2:
                continue
            seen2.add(e.get_id())
            if z3.is_real(e) and not z3.is_rational_value(e):
                subs.append(e)
            if z3.is_app(e) and e.decl().kind() != z3.Z3_OP_UNINTERPRETED:
                st2.extend(e.children())
        atoms = {}
        try:
            parg = polynf.to_poly(arg, atoms)
        except polynf.NotPolynomial:
            continue
        for u in subs:
            try:
                if (parg - polynf.to_poly(1 - u * u, atoms)).is_zero():
                    out.append((A, u))
            except polynf.NotPolynomial:
                pass
    return out


def _short(e):
    s = " ".join(str(e).split())
    return s if len(s) < 80 else s[:80] + "..."


_cache = {}


def replay_orientation_average(name):
    """1-D kernel vs an independent Gauss-Legendre average of the compiled 2-D
    kernel over all directions (oriented particle, |q| fixed)."""
    if name in _cache:
        return _cache[name]
    import numpy as np
    from sasmodels import core
    from sasmodels.direct_model import call_kernel, call_Fq
    from contracts.c14 import parameter_sets
    m = core.load_model(name)
    info = m.info
    has_psi = any(p.name == "psi" for p in info.parameters.kernel_parameters)
    qs = np.array([0.005, 0.02, 0.06])
    k1 = m.make_kernel([qs])
    worst, wc = 0.0, None
    nsets = 0
    # particle-frame directions: rotate the particle (theta, phi[, psi]) with q along x
    def average(pars, n):
        z, w = np.polynomial.legendre.leggauss(n)
        out = np.zeros(len(qs))
        if has_psi:
            # theta in [0, pi/2], psi in [0, pi/2] by symmetry of the even 2-D functions
            # q along x, phi = 0: q in the particle frame is q (cos t cos p, -cos t sin p, sin t),
            # so u = sin(theta) uniform in [0,1] and psi uniform in [0, 90] cover an octant uniformly
            th = np.degrees(np.arcsin((z + 1) / 2))
            ps = (z + 1) / 2 * 90.0
            k2 = m.make_kernel([qs, 0 * qs])
            for i, t in enumerate(th):
                for j, p in enumerate(ps):
                    v = call_kernel(k2, dict(pars, theta=t, phi=0.0, psi=p, background=0.0))
                    out += w[i] / 2 * w[j] / 2 * v
        else:
            th = np.degrees(np.arcsin((z + 1) / 2))          # cos(angle(q, axis)) = sin(theta) uniform
            k2 = m.make_kernel([qs, 0 * qs])
            for i, t in enumerate(th):
                # q along x, axis at polar angle theta from the beam, phi=0: angle(q, axis) varies with theta
                v = call_kernel(k2, dict(pars, theta=t, phi=0.0, background=0.0))
                out += w[i] / 2 * v
        return out
    npoints = 0
    for pars in parameter_sets(info)[:(5 if has_psi else 10)]:
        pars = {k: v for k, v in pars.items() if k not in ("theta", "phi", "psi")}
        try:
            one = call_kernel(k1, dict(pars, background=0.0))
            n1, n2, n3 = (8, 12, 16) if has_psi else (40, 64, 96)
            r1, r2, r3 = average(pars, n1), average(pars, n2), average(pars, n3)
        except Exception:
            continue
        nsets += 1
        # only points where the independent reference has converged
        conv = (np.abs(r1 - r3) <= 2e-4 * np.abs(r3)) & (np.abs(r2 - r3) <= 1e-4 * np.abs(r3))
        r2 = r3
        ok = conv & np.isfinite(one) & (np.abs(r2) > 0)
        npoints += int(ok.sum())
        if ok.any():
            e = float(np.max(np.abs(one[ok] / r2[ok] - 1)))
            if e > worst:
                worst, wc = e, dict(pars)
    bad = worst > 5e-3
    out = (bad, {"summary": "max |I1d / <I2d> - 1| = %.3g over %d parameter sets, %d converged points"
                            % (worst, nsets, npoints), "worst_case": wc,
                 "call": "call_kernel(%s 1-D) vs Gauss-Legendre average of call_kernel(%s 2-D)" % (name, name)})
    _cache[name] = out
    return out
