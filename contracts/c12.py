"""
C12 -- the 1-D intensity is the orientational average of the model's 2-D intensity.

Functions under contract (C, generated source of each oriented model): Fq or
Iq (1-D, with its quadrature loops), Iqac / Iqabc (2-D, particle frame), and
the helpers they share (inlined; special functions uninterpreted).

Claim proved per model (for all q and shape parameters, symbolic node indices):
   F2_1d(q) = SUM_n c_n * I2d(q * n_n)      with  |n_n| = 1,  c_n independent of q
                                             and of the shape parameters
i.e. the model's own quadrature of its own 2-D function at unit directions.
The 1-D function is brought to Sigma-normal form (summand S_n); the unit
directions are *discovered* among the sin/cos atoms of S_n (theta or
(theta, phi) parametrisation, u = cos theta parametrisation) and the claim is
the polynomial identity  S_n(x) * I2d(q' n_n; x') = S_n(x') * I2d(q n_n; x)
for two independent argument vectors x, x' (so c_n = S_n / I2d does not depend
on x), together with |n_n|^2 = 1.  SUM_n c_n = 1 and c_n >= 0 are then ground
facts: c_n is evaluated over every node of the quadrature tables read from the
generated source (node_weight_sum).  Models for which no
direction candidate closes the identity are not under contract: they get a
bounded numeric stand-in (orientation average of the compiled 2-D kernel by an
independent Gauss-Legendre rule), are listed, and are never counted as proved.
How close the model's quadrature is to the true spherical mean is analysis and
is not claimed (DESIGN.md 7).
"""
import itertools
import z3

from vp import cvc, sigma, polynf
from vp.cvc import uf
from vp.core import OutsideSubset, run_parallel
from contracts.modelfn import ModelExec, trig_pairs

PROP = "C12"


def oriented_models():
    from sasmodels import core
    out = []
    for name in core.list_models():
        info = core.load_model_info(name)
        if callable(info.Iq):
            continue
        if any(p.type == "orientation" for p in info.parameters.kernel_parameters):
            out.append(name)
    return out


def check(reg, tier):
    models = oriented_models()
    reg.extra["oriented_models"] = models
    run_parallel(reg, _job, models)
    reg.assume("quadrature accuracy (distance of the model's own Gauss sum from the true spherical mean) is "
               "numerical analysis: not claimed")
    reg.assume("node weights: SUM_n c_n = 1 and c_n >= 0 are evaluated in float64 over all nodes of the tables in the "
               "generated source (machine arithmetic treated as mathematical, tolerance 1e-6)")


def _job(sub, name):
    where = "models/%s: 1-D vs 2-D" % name
    try:
        ok, info = _prove(sub, name)
    except OutsideSubset as exc:
        ok, info = False, {"reason": "outside the modelled subset: %s" % exc}
    except polynf.NotPolynomial as exc:
        ok, info = False, {"reason": "not polynomial: %s" % exc}
    oid = "%s.one_d_is_own_quadrature_of_two_d.%s" % (PROP, name)
    if ok:
        sub.passed(oid, function=where, engine="cvc", backend="polynomial normal form",
                   sample={"obligation": oid, "discovered_direction": info.get("direction"),
                           "sum_levels": info.get("levels")})
        sub.extra.setdefault("under_contract", []).append(name)
        _weights_obligations(sub, name, where, info.get("weight_sum"))
        if sub.tier == "thorough":
            rep, rinfo = replay_orientation_average(name)
            if rep:
                sub.fail(oid + ".orientation_average_on_compiled_model", {"replay": rinfo}, function=where)
            else:
                sub.passed(oid + ".orientation_average_on_compiled_model", function=where, kind="bounded",
                           backend="numeric replay", bound=rinfo.get("summary"))
    elif name in RESTRICTED and _restricted_job(sub, name, where, oid, info):
        pass
    elif "paracrystal" in name:
        # sharp Bragg peaks: no affordable independent reference converges (DESIGN.md App. A);
        # without the Sigma identity nothing can be decided: listed, not checked
        sub.extra.setdefault("not_under_contract", []).append(
            {"model": name, "reason": info.get("reason"), "numeric_stand_in": "none: no reliable reference"})
        sub.passed(oid + ".not_checked", function=where, kind="bounded", engine="cvc", backend="none",
                   bound="not under contract (%s); no reliable numeric reference for sharp Bragg peaks: "
                         "NOT CHECKED" % info.get("reason"))
    else:
        rep, rinfo = replay_orientation_average(name, hunt=True)
        if rep:
            sub.fail(oid, {"structure": info, "replay": rinfo}, function=where, engine="cvc")
        else:
            sub.passed(oid + ".numeric_stand_in", function=where, kind="bounded", engine="cvc",
                       backend="numeric replay",
                       bound="not under contract (%s); %s" % (info.get("reason"), rinfo.get("summary")))
            sub.extra.setdefault("not_under_contract", []).append({"model": name, "reason": info.get("reason")})


# Models with a recorded finding on the full claim: the sub-family of parameter sets on which the finding does not
# apply is claimed separately, so that any other deviation of the same model is still reported.
RESTRICTED = {
    "core_shell_bicelle_elliptical": ("circular_cross_section", {"x_core": 1}),
    "core_shell_bicelle_elliptical_belt_rough": ("circular_cross_section", {"x_core": 1}),
}


def _restricted_job(sub, name, where, oid, info_full):
    """The full identity did not close (recorded finding): report it against the compiled model as before, and decide
    the restricted claim.  Returns True when everything was reported here."""
    label, fixed = RESTRICTED[name]
    rep, rinfo = replay_orientation_average(name, hunt=True)
    if rep:
        sub.fail(oid, {"structure": info_full, "replay": rinfo}, function=where, engine="cvc")
    else:
        sub.passed(oid + ".numeric_stand_in", function=where, kind="bounded", engine="cvc", backend="numeric replay",
                   bound="not under contract (%s); %s" % (info_full.get("reason"), rinfo.get("summary")))
    roid = "%s.%s" % (oid, label)
    try:
        ok, info = _prove(sub, name, restrict=fixed)
    except (OutsideSubset, polynf.NotPolynomial) as exc:
        ok, info = False, {"reason": str(exc)}
    if ok:
        sub.passed(roid, function=where, engine="cvc", backend="polynomial normal form",
                   sample={"obligation": roid, "restricted_to": fixed, "discovered_direction": info.get("direction")})
        _weights_obligations(sub, name + "." + label, where, info.get("weight_sum"), replay_fixed=(name, fixed))
        return True
    rep2, rinfo2 = replay_orientation_average(name, fixed=fixed, hunt=True)
    if rep2:
        sub.fail(roid, {"restricted_to": fixed, "structure": info, "replay": rinfo2}, function=where, engine="cvc")
    else:
        sub.undecided(roid, "identity for %s did not close (%s) and the compiled model agrees with the orientation "
                            "average on the sampled sets (%s)" % (fixed, info.get("reason"), rinfo2.get("summary")),
                      function=where, engine="cvc")
    return True


def _weights_obligations(sub, name, where, wsum, replay_fixed=None):
    """With the identity proved, F2_1d(q) = SUM_n c_n I2d(q n_n) is an average iff the node weights are
    non-negative and sum to one: both are ground facts about the quadrature tables of the generated source and the
    Jacobian factors of the 1-D function, evaluated over all nodes (float64; 1e-6 allows for the quadrature error of
    the constant function, which is ~1e-15 for the 76-point rule)."""
    o_sum = "%s.node_weights_sum_to_one.%s" % (PROP, name)
    o_pos = "%s.node_weights_are_non_negative.%s" % (PROP, name)
    if wsum is None:
        sub.undecided(o_sum, "the node weights could not be evaluated over the tables", function=where, engine="cvc")
        return
    total, winfo = wsum
    backend = "ground evaluation over the quadrature tables (float64)"
    for oid, ok, what in ((o_sum, abs(total - 1.0) <= 1e-6, "SUM_n c_n = %.15g" % total),
                          (o_pos, winfo["min_weight"] >= -1e-12, "min_n c_n = %.3g" % winfo["min_weight"])):
        if ok:
            sub.passed(oid, function=where, engine="cvc", backend=backend,
                       sample={"obligation": oid, "value": what, "nodes": winfo["nodes"]})
            continue
        rep, rinfo = replay_orientation_average(*replay_fixed) if replay_fixed else replay_orientation_average(name)
        if rep:
            sub.fail(oid, {"node_weights": what, "nodes": winfo["nodes"], "replay": rinfo}, function=where,
                     engine="cvc")
        else:
            sub.undecided(oid, "%s over %s nodes, but the compiled model agrees with an independent orientation "
                               "average (%s)" % (what, winfo["nodes"], rinfo.get("summary")),
                          function=where, engine="cvc")


def _callees(tu, fname):
    out = set()
    for n in cvc._walk(tu.functions[fname]):
        if n.get("kind") == "CallExpr":
            for d in cvc._walk(n["inner"][0]):
                ref = d.get("referencedDecl") or {}
                if d.get("kind") == "DeclRefExpr" and ref.get("kind") == "FunctionDecl":
                    out.add(ref.get("name"))
    return out


def _reach(tu, entry):
    seen, stack = set(), [entry]
    while stack:
        f = stack.pop()
        if f in seen or f not in tu.functions:
            continue
        seen.add(f)
        stack.extend(_callees(tu, f))
    return seen


def _has_loop(tu, fname):
    return any(n.get("kind") in ("ForStmt", "WhileStmt", "DoStmt") for n in cvc._walk(tu.functions[fname]))


_LIBM = {"sin", "cos", "tan", "exp", "log", "sqrt", "pow", "fabs", "cbrt", "expm1", "log1p", "atan", "atan2", "asin",
         "acos", "sinh", "cosh", "tanh", "erf", "erfc", "tgamma", "lgamma", "floor", "ceil", "trunc", "fmin", "fmax",
         "fmod", "hypot", "log10", "exp2", "log2", "round", "copysign", "isnan", "isinf"}


def _reads_only_arguments(tu, fname, lib):
    """Frame condition of a helper taken by its contract 'the result is a function of the arguments': the body names
    only its parameters, its locals, const-qualified globals (quadrature tables) and functions with the same
    property."""
    fn = tu.functions[fname]
    local = set()
    for n in cvc._walk(fn):
        if n.get("kind") in ("ParmVarDecl", "VarDecl"):
            local.add(n.get("id"))
    for n in cvc._walk(fn):
        if n.get("kind") != "DeclRefExpr":
            continue
        ref = n.get("referencedDecl") or {}
        if ref.get("kind") in ("ParmVarDecl", "EnumConstantDecl"):
            continue
        if ref.get("kind") == "VarDecl":
            if ref.get("id") in local:
                continue
            qt = (ref.get("type") or {}).get("qualType", "")
            if "const" not in qt.split():
                return False
        elif ref.get("kind") == "FunctionDecl":
            g = ref.get("name")
            if g in lib or g == fname or g.startswith("__tg_") or g.startswith("__builtin_") or g not in tu.functions \
                    and g in _LIBM:
                continue
            if g not in tu.functions or not _reads_only_arguments(tu, g, lib):
                return False
        else:
            return False
    return True


def shared_quadrature_helpers(tu, one_d, two_d, lib):
    """Model-local functions with loops that both the 1-D and the 2-D function reach: the two callers are checked
    against the helper's contract (a function of its arguments), not its body."""
    r1, r2 = _reach(tu, one_d), _reach(tu, two_d)
    out = []
    for f in sorted((r1 & r2) - {one_d, two_d} - set(lib)):
        if _has_loop(tu, f) and _reads_only_arguments(tu, f, lib):
            out.append(f)
    # helpers only called from inside another shared helper need no summary of their own
    inner = set()
    for f in out:
        inner |= (_reach(tu, f) - {f})
    return [f for f in out if f not in inner]


def pure_loop_helpers(tu, entry, lib):
    """Outermost model-local functions with loops below `entry` whose frame is 'reads only its arguments'."""
    out = [f for f in sorted(_reach(tu, entry) - {entry} - set(lib))
           if _has_loop(tu, f) and _reads_only_arguments(tu, f, lib)]
    inner = set()
    for f in out:
        inner |= (_reach(tu, f) - {f})
    return [f for f in out if f not in inner]


def _prove(reg, name, restrict=None):
    """restrict: {parameter id: value} - the claim for the sub-family of parameter sets with those values fixed."""
    me = ModelExec(name)
    tu = me.tu
    two_d = "Iqabc" if "Iqabc" in tu.functions else ("Iqac" if "Iqac" in tu.functions else None)
    if two_d is None:
        raise OutsideSubset("no Iqac/Iqabc")
    one_d = "Fq" if (me.info.have_Fq and "Fq" in tu.functions) else "Iq"
    from contracts.modelfn import lib_functions
    helpers = shared_quadrature_helpers(tu, one_d, two_d, lib_functions(tu))
    me.extra_uninterpreted = set(helpers)
    for f in (two_d, one_d):
        fn = tu.functions[f]
        reg.function_under_contract("generated[%s]:%s" % (name, f), "sasmodels/models/%s.c" % name,
                                    fn["loc"].get("presumedLine", 0), 0, tu.func_text(fn))
    for f in helpers:
        reg.assume("models/%s: helper %s (inner quadrature shared by the 1-D and the 2-D function) enters both callers "
                   "through its contract 'the result is a function of the arguments'; frame checked on the AST "
                   "(reads only parameters, locals, const tables), body not interpreted" % (name, f))
    F1, F2, defs = me.run_1d()
    nf = sigma.normal_form(F2, defs)
    chains = {}
    chain_defs = []
    for ch, s in nf:
        k = tuple(d.index.sexpr() for d in ch)
        chains[k] = chains.get(k, z3.RealVal(0)) + s
        chain_defs = ch
    if len(chains) != 1 or list(chains)[0] == ():
        raise OutsideSubset("1-D function is not a single (nested) sum: %s" % sorted(chains))
    key = list(chains)[0]
    # the normal form names quotients by inverse constants; written back as divisions so that the
    # substitution x -> x' below reaches the parameters inside them
    S = polynf.expand_inverses(chains[key])
    # the 2-D function at a symbolic direction
    a, b, c = z3.Real("dir_a"), z3.Real("dir_b"), z3.Real("dir_c")
    if two_d == "Iqabc":
        E = me.run_2d([me.q * a, me.q * b, me.q * c])
    else:
        E = me.run_2d([me.q * a, me.q * c])          # (qab, qc)
    if restrict:
        fix = [(me.pars[k], z3.RealVal(str(v))) for k, v in restrict.items()]
        S, E = z3.substitute(S, *fix), z3.substitute(E, *fix)
    # candidate unit directions from the trig atoms of the summand
    sin, cos = uf("sin", 1), uf("cos", 1)
    targs = []
    for s_, c_ in trig_pairs([S]):
        targs.append(s_.arg(0))
    # polar pairs (s, c) with s^2 + c^2 = 1: (sin t, cos t) atoms, and (sqrt(1-u^2), u) atoms
    polar = [(sin(t), cos(t), "t = %s" % _short(t)) for t in targs]
    have = set()
    for A, u in _sqrt_pairs(S):
        polar.append((A, u, "u = %s" % _short(u)))
        have.add(u.sexpr())
    # u = cos(theta) parametrisation without a sin(theta) in the 1-D code (ellipsoids): every affine function of a
    # Gauss node that occurs in the summand is offered as u, with sqrt(1 - u^2) as its partner
    sqrt_ = uf("sqrt", 1)
    angle_polys = set()
    for t in targs:
        try:
            angle_polys.add(repr(sorted(polynf.to_poly(t, {}).t.items())))
        except polynf.NotPolynomial:
            pass
    for u in _affine_node_terms(S):
        try:
            if repr(sorted(polynf.to_poly(u, {}).t.items())) in angle_polys:
                continue            # the angle itself, not a cosine
        except polynf.NotPolynomial:
            continue
        if u.sexpr() not in have:
            polar.append((sqrt_(1 - u * u), u, "u = %s (no sin in the 1-D code)" % _short(u)))
    # half angle: the 1-D code integrates over t = 2 phi (cos t = cos^2 phi - sin^2 phi, sin t = 2 sin phi cos phi)
    half = []
    for t in targs:
        h = t / 2
        half.append((t, sin(h), cos(h), "phi = (%s)/2" % _short(t)))
    cands = []
    if two_d == "Iqac":
        for s_, c_, d in polar:
            cands.append(((s_, None, c_), "(s, c) with %s" % d, None))
            cands.append(((c_, None, s_), "(c, s) with %s" % d, None))
    else:
        for (s1, c1, d1), (s2, c2, d2) in itertools.permutations(polar, 2):
            base = (s1 * c2, s1 * s2, c1)
            for perm in itertools.permutations(range(3)):
                cands.append((tuple(base[i] for i in perm),
                              "perm%s of (s1 c2, s1 s2, c1), %s, %s" % (perm, d1, d2), None))
        for (s1, c1, d1) in polar:
            for (t, sh, ch, d2) in half:
                if any(t.sexpr() == x.sexpr() for x in (s1.arg(0),) if s1.decl().name() == "sin"):
                    continue
                base = (s1 * ch, s1 * sh, c1)
                for perm in itertools.permutations(range(3)):
                    cands.append((tuple(base[i] for i in perm),
                                  "perm%s of (s1 c2, s1 s2, c1), %s, %s" % (perm, d1, d2), (t, sh, ch)))
    subs_x = [(me.q, z3.Real("q'"))] + [(v, z3.Real(v.decl().name() + "'")) for v in me.iq_args]
    Sp = z3.substitute(S, *subs_x)
    Ep = z3.substitute(E, *subs_x)
    # sqrt(v^2 P) = v sqrt(P) is used for q and for the parameters whose lower limit is >= 0
    nonneg = {"q", "q'"}
    for par in me.info.parameters.iq_parameters:
        if par.limits[0] >= 0:
            nonneg |= {par.id, par.id + "'"}
    tried = skipped = 0
    names = [v.decl().name() for v in [me.q] + me.iq_args] + [v.decl().name() + "'" for v in [me.q] + me.iq_args] \
        + ["i!sigma!%d" % i for i in range(1, 12)]
    import time as _t
    t_end = _t.process_time() + (300 if reg.tier == "thorough" else 180)
    for (da, db, dc), desc, dbl in cands[:120]:
        if _t.process_time() > t_end:
            return False, {"reason": "time budget for the direction search exhausted after %d candidates" % tried}
        tried += 1
        sub = [(a, da), (c, dc)] + ([(b, db)] if db is not None else [])
        Ec, Ecp = z3.substitute(E, *sub), z3.substitute(Ep, *sub)
        Sc, Scp = S, Sp
        if dbl is not None:
            t, sh, ch = dbl
            dsub = [(sin(t), 2 * sh * ch), (cos(t), ch * ch - sh * sh)]
            Sc, Scp = z3.substitute(S, *dsub), z3.substitute(Sp, *dsub)
        goal = Sc * Ecp == Scp * Ec
        if _numerically_different(Sc * Ecp, Scp * Ec, names):
            skipped += 1
            continue
        pairs = trig_pairs([Sc, Scp, Ec, Ecp])
        try:
            st, wit = polynf.decide(goal, pairs, nonneg=nonneg)
        except polynf.NotPolynomial:
            continue
        if st == "unsat":
            wsum = None
            try:
                wsum = node_weight_sum(me, Sc, Ec, chain_defs)
            except _NoEval:
                pass
            return True, {"weight_sum": wsum, "direction": desc, "levels": len(key), "candidates_tried": tried, "helpers_by_contract": helpers,
                          "candidates_discarded_numerically": skipped}
    return False, {"reason": "no unit-direction candidate among %d closes the identity "
                             "(independent formulations of the 1-D and 2-D functions)" % (tried + skipped)}


class _NoEval(Exception):
    pass


def _numeric(term, env, memo):
    """Floating-point value of a z3 real term: constants from env (default: a value derived from the name),
    sqrt/sin/cos with their meaning, every other uninterpreted function replaced by a fixed smooth function of its
    arguments.  Used only to discard direction candidates cheaply; nothing is concluded from it."""
    import math
    import zlib
    k = term.get_id()
    if k in memo:
        return memo[k]
    if z3.is_rational_value(term) or z3.is_int_value(term):
        v = float(term.numerator_as_long()) / float(term.denominator_as_long()) if z3.is_rational_value(term) \
            else float(term.as_long())
    elif z3.is_app(term):
        kind = term.decl().kind()
        name = term.decl().name()
        ch = [_numeric(x, env, memo) for x in term.children()] if kind != z3.Z3_OP_ITE else None
        if kind == z3.Z3_OP_ADD:
            v = sum(ch)
        elif kind == z3.Z3_OP_SUB:
            v = ch[0] - sum(ch[1:])
        elif kind == z3.Z3_OP_UMINUS:
            v = -ch[0]
        elif kind == z3.Z3_OP_MUL:
            v = 1.0
            for x in ch:
                v *= x
        elif kind == z3.Z3_OP_DIV:
            if ch[1] == 0:
                raise _NoEval()
            v = ch[0] / ch[1]
        elif kind == z3.Z3_OP_POWER:
            v = ch[0] ** ch[1]
        elif kind == z3.Z3_OP_TO_REAL:
            v = ch[0]
        elif kind == z3.Z3_OP_UNINTERPRETED:
            h = (zlib.crc32(name.encode()) % 1000) / 1000.0
            if term.num_args() == 0:
                v = env.get(name)
                if v is None:
                    v = 0.5 + h
            elif name == "sqrt":
                if ch[0] < 0:
                    raise _NoEval()
                v = math.sqrt(ch[0])
            elif name == "sin":
                v = math.sin(ch[0])
            elif name == "cos":
                v = math.cos(ch[0])
            elif name.startswith("table!"):
                # nodes in (-1, 1), weights positive: a fixed function of the index value
                x = math.sin(12.9898 * ch[0] + 78.233 * h)
                v = 0.9 * x if name.endswith("Z") else 0.2 + 0.5 * abs(x)
            else:
                v = math.sin(0.7 * h + sum((0.37 + 0.11 * i) * x for i, x in enumerate(ch))) + 1.3 + h
        else:
            raise _NoEval()
    else:
        raise _NoEval()
    if isinstance(v, complex) or v != v or abs(v) > 1e200:
        raise _NoEval()
    memo[k] = v
    return v


def _numeric_np(term, env, tables, memo):
    """numpy version of _numeric for the node weights c_n = S_n / I2d(q n_n): index constants are integer arrays,
    table!X(i) is looked up in the quadrature tables read from the generated source, libm functions have their
    meaning; model special functions (which cancel in c_n by the proved identity) are fixed smooth functions."""
    import numpy as np
    import zlib
    k = term.get_id()
    if k in memo:
        return memo[k]
    if z3.is_rational_value(term):
        v = float(term.numerator_as_long()) / float(term.denominator_as_long())
    elif z3.is_int_value(term):
        v = float(term.as_long())
    elif z3.is_true(term) or z3.is_false(term):
        return z3.is_true(term)
    elif z3.is_app(term):
        kind = term.decl().kind()
        name = term.decl().name()
        ch = [_numeric_np(x, env, tables, memo) for x in term.children()]
        cmp_ = {z3.Z3_OP_GE: np.greater_equal, z3.Z3_OP_LE: np.less_equal, z3.Z3_OP_GT: np.greater,
                z3.Z3_OP_LT: np.less, z3.Z3_OP_EQ: np.equal}
        if kind == z3.Z3_OP_ITE:
            v = np.where(ch[0], ch[1], ch[2])
        elif kind in cmp_:
            memo[k] = cmp_[kind](ch[0], ch[1])
            return memo[k]
        elif kind == z3.Z3_OP_NOT:
            memo[k] = np.logical_not(ch[0])
            return memo[k]
        elif kind in (z3.Z3_OP_AND, z3.Z3_OP_OR):
            f = np.logical_and if kind == z3.Z3_OP_AND else np.logical_or
            v = ch[0]
            for x in ch[1:]:
                v = f(v, x)
            memo[k] = v
            return v
        elif kind == z3.Z3_OP_TO_INT:
            v = np.floor(ch[0])
        elif kind == z3.Z3_OP_ADD:
            v = ch[0]
            for x in ch[1:]:
                v = v + x
        elif kind == z3.Z3_OP_SUB:
            v = ch[0]
            for x in ch[1:]:
                v = v - x
        elif kind == z3.Z3_OP_UMINUS:
            v = -ch[0]
        elif kind == z3.Z3_OP_MUL:
            v = ch[0]
            for x in ch[1:]:
                v = v * x
        elif kind == z3.Z3_OP_DIV:
            if np.any(np.asarray(ch[1]) == 0):
                raise _NoEval()
            v = ch[0] / ch[1]
        elif kind == z3.Z3_OP_POWER:
            v = ch[0] ** ch[1]
        elif kind == z3.Z3_OP_TO_REAL:
            v = ch[0]
        elif kind == z3.Z3_OP_UNINTERPRETED:
            h = (zlib.crc32(name.encode()) % 1000) / 1000.0
            if term.num_args() == 0:
                if name not in env:
                    raise _NoEval()
                v = env[name]
            elif name.startswith("table!"):
                tab = tables.get(name[len("table!"):])
                if tab is None:
                    raise _NoEval()
                idx = np.asarray(ch[0]).astype(int)
                if np.any(idx < 0) or np.any(idx >= len(tab)):
                    raise _NoEval()
                v = tab[idx]
            elif name in _NP_FUNCS:
                with np.errstate(all="ignore"):
                    v = getattr(np, _NP_FUNCS[name])(*ch)
            else:
                tot = 0.7 * h
                for i, x in enumerate(ch):
                    tot = tot + (0.37 + 0.11 * i) * x
                v = np.sin(tot) + 1.3 + h
        else:
            raise _NoEval()
    else:
        raise _NoEval()
    if not np.all(np.isfinite(v)):
        raise _NoEval()
    memo[k] = v
    return v


_NP_FUNCS = {"sqrt": "sqrt", "sin": "sin", "cos": "cos", "tan": "tan", "exp": "exp", "log": "log", "fabs": "abs",
             "cbrt": "cbrt", "atan": "arctan", "asin": "arcsin", "acos": "arccos", "pow": "power", "expm1": "expm1",
             "log1p": "log1p", "sinh": "sinh", "cosh": "cosh", "tanh": "tanh", "atan2": "arctan2"}


def quadrature_tables(me):
    """name -> numpy array for every const table of more than 16 entries in the generated source."""
    import numpy as np
    from fractions import Fraction
    out = {}
    ex = me.new_ex()
    st = cvc.State()
    for name, d in me.tu.globals.items():
        init = [x for x in d.get("inner", []) if x.get("kind") == "InitListExpr"]
        if not init or len(init[0].get("inner", [])) <= 16:
            continue
        vals = []
        try:
            for x in init[0]["inner"]:
                v = z3.simplify(ex.rvalue(x, st))
                vals.append(float(Fraction(v.numerator_as_long(), v.denominator_as_long()))
                            if z3.is_rational_value(v) else float(v.as_long()))
        except Exception:
            continue
        out[name] = np.array(vals)
    return out


def node_weight_sum(me, Sc, Ec, chain):
    """SUM over all node tuples of c_n = S_n / I2d(q n_n) (independent of q and of the parameters by the proved
    identity, so evaluated at one generic argument vector)."""
    import numpy as np
    import random
    tables = quadrature_tables(me)
    Sc, Ec = polynf.expand_inverses(Sc), polynf.expand_inverses(Ec)
    # one generic, valid argument vector: the model's default parameter values (slightly detuned) and q = 0.05
    # (the first of: defaults, nine detuned copies that evaluates - validity regions differ between models)
    rng = random.Random(7)
    last = None
    for attempt in range(10):
        env = {"q": 0.05}
        for par in me.info.parameters.iq_parameters:
            f = 1.0 if attempt == 0 else rng.uniform(0.9, 1.1)
            env[par.id] = float(par.default) * f if par.default else (0.0 if attempt == 0 else rng.uniform(0.6, 1.4))
        try:
            return _node_weight_sum_at(me, Sc, Ec, chain, tables, env)
        except _NoEval as exc:
            last = exc
    raise last


def _node_weight_sum_at(me, Sc, Ec, chain, tables, env):
    import numpy as np
    shape = []
    for d in chain:
        lo, n = z3.simplify(d.bound[0]), z3.simplify(d.bound[1])
        if not (z3.is_int_value(lo) and z3.is_int_value(n)):
            raise _NoEval()
        shape.append((d.index.decl().name(), lo.as_long(), n.as_long()))
    grids = np.meshgrid(*[np.arange(lo, n) for _, lo, n in shape], indexing="ij")
    for (nm, _, _), g in zip(shape, grids):
        env[nm] = g
    memo = {}
    s = _numeric_np(Sc, env, tables, memo)
    e = _numeric_np(Ec, env, tables, memo)
    if np.any(np.asarray(e) == 0):
        raise _NoEval()
    c = np.broadcast_to(np.asarray(s / e, dtype=float), grids[0].shape)
    return float(c.sum()), {"nodes": [n - lo for _, lo, n in shape], "min_weight": float(c.min()),
                            "tables": sorted(t for t in tables)}


def _numerically_different(lhs, rhs, names):
    """True when lhs and rhs evaluate to clearly different numbers at two sample points (then the candidate cannot
    be an identity); False when they agree or cannot be evaluated."""
    import random
    rng = random.Random(20240607)
    for _ in range(2):
        env = {n: rng.uniform(0.3, 1.7) for n in names}
        try:
            memo = {}
            a, b = _numeric(lhs, env, memo), _numeric(rhs, env, memo)
        except (_NoEval, OverflowError, ValueError, ZeroDivisionError):
            return False
        if abs(a - b) > 1e-7 * max(abs(a), abs(b), 1e-300):
            return True
    return False


def _affine_node_terms(S):
    """Subterms of S that are a non-constant affine function of one quadrature node table!...Z(i)."""
    out, seen, stack = {}, set(), [S]
    while stack:
        e = stack.pop()
        if e.get_id() in seen:
            continue
        seen.add(e.get_id())
        if not z3.is_app(e):
            continue
        stack.extend(e.children())
        if not z3.is_real(e) or e.decl().kind() not in (z3.Z3_OP_ADD, z3.Z3_OP_MUL, z3.Z3_OP_SUB, z3.Z3_OP_DIV):
            continue
        atoms = {}
        try:
            p = polynf.to_poly(e, atoms)
        except polynf.NotPolynomial:
            continue
        vars_ = {v for m in p.t for v, _ in m}
        if len(vars_) != 1 or any(sum(x for _, x in m) > 1 for m in p.t) or () not in p.t:
            continue
        (k, (i, t)), = [(k, it) for k, it in atoms.items() if it[0] in vars_]
        if z3.is_app(t) and t.decl().name().startswith("table!") and t.decl().name().endswith("Z"):
            out[repr(sorted((m, str(cf)) for m, cf in p.t.items())) + k] = e
    return list(out.values())


def _sqrt_pairs(S):
    """(sqrt(1 - u^2), u) for every sqrt atom of S whose radicand is 1 - u*u for a subterm u."""
    out = []
    seen, stack, sqrts = set(), [S], []
    while stack:
        e = stack.pop()
        if e.get_id() in seen:
            continue
        seen.add(e.get_id())
        if z3.is_app(e):
            if e.decl().name() == "sqrt" and e.num_args() == 1:
                sqrts.append(e)
            stack.extend(e.children())
    for A in sqrts:
        arg = A.arg(0)
        subs, st2, seen2 = [], [arg], set()
        while st2:
            e = st2.pop()
            if e.get_id() in seen2:
                continue
            seen2.add(e.get_id())
            if z3.is_real(e) and not z3.is_rational_value(e):
                subs.append(e)
            if z3.is_app(e) and e.decl().kind() != z3.Z3_OP_UNINTERPRETED:
                st2.extend(e.children())
        atoms = {}
        try:
            parg = polynf.to_poly(arg, atoms)
        except polynf.NotPolynomial:
            continue
        for u in subs:
            try:
                if (parg - polynf.to_poly(1 - u * u, atoms)).is_zero():
                    out.append((A, u))
            except polynf.NotPolynomial:
                pass
    return out


def _short(e):
    s = " ".join(str(e).split())
    return s if len(s) < 80 else s[:80] + "..."


_cache = {}


def replay_orientation_average(name, fixed=None, hunt=False):
    """1-D kernel vs an independent Gauss-Legendre average of the compiled 2-D
    kernel over all directions (oriented particle, |q| fixed).  fixed: parameter values forced in every set.
    hunt: the identity did not close and a failing input is wanted - the sets are extended by copies with the
    zero-default parameters switched on and with every shape parameter scaled by 1.6 (non-integer counts)."""
    ckey = (name, repr(sorted((fixed or {}).items())), hunt)
    if ckey in _cache:
        return _cache[ckey]
    import numpy as np
    from sasmodels import core
    from sasmodels.direct_model import call_kernel, call_Fq
    from contracts.c14 import parameter_sets
    m = core.load_model(name)
    info = m.info
    has_psi = any(p.name == "psi" for p in info.parameters.kernel_parameters)
    qs = np.array([0.005, 0.02, 0.06])
    k1 = m.make_kernel([qs])
    worst, wc = 0.0, None
    nsets = 0
    # particle-frame directions: rotate the particle (theta, phi[, psi]) with q along x
    def average(pars, n):
        z, w = np.polynomial.legendre.leggauss(n)
        out = np.zeros(len(qs))
        if has_psi:
            # theta in [0, pi/2], psi in [0, pi/2] by symmetry of the even 2-D functions
            # q along x, phi = 0: q in the particle frame is q (cos t cos p, -cos t sin p, sin t),
            # so u = sin(theta) uniform in [0,1] and psi uniform in [0, 90] cover an octant uniformly
            th = np.degrees(np.arcsin((z + 1) / 2))
            ps = (z + 1) / 2 * 90.0
            k2 = m.make_kernel([qs, 0 * qs])
            for i, t in enumerate(th):
                for j, p in enumerate(ps):
                    v = call_kernel(k2, dict(pars, theta=t, phi=0.0, psi=p, background=0.0))
                    out += w[i] / 2 * w[j] / 2 * v
        else:
            th = np.degrees(np.arcsin((z + 1) / 2))          # cos(angle(q, axis)) = sin(theta) uniform
            k2 = m.make_kernel([qs, 0 * qs])
            for i, t in enumerate(th):
                # q along x, axis at polar angle theta from the beam, phi=0: angle(q, axis) varies with theta
                v = call_kernel(k2, dict(pars, theta=t, phi=0.0, background=0.0))
                out += w[i] / 2 * v
        return out
    npoints = 0
    sets = parameter_sets(info)[:(5 if has_psi else 10)]
    if hunt:
        shape = [p for p in info.parameters.iq_parameters if p.type != "orientation" and p.type != "sld"
                 and not p.choices and p.length == 1]
        zero_on = {p.id: (0.1 * p.limits[1] if abs(p.limits[1]) < 1e3 else 10.0) for p in shape if p.default == 0}
        extra = []
        for s in sets[:3]:
            extra.append(dict(s, **zero_on))
            scaled = {p.id: s[p.id] * 1.6 for p in shape
                      if p.id in s and p.limits[0] <= s[p.id] * 1.6 <= p.limits[1]}
            extra.append(dict(s, **scaled))
            extra.append(dict(s, **dict(scaled, **zero_on)))
        sets = sets[:4] + extra
    if fixed:
        sets = [dict(s, **fixed) for s in sets]
    for pars in sets:
        pars = {k: v for k, v in pars.items() if k not in ("theta", "phi", "psi")}
        try:
            one = call_kernel(k1, dict(pars, background=0.0))
            n1, n2, n3 = (8, 12, 16) if has_psi else (40, 64, 96)
            r1, r2, r3 = average(pars, n1), average(pars, n2), average(pars, n3)
        except Exception:
            continue
        nsets += 1
        # only points where the independent reference has converged
        conv = (np.abs(r1 - r3) <= 2e-4 * np.abs(r3)) & (np.abs(r2 - r3) <= 1e-4 * np.abs(r3))
        r2 = r3
        ok = conv & np.isfinite(one) & (np.abs(r2) > 0)
        npoints += int(ok.sum())
        if ok.any():
            e = float(np.max(np.abs(one[ok] / r2[ok] - 1)))
            if e > worst:
                worst, wc = e, dict(pars)
    bad = worst > 5e-3
    out = (bad, {"summary": "max |I1d / <I2d> - 1| = %.3g over %d parameter sets, %d converged points"
                            % (worst, nsets, npoints), "worst_case": wc,
                 "call": "call_kernel(%s 1-D) vs Gauss-Legendre average of call_kernel(%s 2-D)" % (name, name)})
    _cache[ckey] = out
    return out
