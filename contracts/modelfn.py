"""
Symbolic execution of the per-model C functions (Fq/Iq, Iqac/Iqabc,
form_volume, radius_effective) for C12 and C14: quadrature loops are
summarised as Sigma terms (vp.cvc.SigmaLoop), library special functions are
uninterpreted, everything else (helpers such as _fq, form_volume) is inlined.
"""
import z3

from vp import cvc, sigma, polynf
from vp.cvc import CExec, Cell, Ptr, CArr, SigmaLoop, uf
from vp.symcheck import DEG0_FUNCS
from vp.core import OutsideSubset


def lib_functions(tu):
    return set(f for f in tu.functions if f in DEG0_FUNCS or f.startswith("sas_"))


class ModelExec(object):
    def __init__(self, model, suffix="", vectors=False, havoc_loops=False):
        self.havoc_loops = havoc_loops
        self.model = model
        self.tu = cvc.model_tu(model)
        self.info = self.tu.info
        self.suffix = suffix
        pt = self.info.parameters
        self.q = z3.Real("q" + suffix)
        self.pars = {}
        self.iq_args = []
        self.vector_pars = {}
        for p in pt.iq_parameters:
            if p.length > 1:
                if not vectors:
                    raise OutsideSubset("vector parameter %s" % p.id)
                # a vector parameter is an arbitrary function of the index (read-only array of its declared length)
                f = z3.Function(p.id + suffix, z3.IntSort(), z3.RealSort())
                arr = cvc.CArr(lambda j, f=f: f(j), "real", p.id, p.length)
                self.vector_pars[p.id] = f
                self.pars[p.id] = arr
                self.iq_args.append(Ptr(arr, 0))
                continue
            v = z3.Real(p.id + suffix)
            self.pars[p.id] = v
            self.iq_args.append(v)
        self.vol_args = [self.pars.get(p.id, z3.Real(p.id + suffix)) for p in pt.form_volume_parameters]

    def new_ex(self):
        ex = CExec(self.tu)
        ex.uninterpreted = lib_functions(self.tu) | set(getattr(self, "extra_uninterpreted", ()))
        ex.max_unroll = 12

        def handler(ex_, s, st, key):
            # small constant trip counts are unrolled, quadrature loops summarised
            cond = s["inner"][2]
            big = any(n_.get("kind") == "IntegerLiteral" and int(n_["value"]) > 12 for n_ in cvc._walk(cond))
            if not big:
                del ex_.loop_contracts[(key[0], "for*")]
                try:
                    ex_._ord -= 1
                    return ex_.s_ForStmt(s, st)
                except OutsideSubset as exc:
                    if self.havoc_loops and "symbolic trip count" in str(exc):
                        return cvc.HavocLoop()(ex_, s, st, key)
                    raise
                finally:
                    ex_.loop_contracts[(key[0], "for*")] = handler
            return SigmaLoop()(ex_, s, st, key)
        for f in self.tu.functions:
            ex.loop_contracts[(f, "for*")] = handler
            if self.havoc_loops:
                ex.loop_contracts[(f, "do*")] = cvc.HavocLoop()
                ex.loop_contracts[(f, "while*")] = cvc.HavocLoop()
        return ex

    def run_1d(self):
        """(F1 or None, F2, sigma defs) of the 1-D function."""
        ex = self.new_ex()
        if self.info.have_Fq and "Fq" in self.tu.functions:
            F1, F2 = Cell(None, "double", "F1"), Cell(None, "double", "F2")
            ex.call_function("Fq", [self.q, Ptr(F1, 0), Ptr(F2, 0)] + self.iq_args)
            return F1.value, F2.value, getattr(ex, "sigma_defs", {})
        ret, _ = ex.call_function("Iq", [self.q] + self.iq_args)
        return None, ret, getattr(ex, "sigma_defs", {})

    def run_2d(self, qs):
        ex = self.new_ex()
        name = "Iqabc" if len(qs) == 3 else "Iqac"
        ret, _ = ex.call_function(name, list(qs) + self.iq_args)
        if getattr(ex, "sigma_defs", None):
            raise OutsideSubset("%s contains quadrature loops" % name)
        return ret

    def run_fn(self, name, args, safety=None):
        ex = self.new_ex()
        if safety is not None:
            ex.safety = safety
        ret, _ = ex.call_function(name, args)
        return ret, getattr(ex, "sigma_defs", {})


def rename(expr, pairs):
    return z3.substitute(expr, *pairs)


def trig_pairs(exprs):
    """(sin(t), cos(t)) pairs for every argument t occurring under sin or cos."""
    args = {}
    seen, stack = set(), list(exprs)
    while stack:
        e = stack.pop()
        if e.get_id() in seen:
            continue
        seen.add(e.get_id())
        if z3.is_app(e):
            if e.decl().name() in ("sin", "cos") and e.num_args() == 1:
                args[e.arg(0).sexpr()] = e.arg(0)
            stack.extend(e.children())
    s, c = uf("sin", 1), uf("cos", 1)
    return [(s(t), c(t)) for t in args.values()]
