"""
C20 -- legacy parameter sets convert to valid parameter sets of the current model.

Functions under contract (sasmodels/convert.py, bodies from the AST of the
current tree): convert_model, _conversion_target, _get_translation_table,
_hand_convert, _hand_convert_3_1_2_to_4_1, _rename_magnetic_pars,
_rename_magnetic_angles, _convert_pars, _rescale_sld, _is_sld, _rescale,
_pd_to_underscores, _dot_pd_to_underscore_pd.

For every entry of every version of CONVERSION_TABLE (taken from the live
module: a data fact) `pars` is a finite map over the entry's key universe
  {old names of the entry, pass-through names} x {"", .width, .npts, .nsigmas,
   .type, .lower, .upper}  u  {M0:, mtheta:, mphi: x SLD names}  u  {up:...}
with a *symbolic presence bit and a symbolic real value per key*: one symbolic
run (state merging) covers every subset and every value.

Postconditions (from the property statement):
  no_exception   convert_model returns normally
  name           returned name is the entry's sasmodels model, followed through
                 later tables, and names a loadable model
  keys_valid     every key that can be present in the result is a parameter of
                 that model (id of a call parameter, a vector base id or a
                 dispersity/fit attribute of one)
  routing        old key o+attr present  =>  n+attr present with the same value
                 (x 1e6 for an SLD value of a 3.1.2 non-structure-factor model)
  defaults       scale and background present; 1.0 / 0.0 when absent in input
Hand-converted quantities (documented inside _hand_convert_3_1_2_to_4_1) are
excluded from `routing` only; they stay inside no_exception/keys_valid.
"""
import z3

from vp.pyvc import Interp, Sym, SDict, Summary, IRaise, fresh, num_expr, is_sym
from vp.core import OutsideSubset, z3val, SEED

PROP = "C20"
MOD = "sasmodels.convert"

DOTS = ["", ".width", ".npts", ".nsigmas", ".type", ".lower", ".upper"]
UNDERS = {"": "", ".width": "_pd", ".npts": "_pd_n", ".nsigmas": "_pd_nsigma",
          ".type": "_pd_type", ".lower": ".lower", ".upper": ".upper"}

# keys the hand conversions read unconditionally (region predicate of the
# known finding "required key absent -> KeyError")
HAND_REQUIRED = {
    "core_shell_ellipsoid:1": ["equat_core", "equat_shell", "polar_core", "polar_shell"],
    "hollow_cylinder": ["radius", "core_radius"],
    "teubner_strey": ["scale", "c1", "c2"],
}
# old base names whose values are rewritten by a hand conversion
HAND_TOUCHED = {
    "core_shell_parallelepiped": ["rimA", "rimB", "rimC"],
    "core_shell_ellipsoid:1": ["equat_shell", "polar_core", "polar_shell"],
    "hollow_cylinder": ["radius", "core_radius"],
    "multilayer_vesicle": ["scale", "volfraction"],
    "polymer_micelle": ["ndensity"],
    "rpa": ["L1", "L2", "L3", "L4"],
    "spherical_sld": None,      # everything (func_inter/shape/n_shells renumbering)
    "teubner_strey": None,
}


def table():
    from sasmodels.conversion_table import CONVERSION_TABLE
    return CONVERSION_TABLE


def model_ids(info):
    """Valid base ids of a model: call parameters and vector base ids."""
    ids = set(p.id for p in info.parameters.call_parameters)
    ids |= set(p.id for p in info.parameters.kernel_parameters)
    return ids


def expand_translation(info, mapping):
    """Spec-side expansion of a table entry to scalar parameter ids (vector
    parameter p[n] <-> old p1..pn), independent of convert.py."""
    out = dict(mapping)
    for p in info.parameters.kernel_parameters:
        if p.length > 1:
            old = out.pop(p.id, p.id)
            for k in range(1, p.length + 1):
                out.setdefault("%s%d" % (p.id, k), None if old is None else "%s%d" % (old, k))
    return out


def spec_chain(oldname, version):
    """[(version, newname, info, translation)] a set saved by `version` goes through."""
    T = table()
    from sasmodels.core import load_model_info
    keys = sorted(T)
    chain = []
    name = oldname
    for i, v in enumerate(keys):
        nxt = keys[min(i + 1, len(keys) - 1)]
        if not version <= nxt:
            continue
        hit = [n for n, e in T[v].items() if e[0] == name]
        if not hit:
            continue
        new = hit[0]
        info = load_model_info(new.split(":")[0])
        chain.append((v, new, info, expand_translation(info, T[v][new][1])))
        name = new
    return chain


MAGPREFIX = ("M0:", "mtheta:", "mphi:", "up:")


def universe(chain, magnetic_region=False):
    """Old base names and the finite key universe of one table entry.

    magnetic_region=False: the non-magnetic names of the entry (plus, for
    models with SLDs, magnetic attributes in their 4.0/4.1 spelling on the
    *current* SLD ids).  magnetic_region=True additionally contains the old
    magnetic names that the 3.1.2 table itself lists (M0_sld_sph, ...): the
    region of known finding C20.keys_valid.region_table_magnetic.
    """
    v, new, info, tr = chain[0]
    olds, mag_olds = [], []
    for n, o in tr.items():
        if o is None or o == "CONTROL":
            continue
        if n.startswith(MAGPREFIX):
            if o not in mag_olds:
                mag_olds.append(o)
        elif o not in olds:
            olds.append(o)
    news = set(n for n, o in tr.items() if o is not None and o != n)
    for (_v, _new, _info, _tr) in chain[1:]:
        # names introduced (or dropped) by later tables are not old names
        news |= set(n for n, o in _tr.items() if o != n)
        news |= set(o for n, o in _tr.items() if o is not None and o != n)
    for p in info.parameters.call_parameters:
        if p.type == "magnetic":
            continue
        if p.id not in tr and p.id not in olds and p.id not in news:
            olds.append(p.id)
    for k in ("scale", "background"):
        if k not in olds and k not in news and tr.get(k, k) is not None:
            olds.append(k)
    for req in HAND_REQUIRED.get(new, []):
        if req not in olds:
            olds.append(req)
    keys = []
    for o in olds:
        for d in DOTS:
            keys.append(o + d)
    sld_new = [p.id for p in info.parameters.call_parameters if p.type == "sld"]
    if sld_new and not any(n.startswith(MAGPREFIX) for n in tr):
        for n in sld_new:
            keys += ["M0:" + n, "mtheta:" + n, "mphi:" + n]
        keys += ["up:frac_i", "up:frac_f", "up:angle"]
    if magnetic_region:
        keys += mag_olds
    if new == "spherical_sld":
        keys += ["func_inter0", "func_inter1"]
    return olds, keys, mag_olds


# explicit regions (old keys) of recorded findings, per target model; the
# data-derived regions (stale table targets, control parameters, magnetic
# names listed by the table) are computed in regions_of()
EXPLICIT_REGIONS = {
    "hollow_cylinder": {"swap_chain_attribute": ["core_radius" + d for d in DOTS[1:]]},
    "teubner_strey": {"hand_removed_attributes": ["c1" + d for d in DOTS[1:]] + ["c2" + d for d in DOTS[1:]]},
    "spherical_sld": {"func_inter_leftover": ["func_inter0", "func_inter1"]},
}


def regions_of(chain, olds, keys, mag_olds, valid_ids):
    """name -> list of old keys.  Main obligations assume these keys absent;
    each region is then checked on its own under an id of its own."""
    v, new, info, tr = chain[0]
    route = compose(chain)
    regions = {}
    stale = []
    for o in olds:
        n, _ = route.get(o, (o, False))
        if n is not None and n not in valid_ids:
            # the bare value of a key that a hand conversion consumes is not stale
            stale += [o + d for d in DOTS
                      if not (d == "" and o in HAND_REQUIRED.get(new, []))]
    if stale:
        regions["stale_table_target"] = stale
    ctl = [p.id for p in info.parameters.kernel_parameters if p.is_control]
    ctl_old = [tr.get(c) for c in ctl[:1] if tr.get(c) and tr.get(c) != c]
    if ctl_old:
        regions["control_parameter_renamed"] = [ctl_old[0] + d for d in DOTS]
    if mag_olds:
        regions["table_magnetic"] = list(mag_olds)
    for name, ks in EXPLICIT_REGIONS.get(new, {}).items():
        regions[name] = [k for k in ks]
    # a key belongs to the first region that lists it
    seen = set()
    for name in list(regions):
        regions[name] = [k for k in regions[name] if k in keys or k in mag_olds]
        regions[name] = [k for k in regions[name] if k not in seen]
        seen.update(regions[name])
        if not regions[name]:
            del regions[name]
    return regions


def check(reg, tier):
    T = table()
    jobs = []
    for v in sorted(T):
        for new, e in T[v].items():
            for use_underscore in (True, False):
                jobs.append((v, new, e[0], use_underscore, v))
            if v == (3, 1, 2):
                # a set saved by an older release goes through the same table
                jobs.append((v, new, e[0], True, (3, 0, 0)))
    reg.extra["table_entries"] = len(set(j[:3] for j in jobs))
    from vp.core import run_parallel
    run_parallel(reg, _job, jobs)
    reg.assume("CONVERSION_TABLE and the ModelInfo of each target model are data facts read "
               "from the live modules of the current tree (load_model_info called concretely)")
    reg.assume("values are reals; '.type' attributes and spherical_sld func_inter strings are "
               "opaque values (string comparisons on them evaluate to 'different')")
    reg.assume("dict iteration order is not modelled (contracts are order independent)")
    reg.assume("preconditions on values of hand-converted sets: hollow_cylinder radius != core_radius, "
               "core_shell_ellipsoid equat_core != 0 and equat_shell != equat_core, "
               "teubner_strey c2 != 0 and the radicands of its square roots defined")
    reg.notes.append("magnetic attributes M0:/mtheta:/mphi:/up: are attached to the current SLD ids "
                     "(4.0/4.1 spelling); the 3.x magnetic names that the table itself lists form the "
                     "region table_magnetic")


def _job(sub, job):
    _check_entry(sub, *job)


def _inputs(it, keys, absent=()):
    pres, vals = {}, {}
    d = it.new_dict()
    for k in keys:
        pres[k] = z3.Bool("has[%s]" % k)
        vals[k] = z3.Real("val[%s]" % k)
        d.entries[k] = (pres[k], Sym(vals[k]))
    for k in absent:
        if k in pres:
            it.assume(z3.Not(pres[k]))
    return d, pres, vals


def _value_pre(it, newname, pres, vals, required):
    for r in required:
        if r in pres:
            it.assume(pres[r])
    if newname == "core_shell_ellipsoid:1":
        it.assume(vals["equat_core"] != 0)
        it.assume(vals["equat_shell"] != vals["equat_core"])
    if newname == "teubner_strey":
        it.assume(vals["c2"] != 0)
        it.assume(vals["scale"] != 0)
    if newname == "hollow_cylinder":
        it.assume(vals["radius"] != vals["core_radius"])


def _check_entry(reg, table_version, newname, oldname, use_underscore, version=None):
    version = version or table_version
    chain = spec_chain(oldname, version)
    tag = "%s.v%s%s" % (newname.replace(":", "_"), "".join(map(str, version)),
                        ".us" if use_underscore else ".dot")
    fn = MOD + ".convert_model"
    if not chain or chain[0][1] != newname:
        reg.fail("%s.spec.entry_reachable.%s" % (PROP, tag),
                 {"reason": "table entry is shadowed by another entry with the same old name"},
                 function=fn, reproduced=None)
        return
    olds, keys, mag_olds = universe(chain, magnetic_region=True)
    final_v, final_name, final_info, _ = chain[-1]
    valid_ids = model_ids(final_info)
    required = HAND_REQUIRED.get(newname, [])
    touched = HAND_TOUCHED.get(newname, [])
    regions = regions_of(chain, olds, keys, mag_olds, valid_ids)
    region_keys = [k for ks in regions.values() for k in ks]
    route = compose(chain)

    def run(absent, suffix, only=None):
        """One symbolic run of convert_model; obligations get `suffix`."""
        def oid(name):
            return "%s.%s%s.%s" % (PROP, name, suffix, tag)

        def body(it):
            it.summaries["sasmodels.core.load_model_info"] = Summary(
                lambda it_, a, k: __import__("sasmodels.core").core.load_model_info(*a),
                "load_model_info (live data fact)")
            d, pres, vals = _inputs(it, keys, absent)
            _value_pre(it, newname, pres, vals, required)
            f = it.get_func(MOD, "convert_model")
            for q in ("_conversion_target", "_get_translation_table", "_hand_convert",
                      "_hand_convert_3_1_2_to_4_1", "_rename_magnetic_pars",
                      "_rename_magnetic_angles", "_convert_pars", "_rescale_sld", "_is_sld",
                      "_rescale", "_pd_to_underscores", "_dot_pd_to_underscore_pd"):
                it.get_func(MOD, q)
            rp = make_replay(oldname, version, use_underscore, keys, pres, vals, final_name,
                             valid_ids)
            try:
                res = it.call(f, [oldname, d], {"use_underscore": use_underscore,
                                                "model_version": version})
            except IRaise as exc:
                reg.prove(oid("no_exception"), it.pc, False, function=fn,
                          replay=rp, describe=lambda m: {"raised": repr(exc.value)})
                return
            pc = list(it.pc)
            reg.passed(oid("no_exception"), function=fn)
            if only is None:
                it.discharge_sides(reg, oid("convert_model").replace("." + tag, "") + "." + tag,
                                   function=fn, replay=rp)
            else:
                it.side = []
            rname, out = res
            if only is None or "name" in only:
                if rname == final_name.split(":")[0]:
                    reg.passed(oid("name"), function=fn)
                else:
                    reg.prove(oid("name"), pc, False, function=fn, replay=rp,
                              describe=lambda m: {"returned": rname,
                                                  "expected": final_name.split(":")[0]})
            if not isinstance(out, SDict):
                reg.prove(oid("returns_dict"), pc, False, function=fn, replay=rp)
                return
            bad = [(k, p) for k, (p, v) in out.entries.items()
                   if p is not False and not key_valid(k, valid_ids, use_underscore)]
            if not bad:
                reg.passed(oid("keys_valid"), function=fn)
            else:
                goal = z3.And(*[z3.Not(p) if p is not True else z3.BoolVal(False) for _, p in bad])
                reg.prove(oid("keys_valid"), pc, goal, function=fn, replay=rp,
                          describe=lambda m: {"invalid_keys": [k for k, _ in bad][:40]})
            if only is not None:
                return
            goals = []
            for o in olds:
                if touched is None or o in (touched or []):
                    continue
                n, factor_sld = route.get(o, (o, False))
                if n is None:
                    continue
                for dot in DOTS:
                    src = o + dot
                    if src in region_keys:
                        continue
                    tgt = n + (UNDERS[dot] if use_underscore else dot)
                    ent = out.entries.get(tgt)
                    if ent is None or ent[0] is False:
                        goals.append((src, tgt, z3.Not(pres[src]), None))
                        continue
                    p, v = ent
                    fac = 1000000 if (factor_sld and dot == "") else 1
                    try:
                        ve = num_expr(v)
                    except OutsideSubset:
                        goals.append((src, tgt, z3.Not(pres[src]), None))
                        continue
                    if z3.is_int(ve):
                        ve = z3.ToReal(ve)
                    pe = z3.BoolVal(True) if p is True else p
                    goals.append((src, tgt, z3.Implies(pres[src],
                                                       z3.And(pe, ve == vals[src] * fac)), fac))
            if goals:
                conj = z3.And(*[g[2] for g in goals])
                s = z3.Solver(); s.add(*pc); s.add(z3.Not(conj))
                if s.check() == z3.unsat:
                    reg.passed(oid("routing"), function=fn)
                else:
                    for src, tgt, g, fac in goals:
                        reg.prove(oid("routing"), pc, g, function=fn,
                                  replay=make_routing_replay(oldname, version, use_underscore, keys,
                                                             pres, vals, src, tgt, fac),
                                  describe=lambda m, src=src, tgt=tgt: {"old_key": src,
                                                                        "expected_new_key": tgt})
            dg = []
            for k in ("scale", "background"):
                ent = out.entries.get(k)
                if ent is None or ent[0] is False:
                    dg.append(z3.BoolVal(False))
                else:
                    dg.append(z3.BoolVal(True) if ent[0] is True else ent[0])
            reg.prove(oid("defaults"), pc, z3.And(*dg), function=fn, replay=rp)
            s = z3.Solver(); s.add(*pc)
            if s.check() == z3.unsat:
                reg.errors.append("vacuous precondition for %s" % tag)

        it = Interp(reg)
        if newname == "teubner_strey":
            # value-domain precondition: the Teubner-Strey inversion is defined
            # (every divisor of the documented formulas is non-zero)
            it.assume_sides = ("divisor non-zero",)
        try:
            it.run_paths(body, max_paths=600)
        except OutsideSubset as exc:
            reg.undecided(oid("engine"), "outside subset: %s; fork sites %s"
                          % (exc, getattr(it, "fork_sites", None)), function=fn)

    # main obligations: every key outside the recorded regions
    run(region_keys, "")
    # each recorded region on its own (all other region keys absent)
    for name, ks in regions.items():
        others = [k for k in region_keys if k not in ks]
        run(others, ".region_%s" % name, only=("keys_valid",))
    # region of the finding "a key that a hand conversion reads is absent"
    for r in required:
        def body2(it, r=r):
            it.summaries["sasmodels.core.load_model_info"] = Summary(
                lambda it_, a, k: __import__("sasmodels.core").core.load_model_info(*a))
            d, pres, vals = _inputs(it, [k for k in keys if k != r], region_keys)
            f = it.get_func(MOD, "convert_model")
            try:
                it.call(f, [oldname, d], {"use_underscore": use_underscore,
                                          "model_version": version})
            except IRaise as exc:
                def rp2(model):
                    from sasmodels import convert
                    pars = {k: 1.5 for k in required if k != r}
                    try:
                        convert.convert_model(oldname, dict(pars), use_underscore, version)
                    except Exception as e2:
                        return True, {"call": "convert_model(%r, %r)" % (oldname, pars),
                                      "raised": repr(e2)}
                    return False, {}
                reg.prove("%s.no_exception.region_required_key_absent.%s.%s" % (PROP, tag, r),
                          it.pc, False, function=fn, replay=rp2)
                raise_stop()
            reg.passed("%s.no_exception.region_required_key_absent.%s.%s" % (PROP, tag, r),
                       function=fn)
        it2 = Interp(reg)
        try:
            it2.run_paths(body2, max_paths=50)
        except _Stop:
            pass
        except OutsideSubset as exc:
            reg.undecided("%s.engine.region.%s.%s" % (PROP, tag, r), str(exc), function=fn)


def make_routing_replay(oldname, version, use_underscore, keys, pres, vals, src, tgt, fac=None):
    def replay(model):
        from sasmodels import convert
        pars = {}
        for k in keys:
            if z3val(model, pres[k]) is True:
                pars[k] = z3val(model, vals[k])
        call = "convert_model(%r, %r, use_underscore=%r, model_version=%r)" % (
            oldname, pars, use_underscore, version)
        try:
            name, out = convert.convert_model(oldname, dict(pars), use_underscore, version)
        except Exception as exc:
            return True, {"call": call, "raised": repr(exc)}
        if src in pars and pars[src] == 0:
            pars[src] = 1.25          # make a lost scale factor visible
            name, out = convert.convert_model(oldname, dict(pars), use_underscore, version)
        facs = (1.0, 1e6) if fac is None else (float(fac),)
        if src in pars and (tgt not in out or
                            not any(abs(out[tgt] - pars[src] * f) <= 1e-9 * abs(pars[src] * f)
                                    for f in facs)):
            return True, {"call": call, "old_key": src, "expected_new_key": tgt,
                          "returned": out}
        return False, {"call": call, "returned": out}
    return replay


class _Stop(Exception):
    pass


def raise_stop():
    raise _Stop()


def compose(chain):
    """old base name -> (final new base name, is SLD value rescaled)."""
    v0, new0, info0, tr0 = chain[0]
    route = {}
    inv = {}
    for n, o in tr0.items():
        if o is not None and o != "CONTROL":
            inv.setdefault(o, n)
    sld0 = set(p.id for p in info0.parameters.call_parameters if p.type == "sld")
    sld0 |= set(p.id for p in info0.parameters.kernel_parameters if p.type == "sld")
    olds = set(inv) | set(p.id for p in info0.parameters.call_parameters)
    for o in olds:
        if o in inv:
            n = inv[o]
        elif o in tr0:
            # o is the *new* name of a different old parameter: passing it under
            # its new name is not an old-style key
            continue
        else:
            n = o
        scaled = (v0 == (3, 1, 2) and not info0.structure_factor and n in sld0)
        cur = n
        for (v, new, info, tr) in chain[1:]:
            invk = {}
            for nn, oo in tr.items():
                if oo is not None:
                    invk.setdefault(oo, nn)
                elif oo is None:
                    pass
            if cur in invk:
                cur = invk[cur]
            elif cur in tr and tr[cur] is None:
                pass
        route[o] = (cur, scaled)
    return route


SUFFIX_DOT = [".width", ".npts", ".nsigmas", ".type", ".lower", ".upper", ".fittable",
              ".std", ".units"]
SUFFIX_US = ["_pd_nsigma", "_pd_type", "_pd_n", "_pd", ".lower", ".upper", ".fittable",
             ".std", ".units"]


def key_valid(k, ids, use_underscore):
    if k in ids:
        return True
    for suf in (SUFFIX_US if use_underscore else SUFFIX_DOT):
        if k.endswith(suf) and k[:-len(suf)] in ids:
            return True
    return False


def make_replay(oldname, version, use_underscore, keys, pres, vals, final_name, valid_ids):
    def replay(model):
        from sasmodels import convert
        pars = {}
        for k in keys:
            if z3val(model, pres[k]) is True:
                pars[k] = z3val(model, vals[k])
        call = "convert_model(%r, %r, use_underscore=%r, model_version=%r)" % (
            oldname, pars, use_underscore, version)
        try:
            name, out = convert.convert_model(oldname, dict(pars), use_underscore, version)
        except Exception as exc:
            return True, {"call": call, "raised": repr(exc)}
        bad = [k for k in out if not key_valid(k, valid_ids, use_underscore)]
        info = {"call": call, "returned_name": name, "returned": out, "invalid_keys": bad}
        problems = []
        if name != final_name.split(":")[0]:
            problems.append("name %r is not the current model %r" % (name, final_name.split(":")[0]))
        if bad:
            problems.append("keys that are not parameters of %s: %s" % (name, bad))
        if "scale" not in out or "background" not in out:
            problems.append("scale/background not defaulted")
        info["problems"] = problems
        # routing problems are value-level: report when the solver's witness names one
        return (len(problems) > 0), info
    return replay
