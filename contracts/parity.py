"""
Model-level parity facts that C05 and C06 use as consequences (both were listed as "not under contract").

q parity (C05, "I(-q) = I(q)"):   for every oriented model, the particle-frame function satisfies
       Iqabc(-qa, -qb, -qc, p) = Iqabc(qa, qb, qc, p)      /      Iqac(qab, -qc, p) = Iqac(qab, qc, p)
   (qab = sqrt(qa^2 + qb^2) does not change under q -> -q), for all parameter values p.
SLD parity (C06, "I(-rho) = I(rho)"):  for every compiled model with SLD parameters, the function the 2-D kernel calls
   (Iqabc / Iqac, or the 1-D function for models without orientation) is unchanged when EVERY sld parameter changes
   sign.  The 1-D functions contain quadrature loops: the claim is proved on the Sigma-normal-form summand.

Both are polynomial identities (vp.polynf, complete normal form) on the symbolic execution of the generated C source,
with the special functions uninterpreted and their parity given: even: cos, cosh, fabs, sas_sinx_x, sas_2J1x_x,
sas_3j1x_x, sas_J0; odd: sin, sinh, tan, tanh, atan, asin, sas_J1, sas_Si, erf, sas_erf.  (Mathematical facts about
those functions, listed as an assumption; their implementations in sasmodels/models/lib are not interpreted.)
Models whose function leaves the subset (inner quadrature in the 2-D function) get a bounded numeric check on the compiled
kernel, never counted as proved.
"""
import z3

from vp import cvc, sigma, polynf
from vp.core import OutsideSubset, run_parallel
from contracts.modelfn import ModelExec, trig_pairs

PARITY = {"cos": "even", "cosh": "even", "fabs": "even", "sas_sinx_x": "even", "sas_2J1x_x": "even",
          "sas_3j1x_x": "even", "sas_J0": "even",
          "sin": "odd", "sinh": "odd", "tan": "odd", "tanh": "odd", "atan": "odd", "asin": "odd", "sas_J1": "odd",
          "sas_Si": "odd", "erf": "odd", "sas_erf": "odd"}
ASSUMPTION = ("parity of the special functions (even: cos, cosh, fabs, sas_sinx_x, sas_2J1x_x, sas_3j1x_x, sas_J0; odd: sin, "
              "sinh, tan, tanh, atan, asin, sas_J1, sas_Si, erf) is a mathematical fact about them, not proved from "
              "sasmodels/models/lib")


def oriented_models():
    from contracts.c12 import oriented_models as om
    return om()


def sld_models():
    from sasmodels import core
    out = []
    for name in core.list_models():
        info = core.load_model_info(name)
        if callable(info.Iq):
            continue
        if any(p.type == "sld" for p in info.parameters.kernel_parameters):
            out.append(name)
    return out


# ---- q parity ------------------------------------------------------------------------------------

def q_parity(reg, prop):
    run_parallel(reg, _q_job, [(prop, m) for m in oriented_models()])
    reg.assume(ASSUMPTION)


def _apps(e, fname):
    out, seen, stack = [], set(), [e]
    while stack:
        t = stack.pop()
        if t.get_id() in seen:
            continue
        seen.add(t.get_id())
        if z3.is_app(t):
            if t.decl().name() == fname and t.num_args() > 0:
                out.append(t)
            stack.extend(t.children())
    return out


def helper_parity(me, helper, E, Em):
    """The inner-quadrature helper enters the 2-D function by contract; for the parity claim its contract must include
    'even under the sign change its arguments undergo when q -> -q'.  The positions are read off the two symbolic runs
    (an argument is flipped when its normal form changes sign, unchanged when it stays; anything else: no lemma), and
    the lemma H(.., -a_k, ..) = H(.., a_k, ..) is proved on the Sigma-normal-form summand of the helper's own body
    (loops summarised, special-function parity given).  Returns the tuple of positions or None."""
    plus, minus = _apps(E, helper), _apps(Em, helper)
    if len(plus) != 1 or len(minus) != 1:
        return None
    positions = []
    for k in range(plus[0].num_args()):
        a, b = plus[0].arg(k), minus[0].arg(k)
        try:
            pa, pb = polynf.to_poly(a, {}), None
            atoms = {}
            pa, pb = polynf.to_poly(a, atoms), polynf.to_poly(b, atoms)
        except polynf.NotPolynomial:
            return None
        if (pa - pb).is_zero():
            continue
        if (pa + pb).is_zero():
            positions.append(k)
        else:
            return None
    if not positions:
        return ()
    # the helper's own body, all arguments symbolic
    fn = me.tu.functions[helper]
    params = [c_ for c_ in fn.get("inner", []) if c_.get("kind") == "ParmVarDecl"]
    args = []
    for k, prm in enumerate(params):
        qt = prm["type"]["qualType"]
        if "*" in qt or "[" in qt:
            return None
        args.append(z3.Int("h_arg%d" % k) if qt.strip() in ("int", "int32_t", "const int") else z3.Real("h_arg%d" % k))
    saved = getattr(me, "extra_uninterpreted", set())
    me.extra_uninterpreted = set(saved) - {helper}
    try:
        ret, defs = me.run_fn(helper, args)
    finally:
        me.extra_uninterpreted = saved
    polynf._ctx["limit"] = 4000
    try:
        nf = sigma.normal_form(ret, defs)
    finally:
        polynf._ctx["limit"] = None
    chains = {}
    for ch, s in nf:
        key = tuple(d.index.sexpr() for d in ch)
        chains[key] = chains.get(key, z3.RealVal(0)) + s
    flip = [(args[k], -args[k]) for k in positions]
    for key, S in chains.items():
        S = polynf.expand_inverses(S)
        Sm = z3.substitute(S, *flip)
        st, _ = polynf.decide(S == Sm, trig_pairs([S, Sm]), parity=PARITY, limit=4000)
        if st != "unsat":
            return None
    return tuple(positions)


def _q_job(sub, job):
    prop, name = job
    oid = "%s.parity.particle_frame_intensity_is_even_in_q.%s" % (prop, name)
    where = "models/%s: Iqac/Iqabc" % name
    try:
        me = ModelExec(name)
        tu = me.tu
        two_d = "Iqabc" if "Iqabc" in tu.functions else "Iqac"
        fn = tu.functions[two_d]
        sub.function_under_contract("generated[%s]:%s" % (name, two_d), "sasmodels/models/%s.c" % name,
                                    fn["loc"].get("presumedLine", 0), 0, tu.func_text(fn))
        from contracts.c12 import pure_loop_helpers
        from contracts.modelfn import lib_functions
        helpers = pure_loop_helpers(tu, two_d, lib_functions(tu))
        me.extra_uninterpreted = set(helpers)
        qa, qb, qc = z3.Real("qa"), z3.Real("qb"), z3.Real("qc")
        if two_d == "Iqabc":
            E, Em = me.run_2d([qa, qb, qc]), me.run_2d([-qa, -qb, -qc])
        else:
            E, Em = me.run_2d([qa, qc]), me.run_2d([qa, -qc])        # (qab, qc)
        E, Em = polynf.expand_inverses(E), polynf.expand_inverses(Em)
        table = dict(PARITY)
        for h in helpers:
            pos = helper_parity(me, h, E, Em)
            if pos is None:
                raise OutsideSubset("no parity lemma for the inner quadrature %s" % h)
            if pos:
                table[h] = ("even", pos)
                fnh = tu.functions[h]
                sub.function_under_contract("generated[%s]:%s" % (name, h), "sasmodels/models/%s.c" % name,
                                            fnh["loc"].get("presumedLine", 0), 0, tu.func_text(fnh))
        st, wit = polynf.decide(E == Em, trig_pairs([E, Em]), parity=table, limit=4000)
    except (OutsideSubset, polynf.NotPolynomial) as exc:
        rep, info = replay_q_parity(name)
        if rep:
            sub.fail(oid, {"replay": info}, function=where, engine="cvc")
        else:
            sub.passed(oid + ".numeric_stand_in", function=where, engine="cvc", kind="bounded", backend="numeric replay",
                       bound="not under contract (%s); %s" % (exc, info.get("summary")))
        return
    if st == "unsat":
        sub.passed(oid, function=where, engine="cvc", backend="polynomial normal form")
        return
    rep, info = replay_q_parity(name)
    if rep:
        sub.fail(oid, {"replay": info, "engine": st}, function=where, engine="cvc")
    else:
        sub.undecided(oid, "the identity did not close (%s) and the compiled kernel is even on the sampled points (%s)"
                      % (st, info.get("summary")), function=where, engine="cvc")


_cache = {}


def replay_q_parity(name):
    if ("q", name) in _cache:
        return _cache[("q", name)]
    import numpy as np
    from sasmodels import core
    from sasmodels.direct_model import call_kernel
    from contracts.c14 import parameter_sets
    m = core.load_model(name)
    qx = np.array([0.011, -0.023, 0.05, 0.08, -0.13, 0.0, 0.04])
    qy = np.array([0.017, 0.031, -0.02, 0.0, 0.09, 0.06, -0.04])
    k1, k2 = m.make_kernel([qx, qy]), m.make_kernel([-qx, -qy])
    worst, wc, n = 0.0, None, 0
    for pars in parameter_sets(m.info)[:8]:
        pars = dict(pars, theta=37.0, phi=21.0, background=0.0)
        if any(p.name == "psi" for p in m.info.parameters.kernel_parameters):
            pars["psi"] = 53.0
        try:
            a, b = call_kernel(k1, pars), call_kernel(k2, pars)
        except Exception:
            continue
        ok = np.isfinite(a) & np.isfinite(b) & (np.abs(a) > 0)
        if ok.any():
            n += 1
            e = float(np.max(np.abs(b[ok] / a[ok] - 1)))
            if e > worst:
                worst, wc = e, pars
    out = (worst > 1e-9, {"summary": "max |I(-q)/I(q) - 1| = %.3g over %d parameter sets x 7 detector points" % (worst, n),
                          "worst_case": wc, "call": "call_kernel(%s, 2-D) at (qx, qy) and (-qx, -qy)" % name})
    _cache[("q", name)] = out
    return out


# ---- SLD parity ----------------------------------------------------------------------------------

def sld_parity(reg, prop):
    run_parallel(reg, _sld_job, [(prop, m) for m in sld_models()])


def _flip(me, expr):
    subs = []
    for p in me.info.parameters.iq_parameters:
        if p.type == "sld" and p.length == 1:
            v = me.pars[p.id]
            subs.append((v, -v))
    return z3.substitute(expr, *subs) if subs else expr


def _sld_job(sub, job):
    prop, name = job
    where = "models/%s: intensity functions" % name
    oid = "%s.parity.intensity_unchanged_when_every_sld_changes_sign.%s" % (prop, name)
    try:
        from contracts.c12 import pure_loop_helpers
        from contracts.modelfn import lib_functions
        me = ModelExec(name)
        tu = me.tu
        if any(p.type == "sld" and p.length > 1 for p in me.info.parameters.iq_parameters):
            raise OutsideSubset("vector sld parameter")
        one_d = "Fq" if (me.info.have_Fq and "Fq" in tu.functions) else "Iq"
        goals = []
        two_d = "Iqabc" if "Iqabc" in tu.functions else ("Iqac" if "Iqac" in tu.functions else None)
        if two_d is not None:
            qa, qb, qc = z3.Real("qa"), z3.Real("qb"), z3.Real("qc")
            # an inner quadrature in a pure helper enters by its contract (function of its arguments): the claim
            # closes exactly when no sld reaches the helper
            helpers = pure_loop_helpers(tu, two_d, lib_functions(tu))
            me.extra_uninterpreted = set(helpers)
            E = polynf.expand_inverses(me.run_2d([qa, qb, qc] if two_d == "Iqabc" else [qa, qc]))
            goals.append((two_d, E, _flip(me, E)))
            fn = tu.functions[two_d]
        else:
            helpers = pure_loop_helpers(tu, one_d, lib_functions(tu))
            me.extra_uninterpreted = set(helpers)
            F1, F2, defs = me.run_1d()
            polynf._ctx["limit"] = 4000         # expressions that explode are left to the bounded stand-in
            try:
                nf = sigma.normal_form(F2, defs)
            finally:
                polynf._ctx["limit"] = None
            chains = {}
            for ch, s in nf:
                k = tuple(d.index.sexpr() for d in ch)
                chains[k] = chains.get(k, z3.RealVal(0)) + s
            for k, S in chains.items():
                S = polynf.expand_inverses(S)
                goals.append(("%s%s" % (one_d, "" if not k else " (summand)"), S, _flip(me, S)))
            fn = tu.functions[one_d]
        sub.function_under_contract("generated[%s]:%s" % (name, fn["name"]), "sasmodels/models/%s.c" % name,
                                    fn["loc"].get("presumedLine", 0), 0, tu.func_text(fn))
        verdicts = []
        for label, a, b in goals:
            st, wit = polynf.decide(a == b, trig_pairs([a, b]), parity=PARITY, limit=4000)
            verdicts.append(st)
    except (OutsideSubset, polynf.NotPolynomial) as exc:
        rep, info = replay_sld_parity(name)
        if rep:
            sub.fail(oid, {"replay": info}, function=where, engine="cvc")
        else:
            sub.passed(oid + ".numeric_stand_in", function=where, engine="cvc", kind="bounded", backend="numeric replay",
                       bound="not under contract (%s); %s" % (exc, info.get("summary")))
        return
    if all(v == "unsat" for v in verdicts):
        sub.passed(oid, function=where, engine="cvc", backend="polynomial normal form")
        for h in helpers:
            sub.assume("models/%s: helper %s enters by its contract 'the result is a function of the arguments' (frame "
                       "checked on the AST)" % (name, h))
        return
    rep, info = replay_sld_parity(name)
    if rep:
        sub.fail(oid, {"replay": info, "engine": verdicts}, function=where, engine="cvc")
    elif helpers:
        sub.passed(oid + ".numeric_stand_in", function=where, engine="cvc", kind="bounded", backend="numeric replay",
                   bound="not under contract (the slds reach the inner quadrature %s, whose body is not interpreted); %s"
                         % (helpers, info.get("summary")))
    else:
        sub.undecided(oid, "the identity did not close (%s) and the compiled kernel is unchanged on the sampled points (%s)"
                      % (verdicts, info.get("summary")), function=where, engine="cvc")


def replay_sld_parity(name):
    if ("sld", name) in _cache:
        return _cache[("sld", name)]
    import numpy as np
    from sasmodels import core
    from sasmodels.direct_model import call_kernel
    from contracts.c14 import parameter_sets
    m = core.load_model(name)
    info = m.info
    oriented = any(p.type == "orientation" for p in info.parameters.kernel_parameters)
    if oriented:
        qx = np.array([0.011, -0.023, 0.05, 0.08, -0.13])
        qy = np.array([0.017, 0.031, -0.02, 0.0, 0.09])
        k = m.make_kernel([qx, qy])
    else:
        k = m.make_kernel([np.logspace(-3, -0.3, 12)])
    slds = [p.name for p in info.parameters.call_parameters if p.type == "sld"]
    worst, wc, n = 0.0, None, 0
    for pars in parameter_sets(info)[:8]:
        pars = dict(pars, background=0.0)
        flipped = dict(pars)
        for s in slds:
            if s in flipped:
                flipped[s] = -flipped[s]
        try:
            a, b = call_kernel(k, pars), call_kernel(k, flipped)
        except Exception:
            continue
        ok = np.isfinite(a) & np.isfinite(b) & (np.abs(a) > 0)
        if ok.any():
            n += 1
            e = float(np.max(np.abs(b[ok] / a[ok] - 1)))
            if e > worst:
                worst, wc = e, pars
    out = (worst > 1e-9, {"summary": "max |I(-rho)/I(rho) - 1| = %.3g over %d parameter sets" % (worst, n),
                          "worst_case": wc, "call": "call_kernel(%s) with every sld parameter negated" % name})
    _cache[("sld", name)] = out
    return out
