"""Replay adapter for the kernel contract: call the raw compiled kernel symbol
of the real DLL with arbitrary (pd_start, pd_stop) partitions and compare the
result vector with the defining sum evaluated from monodisperse calls of the
same DLL."""
import numpy as np


def replay(model, kind, seed=0):
    from sasmodels import core
    from sasmodels.direct_model import get_mesh
    from sasmodels.details import make_kernel_args
    rng = np.random.RandomState(seed)
    m = core.load_model(model)
    info = m.info
    q = np.linspace(0.01, 0.3, 5)
    qv = [q] if kind == "Iq" else [q, q[::-1] * 0.7]
    kern = m.make_kernel(qv)
    pars = {}
    pd = [p for p in info.parameters.call_parameters if p.polydisperse
          and (kind != "Iq" or p.type != "orientation")][:3]
    sizes = [41, 5, 3]
    for p, n in zip(pd, sizes):
        pars[p.name + "_pd"] = 0.2 if p.relative_pd else 10.0
        pars[p.name + "_pd_n"] = n
    if kind != "Iq" and info.have_Fq:
        # 2-D kernels of amplitude models: compared through the normalised intensity (the F/F^2 slots of the raw
        # result are laid out differently in 2-D; an earlier version of this adapter misread them and reported a
        # difference on the unchanged tree - found by the VERIF_SELFTEST_REPLAYS run)
        return _replay_2d_intensity(m, kern, pd, sizes)
    mesh = get_mesh(info, pars, dim=kern.dim)
    details, values, magnetic = make_kernel_args(kern, mesh)
    cutoff = 1e-3
    # one call over the whole mesh vs the kernel's own chunking is what the
    # contract abstracts; compare chunked evaluation with the defining sum
    got = np.array(kern.Fq(details, values, cutoff, magnetic, 1)[1]) if info.have_Fq else None
    # defining sum from monodisperse evaluations
    vals = [np.atleast_1d(v[1]) for v in mesh[2:2 + info.parameters.npars]]
    wts = [np.atleast_1d(v[2]) for v in mesh[2:2 + info.parameters.npars]]
    names = [p.name for p in info.parameters.call_parameters[2:2 + info.parameters.npars]]
    import itertools
    tot_w, tot_f2, tot_v = 0.0, 0.0, 0.0
    for idx in itertools.product(*[range(len(v)) for v in vals]):
        w = np.prod([wts[k][i] for k, i in enumerate(idx)])
        point = {}
        for k, i in enumerate(idx):
            par = info.parameters.call_parameters[2 + k]
            if par.type == "orientation" and kind != "Iq" and len(vals[k]) > 1:
                return False, {"note": "orientation dispersity: not replayed by this adapter"}
            point[names[k]] = vals[k][i]
        if w <= cutoff:
            continue
        mono = get_mesh(info, point, dim=kern.dim)
        d1, v1, mag1 = make_kernel_args(kern, mono)
        r = kern.Fq(d1, v1, 0.0, mag1, 1)
        tot_w += w
        tot_f2 = tot_f2 + w * np.array(r[1])
        tot_v += w * r[3]
    full = kern.Fq(details, values, cutoff, magnetic, 1)
    expect = tot_f2 / tot_w
    bad = not np.allclose(np.array(full[1]), expect, rtol=1e-9)
    badv = abs(full[3] - tot_v / tot_w) > 1e-9 * abs(full[3])
    return bool(bad or badv), {"call": "%s %s kernel, mesh %s, cutoff %g" % (model, kind, sizes[:len(pd)], cutoff),
                               "real_F2": np.array(full[1]).tolist(), "spec_F2": expect.tolist(),
                               "real_Vshell": float(full[3]), "spec_Vshell": float(tot_v / tot_w)}


def _replay_2d_intensity(m, kern, pd, sizes):
    """call_kernel on a size-dispersity mesh of more than 100 points against the volume-weighted average of
    monodisperse evaluations of the same compiled kernel."""
    import itertools
    from sasmodels import weights
    from sasmodels.direct_model import call_kernel
    info = m.info
    pd = [p for p in pd if p.type != "orientation"]
    if not pd:
        return False, {"note": "no size dispersity to replay"}
    base = {p.name: p.default for p in info.parameters.call_parameters}
    base.update(background=0.0, scale=1.0)
    for p, ang in zip([q_ for q_ in info.parameters.call_parameters if q_.type == "orientation"], (60.0, 35.0, 20.0)):
        base[p.name] = ang
    pars = dict(base)
    meshes = []
    for p, n in zip(pd, sizes):
        pars[p.name + "_pd"], pars[p.name + "_pd_n"] = 0.2, n
        v, w = weights.get_weights("gaussian", n, 0.2, 3.0, base[p.name], p.limits, True)
        meshes.append((p.name, v, w))
    full = np.asarray(call_kernel(kern, pars, cutoff=0.0))
    num, den = 0.0, 0.0
    vol_kernel = m.make_kernel([np.array([0.01])])
    for idx in itertools.product(*[range(len(v)) for _, v, _ in meshes]):
        point = dict(base)
        w = 1.0
        for (name, v, wt), i in zip(meshes, idx):
            point[name] = v[i]
            w *= wt[i]
        mono = np.asarray(call_kernel(kern, point, cutoff=0.0))
        d1, v1, mag1 = __import__("sasmodels.details", fromlist=["make_kernel_args"]).make_kernel_args(
            vol_kernel, __import__("sasmodels.direct_model", fromlist=["get_mesh"]).get_mesh(
                info, {k: x for k, x in point.items() if k not in ("theta", "phi", "psi")}, dim="1d"))
        vs = vol_kernel.Fq(d1, v1, 0.0, mag1, 1)[3]
        num = num + w * mono * vs
        den += w * vs
    expect = num / den
    bad = not np.allclose(full, expect, rtol=1e-9)
    return bool(bad), {"call": "%s 2-D kernel through call_kernel, size mesh %s (%d points)"
                               % (info.id, sizes[:len(meshes)], int(np.prod([len(v) for _, v, _ in meshes]))),
                       "real_I": full.tolist(), "spec_I": np.asarray(expect).tolist()}


def replay_2d_jitter(model="parallelepiped"):
    """2-D kernel with angular dispersity (theta and phi jitter meshes reaching past 90 degrees) and one size mesh, more
    than 100 points: the real kernel against  SUM w |cos dtheta| F2 / SUM w |cos dtheta| V  built from evaluations of
    the same kernel on one-point meshes (one jitter point each; the |cos| factor and the normalisation cancel there).
    Jitter values are absolute and centred on zero, as the property states."""
    import itertools
    from sasmodels import core
    from sasmodels.details import make_kernel_args
    m = core.load_model(model)
    info = m.info
    qx = np.array([0.011, -0.023, 0.05, 0.08])
    qy = np.array([0.017, 0.031, -0.02, 0.004])
    kern = m.make_kernel([qx, qy])
    vol_kernel = m.make_kernel([np.array([0.01])])
    pars = info.parameters.call_parameters
    npars = info.parameters.npars
    centre = {p.name: p.default for p in pars}
    centre.update(scale=1.0, background=0.0, theta=50.0, phi=25.0)
    if "psi" in centre:
        centre["psi"] = 15.0
    sizes_ = [p.name for p in pars if p.polydisperse and p.type == "volume"]
    size = sizes_[0]
    dth = np.linspace(-120.0, 120.0, 9)
    wth = np.exp(-0.5 * (dth / 60.0) ** 2)
    dph = np.linspace(-30.0, 30.0, 5)
    wph = np.ones(5)
    sv = centre[size] * np.linspace(0.8, 1.2, 3)
    sw = np.array([0.25, 0.5, 0.25])
    disp = {"theta": (dth, wth), "phi": (dph, wph), size: (sv, sw)}
    # every further size parameter gets a two-point mesh: with five or more dispersed parameters an undispersed psi is
    # not among the (at most MAX_PD) loop parameters, and its jitter must then default to zero
    extra = [(nm, centre[nm] * np.array([0.9, 1.1]), np.array([0.5, 0.5])) for nm in sizes_[1:3]]
    for nm, v, w in extra:
        disp[nm] = (v, w)

    def mesh_of(d):
        out = []
        for p in pars:
            if p.name in d:
                out.append((centre[p.name], d[p.name][0], d[p.name][1]))
            else:
                out.append((centre[p.name], [centre[p.name]] if p.type != "orientation" else [0.0], [1.0]))
        return out
    cd, values, mag = make_kernel_args(kern, mesh_of(disp))
    full = np.asarray(kern(cd, values, 0.0, mag))
    num, den = 0.0, 0.0
    for i, j, k in itertools.product(range(len(dth)), range(len(dph)), range(len(sv))):
        for ex_idx in itertools.product(*[range(2) for _ in extra]):
            one = {"theta": ([dth[i]], [1.0]), "phi": ([dph[j]], [1.0]), size: ([sv[k]], [1.0])}
            vol = {size: ([sv[k]], [1.0])}
            w = wth[i] * wph[j] * sw[k] * abs(np.cos(np.radians(dth[i])))
            for (nm, v, wt), e in zip(extra, ex_idx):
                one[nm] = ([v[e]], [1.0])
                vol[nm] = ([v[e]], [1.0])
                w *= wt[e]
            c1, v1, m1 = make_kernel_args(kern, mesh_of(one))
            mono = np.asarray(kern(c1, v1, 0.0, m1))
            c2, v2, m2 = make_kernel_args(vol_kernel, mesh_of(vol))
            vs = vol_kernel.Fq(c2, v2, 0.0, m2, 1)[3]
            num = num + w * mono * vs
            den += w * vs
    expect = num / den
    bad = not np.allclose(full, expect, rtol=1e-9)
    return bool(bad), {"call": "%s 2-D kernel, view psi = 15 without jitter, theta jitter 9 points in [-120, 120], phi jitter "
                               "5 points, %s 3 points, %s 2 points each" % (model, size, [nm for nm, _, _ in extra]),
                       "real_I": full.tolist(), "spec_I": np.asarray(expect).tolist()}


def replay_valid_region():
    """A mesh of 150 points (two kernel invocations) that straddles the validity region of capped_cylinder
    (radius_cap >= radius): the real kernel against the defining sum over the VALID points with weight > cutoff."""
    import itertools
    from sasmodels import core
    from sasmodels.direct_model import get_mesh
    from sasmodels.details import make_kernel_args
    m = core.load_model("capped_cylinder")
    info = m.info
    q = np.linspace(0.01, 0.3, 5)
    kern = m.make_kernel([q])
    pars = {"radius": 20.0, "radius_cap": 22.0, "length": 300.0,
            "radius_cap_pd": 0.2, "radius_cap_pd_n": 15, "radius_cap_pd_nsigma": 3.0,
            "length_pd": 0.1, "length_pd_n": 10}
    cutoff = 1e-4
    mesh = get_mesh(info, pars, dim=kern.dim)
    details, values, magnetic = make_kernel_args(kern, mesh)
    full = kern.Fq(details, values, cutoff, magnetic, 1)
    names = [p.name for p in info.parameters.call_parameters[2:2 + info.parameters.npars]]
    vals = [np.atleast_1d(v[1]) for v in mesh[2:2 + info.parameters.npars]]
    wts = [np.atleast_1d(v[2]) for v in mesh[2:2 + info.parameters.npars]]
    tot_w, tot_f2, tot_v, ninvalid = 0.0, 0.0, 0.0, 0
    for idx in itertools.product(*[range(len(v)) for v in vals]):
        w = np.prod([wts[k][i] for k, i in enumerate(idx)])
        point = {names[k]: vals[k][i] for k, i in enumerate(idx)}
        if not point["radius_cap"] >= point["radius"]:
            ninvalid += 1
            continue
        if w <= cutoff:
            continue
        d1, v1, mag1 = make_kernel_args(kern, get_mesh(info, point, dim=kern.dim))
        r = kern.Fq(d1, v1, 0.0, mag1, 1)
        tot_w += w
        tot_f2 = tot_f2 + w * np.array(r[1])
        tot_v += w * r[3]
    expect = tot_f2 / tot_w
    bad = not np.allclose(np.array(full[1]), expect, rtol=1e-9) or abs(full[3] - tot_v / tot_w) > 1e-9 * abs(full[3])
    return bool(bad), {"call": "capped_cylinder Iq kernel, mesh 15 x 10 (%d points outside radius_cap >= radius), cutoff %g"
                               % (ninvalid, cutoff),
                       "real_F2": np.array(full[1]).tolist(), "spec_F2": expect.tolist(),
                       "real_Vshell": float(full[3]), "spec_Vshell": float(tot_v / tot_w)}


def replay_magnetic(model, seed=0):
    """The real magnetic 2-D intensity against the documented channel sum built
    from *non-magnetic* evaluations of the same model with every SLD replaced
    by its effective value (numpy version of the C06 spec)."""
    from sasmodels.core import load_model
    from sasmodels.direct_model import call_kernel
    rng = np.random.RandomState(seed)
    m = load_model(model)
    info = m.info
    qx = np.array([0.02, 0.0, -0.03, 0.04])
    qy = np.array([0.01, 0.05, 0.02, -0.03])
    kern = m.make_kernel([qx, qy])
    slds = [p.id for p in info.parameters.call_parameters if p.type == "sld"]
    base = {}
    for k, s in enumerate(slds):
        base[s] = 1.0 + 1.5 * k
    oriented = {p.name: v for p, v in zip(info.parameters.orientation_parameters, (30.0, 10.0, 25.0))}
    mag = {}
    for k, s in enumerate(slds):
        mag[s + "_M0"] = 1.2 + 0.7 * k
        mag[s + "_mtheta"] = 35.0 - 20.0 * k
        mag[s + "_mphi"] = 60.0 + 45.0 * k
    up_i, up_f, up_t, up_p = 0.3, 0.8, 40.0, 55.0
    pars = dict(base, **oriented)
    full = call_kernel(kern, dict(pars, up_frac_i=up_i, up_frac_f=up_f, up_theta=up_t, up_phi=up_p,
                                  background=0.0, **mag))
    ci, cf = min(max(up_i, 0), 1), min(max(up_f, 0), 1)
    norm = max(cf, 1 - cf)
    w = np.array([(1 - ci) * (1 - cf), (1 - ci) * cf, ci * (1 - cf), ci * cf]) / norm
    t, p = np.radians(up_t), np.radians(up_p)
    P = np.array([np.sin(t) * np.cos(p), np.sin(t) * np.sin(p), np.cos(t)])
    e1 = np.array([-np.sin(p), np.cos(p), 0.0])
    e2 = np.array([-np.cos(t) * np.cos(p), -np.cos(t) * np.sin(p), np.sin(t)])
    expect = np.zeros_like(qx)
    for j in range(len(qx)):
        qh = np.array([qx[j], qy[j], 0.0]) / np.hypot(qx[j], qy[j])
        k1 = m.make_kernel([qx[j:j + 1], qy[j:j + 1]])

        def I(eff):
            return call_kernel(k1, dict(oriented, background=0.0, **eff))[0]
        eff = {c: {} for c in ("dd", "uu", "e1", "e2")}
        for s in slds:
            mt, mp = np.radians(mag[s + "_mtheta"]), np.radians(mag[s + "_mphi"])
            M = mag[s + "_M0"] * np.array([np.sin(mt) * np.cos(mp), np.sin(mt) * np.sin(mp), np.cos(mt)])
            Mp = M - qh * np.dot(qh, M)
            eff["dd"][s] = base[s] - P @ Mp
            eff["uu"][s] = base[s] + P @ Mp
            eff["e1"][s] = e1 @ Mp
            eff["e2"][s] = e2 @ Mp
        expect[j] = (w[0] * I(eff["dd"]) + w[3] * I(eff["uu"])
                     + (w[1] + w[2]) * (I(eff["e1"]) + I(eff["e2"])))
    bad = not np.allclose(full, expect, rtol=1e-9)
    return bool(bad), {"call": "%s 2-D magnetic kernel, up_frac_i=%g, up_frac_f=%g, up_theta=%g, up_phi=%g"
                               % (model, up_i, up_f, up_t, up_p),
                       "real": np.asarray(full).tolist(), "spec_channel_sum": expect.tolist()}
