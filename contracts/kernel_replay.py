"""Replay adapter for the kernel contract: call the raw compiled kernel symbol
of the real DLL with arbitrary (pd_start, pd_stop) partitions and compare the
result vector with the defining sum evaluated from monodisperse calls of the
same DLL."""
import numpy as np


def replay(model, kind, seed=0):
    from sasmodels import core
    from sasmodels.direct_model import get_mesh
    from sasmodels.details import make_kernel_args
    rng = np.random.RandomState(seed)
    m = core.load_model(model)
    info = m.info
    q = np.linspace(0.01, 0.3, 5)
    qv = [q] if kind == "Iq" else [q, q[::-1] * 0.7]
    kern = m.make_kernel(qv)
    pars = {}
    pd = [p for p in info.parameters.call_parameters if p.polydisperse
          and (kind != "Iq" or p.type != "orientation")][:3]
    sizes = [41, 5, 3]
    for p, n in zip(pd, sizes):
        pars[p.name + "_pd"] = 0.2 if p.relative_pd else 10.0
        pars[p.name + "_pd_n"] = n
    mesh = get_mesh(info, pars, dim=kern.dim)
    details, values, magnetic = make_kernel_args(kern, mesh)
    cutoff = 1e-3
    # one call over the whole mesh vs the kernel's own chunking is what the
    # contract abstracts; compare chunked evaluation with the defining sum
    got = np.array(kern.Fq(details, values, cutoff, magnetic, 1)[1]) if info.have_Fq else None
    # defining sum from monodisperse evaluations
    vals = [np.atleast_1d(v[1]) for v in mesh[2:2 + info.parameters.npars]]
    wts = [np.atleast_1d(v[2]) for v in mesh[2:2 + info.parameters.npars]]
    names = [p.name for p in info.parameters.call_parameters[2:2 + info.parameters.npars]]
    import itertools
    tot_w, tot_f2, tot_v = 0.0, 0.0, 0.0
    for idx in itertools.product(*[range(len(v)) for v in vals]):
        w = np.prod([wts[k][i] for k, i in enumerate(idx)])
        point = {}
        for k, i in enumerate(idx):
            par = info.parameters.call_parameters[2 + k]
            if par.type == "orientation" and kind != "Iq" and len(vals[k]) > 1:
                return False, {"note": "orientation dispersity: not replayed by this adapter"}
            point[names[k]] = vals[k][i]
        if w <= cutoff:
            continue
        mono = get_mesh(info, point, dim=kern.dim)
        d1, v1, mag1 = make_kernel_args(kern, mono)
        r = kern.Fq(d1, v1, 0.0, mag1, 1)
        tot_w += w
        tot_f2 = tot_f2 + w * np.array(r[1])
        tot_v += w * r[3]
    full = kern.Fq(details, values, cutoff, magnetic, 1)
    expect = tot_f2 / tot_w
    bad = not np.allclose(np.array(full[1]), expect, rtol=1e-9)
    badv = abs(full[3] - tot_v / tot_w) > 1e-9 * abs(full[3])
    return bool(bad or badv), {"call": "%s %s kernel, mesh %s, cutoff %g" % (model, kind, sizes[:len(pd)], cutoff),
                               "real_F2": np.array(full[1]).tolist(), "spec_F2": expect.tolist(),
                               "real_Vshell": float(full[3]), "spec_Vshell": float(tot_v / tot_w)}


def replay_valid_region():
    """A mesh of 150 points (two kernel invocations) that straddles the validity region of capped_cylinder
    (radius_cap >= radius): the real kernel against the defining sum over the VALID points with weight > cutoff."""
    import itertools
    from sasmodels import core
    from sasmodels.direct_model import get_mesh
    from sasmodels.details import make_kernel_args
    m = core.load_model("capped_cylinder")
    info = m.info
    q = np.linspace(0.01, 0.3, 5)
    kern = m.make_kernel([q])
    pars = {"radius": 20.0, "radius_cap": 22.0, "length": 300.0,
            "radius_cap_pd": 0.2, "radius_cap_pd_n": 15, "radius_cap_pd_nsigma": 3.0,
            "length_pd": 0.1, "length_pd_n": 10}
    cutoff = 1e-4
    mesh = get_mesh(info, pars, dim=kern.dim)
    details, values, magnetic = make_kernel_args(kern, mesh)
    full = kern.Fq(details, values, cutoff, magnetic, 1)
    names = [p.name for p in info.parameters.call_parameters[2:2 + info.parameters.npars]]
    vals = [np.atleast_1d(v[1]) for v in mesh[2:2 + info.parameters.npars]]
    wts = [np.atleast_1d(v[2]) for v in mesh[2:2 + info.parameters.npars]]
    tot_w, tot_f2, tot_v, ninvalid = 0.0, 0.0, 0.0, 0
    for idx in itertools.product(*[range(len(v)) for v in vals]):
        w = np.prod([wts[k][i] for k, i in enumerate(idx)])
        point = {names[k]: vals[k][i] for k, i in enumerate(idx)}
        if not point["radius_cap"] >= point["radius"]:
            ninvalid += 1
            continue
        if w <= cutoff:
            continue
        d1, v1, mag1 = make_kernel_args(kern, get_mesh(info, point, dim=kern.dim))
        r = kern.Fq(d1, v1, 0.0, mag1, 1)
        tot_w += w
        tot_f2 = tot_f2 + w * np.array(r[1])
        tot_v += w * r[3]
    expect = tot_f2 / tot_w
    bad = not np.allclose(np.array(full[1]), expect, rtol=1e-9) or abs(full[3] - tot_v / tot_w) > 1e-9 * abs(full[3])
    return bool(bad), {"call": "capped_cylinder Iq kernel, mesh 15 x 10 (%d points outside radius_cap >= radius), cutoff %g"
                               % (ninvalid, cutoff),
                       "real_F2": np.array(full[1]).tolist(), "spec_F2": expect.tolist(),
                       "real_Vshell": float(full[3]), "spec_Vshell": float(tot_v / tot_w)}


def replay_magnetic(model, seed=0):
    """The real magnetic 2-D intensity against the documented channel sum built
    from *non-magnetic* evaluations of the same model with every SLD replaced
    by its effective value (numpy version of the C06 spec)."""
    from sasmodels.core import load_model
    from sasmodels.direct_model import call_kernel
    rng = np.random.RandomState(seed)
    m = load_model(model)
    info = m.info
    qx = np.array([0.02, 0.0, -0.03, 0.04])
    qy = np.array([0.01, 0.05, 0.02, -0.03])
    kern = m.make_kernel([qx, qy])
    slds = [p.id for p in info.parameters.call_parameters if p.type == "sld"]
    base = {}
    for k, s in enumerate(slds):
        base[s] = 1.0 + 1.5 * k
    oriented = {p.name: v for p, v in zip(info.parameters.orientation_parameters, (30.0, 10.0, 25.0))}
    mag = {}
    for k, s in enumerate(slds):
        mag[s + "_M0"] = 1.2 + 0.7 * k
        mag[s + "_mtheta"] = 35.0 - 20.0 * k
        mag[s + "_mphi"] = 60.0 + 45.0 * k
    up_i, up_f, up_t, up_p = 0.3, 0.8, 40.0, 55.0
    pars = dict(base, **oriented)
    full = call_kernel(kern, dict(pars, up_frac_i=up_i, up_frac_f=up_f, up_theta=up_t, up_phi=up_p,
                                  background=0.0, **mag))
    ci, cf = min(max(up_i, 0), 1), min(max(up_f, 0), 1)
    norm = max(cf, 1 - cf)
    w = np.array([(1 - ci) * (1 - cf), (1 - ci) * cf, ci * (1 - cf), ci * cf]) / norm
    t, p = np.radians(up_t), np.radians(up_p)
    P = np.array([np.sin(t) * np.cos(p), np.sin(t) * np.sin(p), np.cos(t)])
    e1 = np.array([-np.sin(p), np.cos(p), 0.0])
    e2 = np.array([-np.cos(t) * np.cos(p), -np.cos(t) * np.sin(p), np.sin(t)])
    expect = np.zeros_like(qx)
    for j in range(len(qx)):
        qh = np.array([qx[j], qy[j], 0.0]) / np.hypot(qx[j], qy[j])
        k1 = m.make_kernel([qx[j:j + 1], qy[j:j + 1]])

        def I(eff):
            return call_kernel(k1, dict(oriented, background=0.0, **eff))[0]
        eff = {c: {} for c in ("dd", "uu", "e1", "e2")}
        for s in slds:
            mt, mp = np.radians(mag[s + "_mtheta"]), np.radians(mag[s + "_mphi"])
            M = mag[s + "_M0"] * np.array([np.sin(mt) * np.cos(mp), np.sin(mt) * np.sin(mp), np.cos(mt)])
            Mp = M - qh * np.dot(qh, M)
            eff["dd"][s] = base[s] - P @ Mp
            eff["uu"][s] = base[s] + P @ Mp
            eff["e1"][s] = e1 @ Mp
            eff["e2"][s] = e2 @ Mp
        expect[j] = (w[0] * I(eff["dd"]) + w[3] * I(eff["uu"])
                     + (w[1] + w[2]) * (I(eff["e1"]) + I(eff["e2"])))
    bad = not np.allclose(full, expect, rtol=1e-9)
    return bool(bad), {"call": "%s 2-D magnetic kernel, up_frac_i=%g, up_frac_f=%g, up_theta=%g, up_phi=%g"
                               % (model, up_i, up_f, up_t, up_p),
                       "real": np.asarray(full).tolist(), "spec_channel_sum": expect.tolist()}
