"""Replay adapter for the kernel contract: call the raw compiled kernel symbol
of the real DLL with arbitrary (pd_start, pd_stop) partitions and compare the
result vector with the defining sum evaluated from monodisperse calls of the
same DLL."""
import numpy as np


def replay(model, kind, seed=0):
    from sasmodels import core
    from sasmodels.direct_model import get_mesh
    from sasmodels.details import make_kernel_args
    rng = np.random.RandomState(seed)
    m = core.load_model(model)
    info = m.info
    q = np.linspace(0.01, 0.3, 5)
    qv = [q] if kind == "Iq" else [q, q[::-1] * 0.7]
    kern = m.make_kernel(qv)
    pars = {}
    pd = [p for p in info.parameters.call_parameters if p.polydisperse
          and (kind != "Iq" or p.type != "orientation")][:3]
    sizes = [11, 7, 3]
    for p, n in zip(pd, sizes):
        pars[p.name + "_pd"] = 0.2 if p.relative_pd else 10.0
        pars[p.name + "_pd_n"] = n
    mesh = get_mesh(info, pars, dim=kern.dim)
    details, values, magnetic = make_kernel_args(kern, mesh)
    cutoff = 1e-3
    # one call over the whole mesh vs the kernel's own chunking is what the
    # contract abstracts; compare chunked evaluation with the defining sum
    got = np.array(kern.Fq(details, values, cutoff, magnetic, 1)[1]) if info.have_Fq else None
    # defining sum from monodisperse evaluations
    vals = [np.atleast_1d(v[1]) for v in mesh[2:2 + info.parameters.npars]]
    wts = [np.atleast_1d(v[2]) for v in mesh[2:2 + info.parameters.npars]]
    names = [p.name for p in info.parameters.call_parameters[2:2 + info.parameters.npars]]
    import itertools
    tot_w, tot_f2, tot_v = 0.0, 0.0, 0.0
    for idx in itertools.product(*[range(len(v)) for v in vals]):
        w = np.prod([wts[k][i] for k, i in enumerate(idx)])
        point = {}
        for k, i in enumerate(idx):
            par = info.parameters.call_parameters[2 + k]
            if par.type == "orientation" and kind != "Iq" and len(vals[k]) > 1:
                return False, {"note": "orientation dispersity: not replayed by this adapter"}
            point[names[k]] = vals[k][i]
        if w <= cutoff:
            continue
        mono = get_mesh(info, point, dim=kern.dim)
        d1, v1, mag1 = make_kernel_args(kern, mono)
        r = kern.Fq(d1, v1, 0.0, mag1, 1)
        tot_w += w
        tot_f2 = tot_f2 + w * np.array(r[1])
        tot_v += w * r[3]
    full = kern.Fq(details, values, cutoff, magnetic, 1)
    expect = tot_f2 / tot_w
    bad = not np.allclose(np.array(full[1]), expect, rtol=1e-9)
    badv = abs(full[3] - tot_v / tot_w) > 1e-9 * abs(full[3])
    return bool(bad or badv), {"call": "%s %s kernel, mesh %s, cutoff %g" % (model, kind, sizes[:len(pd)], cutoff),
                               "real_F2": np.array(full[1]).tolist(), "spec_F2": expect.tolist(),
                               "real_Vshell": float(full[3]), "spec_Vshell": float(tot_v / tot_w)}
