"""Contracts on the generated C kernels <model>_Iq/_Iqxy/_Imagnetic (under construction)."""


def orientation_clauses(reg, prop, tier):
    pass


def magnetic_clauses(reg, prop, tier):
    pass
