"""
Contract of the generated C kernels <model>_Iq / <model>_Iqxy (kernel_iq.c as
clang expands it for the model) -- the C half of C01, with the clauses that
C05, C09, C14 and C16 hang on it.

Postcondition (for all inputs satisfying wf_details, symbolic nq, mesh sizes,
pd_start/pd_stop; MAX_PD of the model loops):

  for every slot j of the result vector
     result'[j] = (pd_start == 0 ? 0 : result[j]) + SUM_{s = pd_start}^{pd_stop-1} T_j(s)

  T_j(s) = [VALID(P(s)) and Wp(s) > cutoff] * Wp(s) * f_j(P(s))
  P(s)[m]  = v_k[decode_k(s)] if m == pd_par[k] (innermost loop wins) else base[m]
             (base = values[2+m]; jitter slots theta, phi, psi are 0 in oriented kernels)
  W(s)     = prod_k w_k[decode_k(s)],  Wp = |cos(dtheta)| W for oriented 2-D kernels
  decode_k(s) = (s / pd_stride[k]) % pd_length[k]
  f_j: the model's own F^2 (and F) at q_j for j < nout*nq, then 1, V_form,
       V_shell, R_eff(mode) [mode != 0] for the four tail slots; model functions
       are uninterpreted and applied to the arguments the *parameter table*
       prescribes (computed here from ModelInfo, independently of generate.py).

Proof structure
  body contract   the statements between `weight0 = ...` and `++step` (the same
                  AST nodes in both places) add exactly T(L, weight0) for an
                  arbitrary parameter vector L and weight -- symbolic execution
                  of the real statements, q loop by the map-loop rule, rotation
                  helpers replaced by their C05 contracts;
  nest            each `while (i_k < n_k)` carries invariant I_k and
                  postcondition R_k (DESIGN.md 6 C01; stated with decode_k):
                    A_k : step < stop, i_k < n_k, all i_j = decode_j(step)
                    B_k : step < stop, i_k = n_k, lower i_j = 0, upper i_j =
                          decode_j(step-1), decode_j(step-1) = n_j - 1 for j <= k
                    I_k = A_k or B_k (+ accumulators = entry + SUM(start, step),
                          parameter-vector frame);  R_k = (step = stop) or B_k
                  the body block is replaced by its contract after proving
                  L = P(step), weight0 = W(step);
  decode lemmas   range, successor (odometer carry) and last-point lemmas about
                  (s / stride_k) % n_k for the model's MAX_PD, proved by z3
                  from stride_{k+1} = stride_k n_k (with div_div instances
                  proved separately).
"""
import re
import time
import z3

from vp import cvc
from vp.cvc import (CExec, Cell, Ptr, CArr, CStruct, UnionTable, State, WhileContract, MapLoop,
                    Snapshot, havoc_obj, modified_decls, base_decl, uf, to_real, to_int, to_bool)
from vp.core import OutsideSubset, z3val, solve

R, I = z3.RealSort(), z3.IntSort()


# --------------------------------------------------------------------------
# decode lemmas
# --------------------------------------------------------------------------

_lemma_cache = {}


def prove_decode_lemmas(reg, prop, D):
    """L1 (successor) and L3 (last point) for d_k(s) = (s / s_k) % n_k, D digits."""
    if D == 0 or (prop, D) in _lemma_cache:
        return
    _lemma_cache[(prop, D)] = True
    n = [z3.Int("n%d" % k) for k in range(D)]
    sv = [z3.Int("s%d" % k) for k in range(D + 1)]
    pre = [sv[0] == 1]
    for k in range(D):
        pre += [n[k] >= 1, sv[k + 1] == sv[k] * n[k], sv[k] >= 1]
    N = sv[D]
    s = z3.Int("s")
    pre += [s >= 0, s < N]

    def d(k, x):
        return (x / sv[k]) % n[k]
    # div_div: (x / a) / b == x / (a*b), proved on its own, then used as staging facts
    x, a, b = z3.Ints("x a b")
    reg.prove("%s.lemma.div_div" % prop, [x >= 0, a >= 1, b >= 1], (x / a) / b == x / (a * b),
              function="lemma (integer arithmetic)", engine="cvc", timeout_ms=60000)
    A = [z3.Int("a%d" % k) for k in range(D + 1)]
    Bq = [z3.Int("b%d" % k) for k in range(D + 1)]
    stage = []
    for k in range(D + 1):
        stage += [A[k] == s / sv[k], Bq[k] == (s + 1) / sv[k]]
    for k in range(D):
        # instances of div_div at (s, s_k, n_k) and (s+1, s_k, n_k), and of the division algorithm
        stage += [A[k + 1] == A[k] / n[k], Bq[k + 1] == Bq[k] / n[k],
                  A[k] == n[k] * A[k + 1] + A[k] % n[k], Bq[k] == n[k] * Bq[k + 1] + Bq[k] % n[k],
                  A[k] % n[k] >= 0, A[k] % n[k] < n[k], Bq[k] % n[k] >= 0, Bq[k] % n[k] < n[k]]
    for k in range(D):
        carry = z3.And(*[d(j, s) == n[j] - 1 for j in range(k)]) if k else z3.BoolVal(True)
        goal = d(k, s + 1) == z3.If(carry, z3.If(d(k, s) + 1 == n[k], 0, d(k, s) + 1), d(k, s))
        reg.prove("%s.lemma.decode_successor.D%d.digit%d" % (prop, D, k), pre + [s + 1 < N] + stage, goal,
                  function="lemma (mixed radix)", engine="cvc", timeout_ms=240000)
    reg.prove("%s.lemma.decode_last_point.D%d" % (prop, D), pre + stage,
              z3.Implies(z3.And(*[d(k, s) == n[k] - 1 for k in range(D)]), s == N - 1),
              function="lemma (mixed radix)", engine="cvc", timeout_ms=240000)
    reg.assume("decode lemmas use instances of div_div ((x/a)/b = x/(ab), proved by z3) and of the "
               "division algorithm x = n (x div n) + x mod n, 0 <= x mod n < n")


# --------------------------------------------------------------------------
# spec helpers derived from ModelInfo (independent of generate.py)
# --------------------------------------------------------------------------

class TableSpec(object):
    def __init__(self, info, tu=None):
        self.info = info
        pt = info.parameters
        self.npars = pt.npars
        self.nvalues = pt.nvalues
        self.max_pd = pt.max_pd
        self.slots = {}
        pos = 0
        for p in pt.kernel_parameters:
            self.slots[p.id] = (pos, p.length)
            pos += p.length
        # slot of the parameter named theta, computed here (not taken from the table's own field)
        self.theta_offset = self.slots["theta"][0] if "theta" in self.slots else -1
        self.table_theta_offset = pt.theta_offset
        # reparameterised model: the model functions take the *base* parameters,
        # computed from the table by the translation equations
        self.translation = getattr(info, "translation", None)
        base = getattr(info, "base", None) if self.translation else None
        self.base = base if base is not None else pt
        self.iq_pars = list(self.base.iq_parameters)
        self.vol_pars = list(self.base.form_volume_parameters)
        self.tu = tu
        self._tmap_cache = None
        self.is_oriented = any(p.type == "orientation" for p in pt.kernel_parameters)
        self.has_psi = any(p.name == "psi" for p in pt.kernel_parameters)
        self.have_Fq = bool(info.have_Fq)
        self.has_shell = callable(getattr(info, "shell_volume", None)) or "shell_volume" in _c_functions(info)
        self.has_reff = info.radius_effective_modes is not None or "radius_effective" in _c_functions(info)

    def args(self, pars, L):
        """z3 argument terms for a parameter list read from parameter vector L
        (through the translation equations for a reparameterised model)."""
        out = []
        tmap = self.translate(L) if self.translation else None
        for p in pars:
            if tmap is not None and p.id in tmap:
                out.append(tmap[p.id])
                continue
            slot, ln = self.slots[p.id]
            for j in range(ln):
                out.append(L(slot + j))
        return out

    def translate(self, L):
        """Independent reading of the translation text: name -> z3 term over L.
        Assignments are evaluated in order; names on the right are table parameters,
        earlier intermediates, header constants or C math functions."""
        import ast as pyast
        env = {}
        consts = header_constants(self.tu) if self.tu is not None else {}

        def ev(n):
            if isinstance(n, pyast.Expression):
                return ev(n.body)
            if isinstance(n, pyast.BinOp):
                a, b = ev(n.left), ev(n.right)
                return {pyast.Add: lambda: a + b, pyast.Sub: lambda: a - b, pyast.Mult: lambda: a * b,
                        pyast.Div: lambda: a / b}[type(n.op)]()
            if isinstance(n, pyast.UnaryOp) and isinstance(n.op, pyast.USub):
                return -ev(n.operand)
            if isinstance(n, pyast.UnaryOp) and isinstance(n.op, pyast.UAdd):
                return ev(n.operand)
            if isinstance(n, pyast.Constant):
                return cvc.cfloat(repr(n.value) if not isinstance(n.value, str) else n.value)
            if isinstance(n, pyast.Name):
                if n.id in env:
                    return env[n.id]
                if n.id in self.slots:
                    return L(self.slots[n.id][0])
                if n.id in consts:
                    return consts[n.id]
                raise OutsideSubset("translation refers to unknown name %s" % n.id)
            if isinstance(n, pyast.Call) and isinstance(n.func, pyast.Name):
                args = [ev(a) for a in n.args]
                f = n.func.id
                if f == "square":
                    return args[0] * args[0]
                if f == "cube":
                    return args[0] * args[0] * args[0]
                if f == "fabs":
                    return z3.If(args[0] >= 0, args[0], -args[0])
                return uf(f, len(args))(*args)
            raise OutsideSubset("translation expression outside the spec parser: %s" % pyast.dump(n)[:80])
        for line in self.translation.split("\n"):
            code = line.split("#", 1)[0].split("//", 1)[0].strip()
            if not code:
                continue
            var, expr = code.split("=", 1)
            env[var.strip()] = ev(pyast.parse(expr.strip(), mode="eval"))
        return env


_const_cache = {}


def header_constants(tu):
    """Values of the header's M_* constants on the DLL path, obtained by letting
    clang preprocess the generated source with probe lines appended."""
    key = tu.sha
    if key in _const_cache:
        return _const_cache[key]
    import subprocess, tempfile, os
    names = sorted(set(re.findall(r"#\s*define\s+(M_[A-Z0-9_]+)", tu.source)))
    probe = tu.source + "\n" + "\n".join("VERIFPROBE_%s %s" % (n, n) for n in names) + "\n"
    scratch = os.environ.get("VERIF_SCRATCH") or "/tmp"
    path = os.path.join(scratch, "probe_%s_%d.c" % (tu.name, os.getpid()))
    open(path, "w").write(probe)
    try:
        out = subprocess.run(["clang", "-std=c99", "-E", "-P", "-w", path], capture_output=True, text=True).stdout
    finally:
        os.unlink(path)
    vals = {}
    for line in out.splitlines():
        if line.startswith("VERIFPROBE_"):
            nm, _, val = line.partition(" ")
            try:
                vals[nm[len("VERIFPROBE_"):]] = cvc.cfloat(val.strip().rstrip("fFlL"))
            except Exception:
                pass
    _const_cache[key] = vals
    return vals


_cfn_cache = {}


def _c_functions(info):
    key = info.id
    if key not in _cfn_cache:
        from sasmodels import generate
        src = generate.make_source(info)["dll"]
        _cfn_cache[key] = set(re.findall(r"^(?:static\s+)?(?:double|void)\s*\n?\s*(\w+)\s*\(", src, re.M))
    return _cfn_cache[key]


def valid_spec(info, ts, L):
    """The model's validity predicate, from info.valid (text), over vector L."""
    txt = (getattr(info, "valid", "") or "").strip()
    if not txt:
        return z3.BoolVal(True)
    import ast as pyast
    py = txt.replace("&&", " and ").replace("||", " or ").replace("!", " not ").replace(" not =", "!=")
    tree = pyast.parse(py, mode="eval")

    def ev(n):
        if isinstance(n, pyast.Expression):
            return ev(n.body)
        if isinstance(n, pyast.BoolOp):
            vs = [ev(v) for v in n.values]
            return z3.And(*vs) if isinstance(n.op, pyast.And) else z3.Or(*vs)
        if isinstance(n, pyast.UnaryOp) and isinstance(n.op, pyast.Not):
            return z3.Not(ev(n.operand))
        if isinstance(n, pyast.UnaryOp) and isinstance(n.op, pyast.USub):
            return -ev(n.operand)
        if isinstance(n, pyast.Compare):
            l = ev(n.left)
            cs = []
            for op, rn in zip(n.ops, n.comparators):
                r = ev(rn)
                cs.append({pyast.Lt: l < r, pyast.LtE: l <= r, pyast.Gt: l > r, pyast.GtE: l >= r,
                           pyast.Eq: l == r, pyast.NotEq: l != r}[type(op)])
                l = r
            return z3.And(*cs) if len(cs) > 1 else cs[0]
        if isinstance(n, pyast.BinOp):
            a, b = ev(n.left), ev(n.right)
            return {pyast.Add: a + b, pyast.Sub: a - b, pyast.Mult: a * b, pyast.Div: a / b}[type(n.op)]
        if isinstance(n, pyast.Constant):
            from fractions import Fraction
            fr = Fraction(str(n.value))
            return z3.RealVal(fr.numerator) / z3.RealVal(fr.denominator) if fr.denominator != 1 \
                else z3.RealVal(fr.numerator)
        if isinstance(n, pyast.Name):
            if tmap is not None and n.id in tmap:
                return tmap[n.id]
            slot, ln = ts.slots[n.id]
            return L(slot)
        raise OutsideSubset("validity expression %r" % txt)
    tmap = ts.translate(L) if ts.translation else None
    return ev(tree)


# --------------------------------------------------------------------------
# the kernel harness
# --------------------------------------------------------------------------

MODEL_FUNCS = ["Iq", "Fq", "Iqac", "Iqabc", "Iqxy", "form_volume", "shell_volume", "radius_effective"]


class KernelProof(object):
    def __init__(self, reg, prop, model, kind, info=None, tag=None):
        self.reg, self.prop, self.model, self.kind = reg, prop, model, kind
        self.tu = cvc.model_tu(model, info)
        self.info = self.tu.info
        self.ts = TableSpec(self.info, self.tu)
        self.fname = "%s_%s" % (self.info.id.replace("-", "_"), kind) if False else None
        cands = [f for f in self.tu.functions if f.endswith("_" + kind)]
        if len(cands) != 1:
            raise OutsideSubset("kernel *_%s not found in the generated source of %s" % (kind, model))
        self.fname = cands[0]
        self.tag = tag or "%s.%s" % (model, kind)
        self.fn = self.tu.functions[self.fname]
        self.D = self.ts.max_pd
        self.oriented2d = kind != "Iq" and self.ts.is_oriented
        self.magnetic = kind == "Imagnetic"
        # slots of the SLD parameters (overwritten per spin channel in the magnetic kernel)
        self.sld_slots = []
        if self.magnetic:
            for p in self.info.parameters.kernel_parameters:
                if p.type == "sld":
                    slot, ln = self.ts.slots[p.id]
                    self.sld_slots += list(range(slot, slot + ln))
        self.nout = 2 if (self.ts.have_Fq and kind == "Iq") else 1
        oid = "%s.kernel.%s.generated_source_is_wellformed_c" % (prop, self.tag.rsplit(".", 1)[0])
        if self.tu.errors:
            reg.fail(oid, {"call": "generate.make_source(<%s>)['dll'] checked by clang -std=c99 -fsyntax-only" % model,
                           "diagnostics": self.tu.errors[:6]},
                     function="sasmodels/generate.py:make_source", engine="clang")
            exc = OutsideSubset("generated source of %s is not well-formed C: %s" % (model, self.tu.errors[0]))
            exc.reported = True
            raise exc
        reg.passed(oid, function="sasmodels/generate.py:make_source", engine="clang", backend="clang-frontend")
        self.signature_obligations(oid.rsplit(".", 1)[0])
        reg.function_under_contract("generated:%s (kernel_iq.c expanded for %s)" % (self.fname, model),
                                    "sasmodels/kernel_iq.c", 0, 0, self.tu.func_text(self.fn))

    def signature_obligations(self, prefix):
        """Functions generated from C bodies given as strings take exactly the
        arguments the kernel's CALL_* macros pass: the base table's parameters, in order."""
        base = self.ts.base
        iq = [p.id for p in base.iq_parameters]
        expected = {
            "form_volume": [p.id for p in base.form_volume_parameters],
            "shell_volume": [p.id for p in base.form_volume_parameters],
            "Iq": ["q"] + iq,
            "Iqxy": ["qx", "qy"] + iq + [p.id for p in base.orientation_parameters],
            "Iqac": ["qab", "qc"] + iq,
            "Iqabc": ["qa", "qb", "qc"] + iq,
        }
        for fn, names in expected.items():
            if not isinstance(getattr(self.info, fn, None), str) or fn not in self.tu.functions:
                continue
            got = [c_["name"] for c_ in self.tu.functions[fn].get("inner", []) if c_.get("kind") == "ParmVarDecl"]
            oid = "%s.generated_signature.%s" % (prefix, fn)
            if got == names:
                self.reg.passed(oid, function="sasmodels/generate.py:make_source", engine="clang",
                                backend="ast-compare")
            else:
                self.reg.fail(oid, {"call": "generate.make_source(<%s>)['dll']" % self.model,
                                    "generated_parameters": got, "parameters_passed_by_CALL_macros": names},
                              function="sasmodels/generate.py:make_source", engine="clang")

    # ---- symbolic inputs -------------------------------------------------
    def inputs(self):
        D = self.D
        self.nq = z3.Int("nq")
        self.B, self.S = z3.Int("pd_start"), z3.Int("pd_stop")
        self.cutoff, self.mode = z3.Real("cutoff"), z3.Int("radius_effective_mode")
        self.Vf = z3.Function("values", I, R)
        self.Qf = z3.Function("q", I, R)
        self.R0f = z3.Function("result0", I, R)
        self.values = CArr(lambda j: self.Vf(j), "real", "values")
        self.q = CArr(lambda j: self.Qf(j), "real", "q")
        self.result = CArr(lambda j: self.R0f(j), "real", "result")
        tag, fields = self.tu.record_fields("ProblemDetails")
        self.n = [z3.Int("n%d" % k) for k in range(D)]
        self.p = [z3.Int("p%d" % k) for k in range(D)]
        self.o = [z3.Int("o%d" % k) for k in range(D)]
        self.s = [z3.Int("s%d" % k) for k in range(D + 1)]
        self.NW, self.N = z3.Int("num_weights"), z3.Int("num_eval")
        flds = {}
        for fname, fqt in fields:
            ln = cvc.array_len(fqt)
            if ln is not None:
                src = {"pd_par": self.p, "pd_length": self.n, "pd_offset": self.o,
                       "pd_stride": self.s[:D]}[fname]
                if ln != D:
                    raise OutsideSubset("ProblemDetails.%s has %d entries, table says MAX_PD=%d" % (fname, ln, D))

                def get(j, src=src):
                    r = z3.IntVal(0)
                    sj = z3.simplify(j)
                    if z3.is_int_value(sj) and 0 <= sj.as_long() < len(src):
                        return src[sj.as_long()]
                    for k in reversed(range(len(src))):
                        r = z3.If(j == k, src[k], r)
                    return r
                flds[fname] = CArr(get, "int", "details." + fname, ln)
            else:
                val = {"num_eval": self.N, "num_weights": self.NW, "num_active": z3.Int("num_active"),
                       "theta_par": z3.IntVal(self.ts.table_theta_offset)}[fname]
                flds[fname] = Cell(val, fqt, "details." + fname)
        self.details = CStruct(flds, "details")
        pre = [self.nq >= 0, self.B >= 0, self.B < self.S, self.S <= self.N, self.NW >= 0, self.s[0] == 1,
               self.N == self.s[D]]
        for k in range(D):
            pre += [self.n[k] >= 1, self.s[k + 1] == self.s[k] * self.n[k], self.s[k] >= 1,
                    self.p[k] >= 0, self.p[k] < self.ts.npars, self.o[k] >= 0,
                    self.o[k] + self.n[k] <= self.NW]
        if D == 0:
            pre += [self.N == 1]
        self.pre = pre
        # decode as uninterpreted functions + lemma instances (quantified)
        self.dec = [z3.Function("decode%d" % k, I, I) for k in range(D)]
        s = z3.Int("s!lem")
        lem = []
        for k in range(D):
            d = self.dec
            lem.append(z3.ForAll([s], z3.Implies(z3.And(s >= 0, s < self.N),
                                                 z3.And(d[k](s) >= 0, d[k](s) < self.n[k])),
                                 patterns=[d[k](s)]))
            carry = z3.And(*[d[j](s) == self.n[j] - 1 for j in range(k)]) if k else z3.BoolVal(True)
            lem.append(z3.ForAll([s], z3.Implies(
                z3.And(s >= 0, s + 1 < self.N),
                d[k](s + 1) == z3.If(carry, z3.If(d[k](s) + 1 == self.n[k], 0, d[k](s) + 1), d[k](s))),
                patterns=[d[k](s + 1)]))
            # definition at pd_start (what the kernel computes there)
            lem.append(d[k](self.B) == (self.B / self.s[k]) % self.n[k])
        if D:
            lem.append(z3.ForAll([s], z3.Implies(
                z3.And(s >= 0, s < self.N, *[self.dec[k](s) == self.n[k] - 1 for k in range(D)]),
                s == self.N - 1), patterns=[self.dec[0](s)]))
        self.lemmas = lem
        # ghost sums: SUM_x(a, b) = sum_{s in [a,b)} T_x(s)
        self.T = {x: z3.Function("T_%s" % x, I, R) for x in ("w", "form", "shell", "radius")}
        self.Tq = z3.Function("T_q", I, I, R)
        self.SUM = {x: z3.Function("SUM_%s" % x, I, I, R) for x in ("w", "form", "shell", "radius")}
        self.SUMq = z3.Function("SUM_q", I, I, I, R)
        self.jf = z3.Int("jf")            # arbitrary but fixed slot for the frame condition
        self.jq = z3.Int("jq")            # arbitrary but fixed q slot
        self.pre.append(z3.And(self.jq >= 0, self.jq < self.nout * self.nq))

    # spec of the parameter vector and weight at mesh step s
    def base(self, m):
        ts = self.ts
        if self.oriented2d and self.kind != "Iq" and self._uses_jitter():
            zero = [ts.theta_offset, ts.theta_offset + 1] + ([ts.theta_offset + 2] if ts.has_psi else [])
            if m in zero:
                return z3.RealVal(0)
        return self.Vf(2 + m)

    def _uses_jitter(self):
        src = self.tu.func_text(self.fn)
        return True

    def P(self, s, m):
        r = self.base(m)
        for k in reversed(range(self.D)):       # innermost (k = 0) wins
            r = z3.If(self.p[k] == m, self.Vf(self.ts.nvalues + self.o[k] + self.dec[k](s)), r)
        return r

    def W(self, s):
        w = z3.RealVal(1)
        for k in reversed(range(self.D)):
            w = self.Vf(self.ts.nvalues + self.NW + self.o[k] + self.dec[k](s)) * w
        return w

    # ---- body contract -----------------------------------------------------
    def body_spec(self, L, w0, jq):
        """(guard, wproj, dq, dq1, form, shell, radius) contributions for vector L, weight w0."""
        ts, info = self.ts, self.info
        valid = valid_spec(info, ts, L)
        if self.oriented2d and (_has_fn(self.tu, "Iqac") or _has_fn(self.tu, "Iqabc")):
            k180 = cvc.cfloat(_lit_pi_180(self.tu))
            dtheta = L(ts.theta_offset)
            cosd = uf("cos", 1)(dtheta * k180)
            wproj = z3.If(cosd >= 0, cosd, -cosd) * w0
        else:
            wproj = w0
        G = z3.And(valid, wproj > self.cutoff)
        vol_args = ts.args(ts.vol_pars, L)
        form = uf("form_volume", len(vol_args))(*vol_args) if vol_args else z3.Real("form_volume()")
        if ts.has_shell:
            shell = uf("shell_volume", len(vol_args))(*vol_args) if vol_args else z3.Real("shell_volume()")
        else:
            shell = form
        if not ts.vol_pars or not _has_fn(self.tu, "form_volume"):
            # no volume parameters: the model is not normalised by a volume (V = 1)
            form = shell = z3.RealVal(1)
        if ts.vol_pars and _has_fn(self.tu, "radius_effective"):
            ra = [to_real(self.mode)] + vol_args
            reff = uf("radius_effective", len(ra))(*ra)
        else:
            reff = z3.RealVal(0)
        iq_args = ts.args(ts.iq_pars, L)
        F1 = None
        if self.kind == "Iq":
            qv = self.Qf(jq / self.nout if self.nout == 2 else jq)
            if ts.have_Fq:
                a = [qv] + iq_args
                F1 = uf("Fq.out0", len(a))(*a)
                F2 = uf("Fq.out1", len(a))(*a)
            else:
                a = [qv] + iq_args
                F2 = uf("Iq", len(a))(*a)
        elif self.magnetic:
            qx, qy = self.Qf(2 * jq), self.Qf(2 * jq + 1)
            F2 = self.magnetic_sum(L, qx, qy)
        else:
            qx, qy = self.Qf(2 * jq), self.Qf(2 * jq + 1)
            if _has_fn(self.tu, "Iqxy") and not _has_fn(self.tu, "Iqac") and not _has_fn(self.tu, "Iqabc"):
                # model-supplied Iqxy(qx, qy, pars..., orientation pars...): view angles passed through
                a = [qx, qy] + iq_args
                for t, p in enumerate(self.info.parameters.orientation_parameters):
                    a.append(self.Vf(ts.theta_offset + 2 + t))
                F2 = uf("Iqxy", len(a))(*a)
            elif self.oriented2d:
                F2 = self.oriented_call(L, qx, qy, iq_args)
            elif ts.have_Fq:
                a = [uf("sqrt", 1)(qx * qx + qy * qy)] + iq_args
                F2 = uf("Fq.out1", len(a))(*a)
            else:
                a = [uf("sqrt", 1)(qx * qx + qy * qy)] + iq_args
                F2 = uf("Iq", len(a))(*a)
        return G, wproj, F2, F1, form, shell, reff

    def call_2d(self, L, qx, qy):
        """The non-magnetic 2-D model call for parameter vector L at (qx, qy)."""
        ts = self.ts
        iq_args = ts.args(ts.iq_pars, L)
        if _has_fn(self.tu, "Iqxy") and not _has_fn(self.tu, "Iqac") and not _has_fn(self.tu, "Iqabc"):
            a = [qx, qy] + iq_args
            for t, p in enumerate(self.info.parameters.orientation_parameters):
                a.append(self.Vf(ts.theta_offset + 2 + t))
            return uf("Iqxy", len(a))(*a)
        if self.oriented2d:
            return self.oriented_call(L, qx, qy, iq_args)
        a = [uf("sqrt", 1)(qx * qx + qy * qy)] + iq_args
        if ts.have_Fq:
            return uf("Fq.out1", len(a))(*a)
        return uf("Iq", len(a))(*a)

    def magnetic_sum(self, L, qx, qy):
        """sum over the six cross-section terms with weight > 1e-8, every SLD slot
        replaced by mag_sld(xs, ...) of the nominal SLD and its magnetisation; 0 at q = 0."""
        ts = self.ts
        NP = ts.npars
        k180 = cvc.cfloat(_lit_pi_180(self.tu))
        sin, cos = uf("sin", 1), uf("cos", 1)
        ut, up = self.Vf(NP + 4) * k180, self.Vf(NP + 5) * k180
        cmt, smt, cmp_, smp = cos(ut), sin(ut), cos(up), sin(up)
        total = z3.RealVal(0)
        msld = uf("mag_sld", 11, argsorts=[I] + [R] * 10)
        for xs in range(6):
            w = uf("spin_weight%d" % xs, 2)(self.Vf(NP + 2), self.Vf(NP + 3))

            def Lx(m, xs=xs):
                mm = z3.simplify(m) if not isinstance(m, int) else z3.IntVal(m)
                mi = mm.as_long() if z3.is_int_value(mm) else None
                if mi is not None and mi in self.sld_slots:
                    sk = self.sld_slots.index(mi)
                    base = NP + 6 + 3 * sk
                    return msld(z3.IntVal(xs), qx, qy, cmt, smt, cmp_, smp, self.Vf(mi + 2),
                                self.Vf(base), self.Vf(base + 1), self.Vf(base + 2))
                return L(m)
            total = total + z3.If(w > cvc.cfloat(1e-8), w * self.call_2d(Lx, qx, qy), 0)
        qsq = qx * qx + qy * qy
        return z3.If(qsq > cvc.cfloat(1e-16), total, z3.RealVal(0))

    def oriented_call(self, L, qx, qy, iq_args):
        from contracts import c05
        ts = self.ts
        k = cvc.cfloat(_lit_pi_180(self.tu))
        sin, cos = uf("sin", 1), uf("cos", 1)
        th, ph = self.Vf(ts.theta_offset + 2), self.Vf(ts.theta_offset + 3)
        ang = {"theta": th, "phi": ph, "dtheta": L(ts.theta_offset), "dphi": L(ts.theta_offset + 1)}
        if ts.has_psi:
            ang["psi"] = self.Vf(ts.theta_offset + 4)
            ang["dpsi"] = L(ts.theta_offset + 2)
        sc = {}
        for nme in ("theta", "phi", "psi", "dtheta", "dphi", "dpsi"):
            if nme in ang:
                sc[nme] = (cos(ang[nme] * k), sin(ang[nme] * k))
            else:
                sc[nme] = (z3.RealVal(1), z3.RealVal(0))
        Rm = c05.spec_R(sc)
        qv = [Rm[0][c] * qx + Rm[1][c] * qy for c in range(3)]
        if ts.has_psi:
            a = qv + iq_args
            return uf("Iqabc", len(a))(*a)
        d = qx * qx + qy * qy - qv[2] * qv[2]
        qab = z3.If(d > 0, uf("sqrt", 1)(d), z3.RealVal(0))
        a = [qab, qv[2]] + iq_args
        return uf("Iqac", len(a))(*a)

    # rotation helpers replaced by their C05 contracts
    def install_rotation_contracts(self, ex):
        from contracts import c05
        k = cvc.cfloat(_lit_pi_180(self.tu))
        sin, cos = uf("sin", 1), uf("cos", 1)

        def sc_of(names, vals):
            sc = {}
            for nme in ("theta", "phi", "psi", "dtheta", "dphi", "dpsi"):
                if nme in names:
                    v = vals[names.index(nme)]
                    sc[nme] = (cos(to_real(v) * k), sin(to_real(v) * k))
                else:
                    sc[nme] = (z3.RealVal(1), z3.RealVal(0))
            return sc

        def qac_rotation(ex_, st, args):
            rot = args[0].target
            Rm = c05.spec_R(sc_of(["theta", "phi", "dtheta", "dphi"], args[1:]))
            ex_.write(rot.fields["R31"], Rm[0][2], st)
            ex_.write(rot.fields["R32"], Rm[1][2], st)

        def qac_apply(ex_, st, args):
            rot, qx, qy, pab, pc = args
            qc = rot.target.fields["R31"].value * qx + rot.target.fields["R32"].value * qy
            d = qx * qx + qy * qy - qc * qc
            ex_.write(pab.target, z3.If(d > 0, uf("sqrt", 1)(d), z3.RealVal(0)), st)
            ex_.write(pc.target, qc, st)

        def qabc_rotation(ex_, st, args):
            rot = args[0].target
            Rm = c05.spec_R(sc_of(["theta", "phi", "psi", "dtheta", "dphi", "dpsi"], args[1:]))
            for i, rn in enumerate(("R1", "R2", "R3")):
                ex_.write(rot.fields[rn + "1"], Rm[0][i], st)
                ex_.write(rot.fields[rn + "2"], Rm[1][i], st)

        def qabc_apply(ex_, st, args):
            rot, qx, qy, pa, pb, pc = args
            f = rot.target.fields
            ex_.write(pa.target, f["R11"].value * qx + f["R12"].value * qy, st)
            ex_.write(pb.target, f["R21"].value * qx + f["R22"].value * qy, st)
            ex_.write(pc.target, f["R31"].value * qx + f["R32"].value * qy, st)
        ex.contracts.update(qac_rotation=qac_rotation, qac_apply=qac_apply,
                            qabc_rotation=qabc_rotation, qabc_apply=qabc_apply)

        def set_spin_weights(ex_, st, args):
            # contract (C06): weight[k] = documented channel weight k of (up_frac_i, up_frac_f)
            i_in, f_in, w = args
            for xs in range(6):
                w.target.store(z3.simplify((w.offset if not isinstance(w.offset, int) else z3.IntVal(w.offset)) + xs),
                               uf("spin_weight%d" % xs, 2)(to_real(i_in), to_real(f_in)), st.live())

        def mag_sld(ex_, st, args):
            f = uf("mag_sld", 11, argsorts=[I] + [R] * 10)
            return f(to_int(args[0]), *[to_real(a) for a in args[1:]])
        ex.contracts.update(set_spin_weights=set_spin_weights, mag_sld=mag_sld)

    def stride_of(self, arr, bound):
        """window of one iteration in `result`: pairs (F^2, F) when the loop runs to nq in an Fq kernel"""
        if self.nout == 2 and arr is self.result and z3.eq(z3.simplify(bound), z3.simplify(self.nq + 0)):
            return 2
        return 1

    def lemma_instances(self, formulas):
        """Quantifier-free instances of the decode lemmas at every step term
        (variables named step..., pd_start) and its neighbours."""
        D = self.D
        if D == 0:
            return []
        terms = {}
        for f in formulas:
            for t in _consts(f):
                nm = t.decl().name()
                if nm.startswith("step") or nm == "pd_start":
                    terms[nm] = t
        d, n = self.dec, self.n
        out = []
        pts = []
        for t in terms.values():
            pts += [t - 1, t, t + 1]
        seen = set()
        for s in pts:
            s = z3.simplify(s)
            key = s.sexpr()
            if key in seen:
                continue
            seen.add(key)
            for k in range(D):
                out.append(z3.Implies(z3.And(s >= 0, s < self.N), z3.And(d[k](s) >= 0, d[k](s) < n[k])))
                carry = z3.And(*[d[j](s) == n[j] - 1 for j in range(k)]) if k else z3.BoolVal(True)
                out.append(z3.Implies(z3.And(s >= 0, s + 1 < self.N),
                                      d[k](s + 1) == z3.If(carry, z3.If(d[k](s) + 1 == n[k], 0, d[k](s) + 1),
                                                           d[k](s))))
            out.append(z3.Implies(z3.And(s >= 0, s < self.N, *[d[k](s) == n[k] - 1 for k in range(D)]),
                                  s == self.N - 1))
        for k in range(D):
            out.append(d[k](self.B) == (self.B / self.s[k]) % self.n[k])
        return out

    # ---- locate the body block ---------------------------------------------
    @staticmethod
    def is_weight0_decl(n):
        return n.get("kind") == "DeclStmt" and any(
            d.get("kind") == "VarDecl" and d.get("name") == "weight0" for d in n.get("inner", []))

    @staticmethod
    def is_step_incr(n):
        return (n.get("kind") == "UnaryOperator" and n.get("opcode") == "++"
                and (n["inner"][0].get("referencedDecl") or {}).get("name") == "step")

    def make_ex(self, vector_lengths=None):
        ex = CExec(self.tu, self.reg)
        ex.uninterpreted = set(f for f in MODEL_FUNCS if _has_fn(self.tu, f))
        # declared lengths of vector parameters (thickness[n] ...) per call position
        vl = {}
        ts = self.ts
        for fname, lead, pars in (("Iq", 1, ts.iq_pars), ("Fq", 3, ts.iq_pars), ("Iqac", 2, ts.iq_pars),
                                  ("Iqabc", 3, ts.iq_pars), ("Iqxy", 2, ts.iq_pars),
                                  ("form_volume", 0, ts.vol_pars), ("shell_volume", 0, ts.vol_pars),
                                  ("radius_effective", 1, ts.vol_pars)):
            for i, p in enumerate(pars):
                if p.length > 1:
                    vl[(fname, lead + i)] = p.length
        ex.vector_lengths = vl
        return ex

    def args_for_call(self):
        return [self.nq, self.B, self.S, Ptr(self.details, 0), Ptr(self.values, 0), Ptr(self.q, 0),
                Ptr(self.result, 0), self.cutoff, self.mode]

    # ---- run ----------------------------------------------------------------
    def run(self):
        reg, prop, tag = self.reg, self.prop, self.tag
        where = "generated:" + self.fname
        self.inputs()
        prove_decode_lemmas(reg, prop, self.D)
        ex = self.make_ex()
        self.install_rotation_contracts(ex)
        kp = self
        acc_names = ["weight_norm", "weighted_form", "weighted_shell", "weighted_radius"]
        acc_keys = ["w", "form", "shell", "radius"]
        ghost = {}

        def acc_conj(ex_, st):
            """accumulators = value at nest entry + SUM(start, step)."""
            step = ex_.val(st, "step")
            cs = []
            for nme, key in zip(acc_names, acc_keys):
                cs.append(ex_.val(st, nme) == ghost["acc0"][key] + kp.SUM[key](kp.B, step))
            cs.append(kp.result.at(kp.jq) == ghost["res0"](kp.jq) + kp.SUMq(kp.jq, kp.B, step))
            # frame: slots outside [0, nout*nq) are not written by the nest (jf arbitrary but fixed)
            cs.append(z3.Implies(z3.Or(kp.jf < 0, kp.jf >= kp.nout * kp.nq),
                                 kp.result.at(kp.jf) == ghost["res0"](kp.jf)))
            return z3.And(*cs)

        def idx(ex_, st, k):
            return ex_.val(st, "i%d" % k)

        def X(ex_, st, k, m):
            """expected vector content outside the slots of levels <= k."""
            r = kp.base(m)
            for j in reversed(range(k + 1, kp.D)):
                r = z3.If(kp.p[j] == m, kp.Vf(kp.ts.nvalues + kp.o[j] + idx(ex_, st, j)), r)
            return r

        def frame_conj(ex_, st, k):
            L = ex_.var(st, "local_values").fields["vector"]
            cs = []
            for m in range(kp.ts.npars):
                if m in kp.sld_slots:
                    continue          # scratch slots of the magnetic kernel
                cs.append(z3.Implies(z3.And(*[kp.p[j] != m for j in range(k + 1)]),
                                     L.at(m) == X(ex_, st, k, m)))
            return z3.And(*cs) if cs else z3.BoolVal(True)

        def A(ex_, st, k):
            step = ex_.val(st, "step")
            return z3.And(step < kp.S, idx(ex_, st, k) < kp.n[k],
                          *[idx(ex_, st, j) == kp.dec[j](step) for j in range(kp.D)])

        def Bv(ex_, st, k):
            step = ex_.val(st, "step")
            return z3.And(step < kp.S, step > kp.B, idx(ex_, st, k) == kp.n[k],
                          *([idx(ex_, st, j) == 0 for j in range(k)]
                            + [idx(ex_, st, j) == kp.dec[j](step - 1) for j in range(k + 1, kp.D)]
                            + [kp.dec[j](step - 1) == kp.n[j] - 1 for j in range(k + 1)]))

        def common(ex_, st, k):
            step = ex_.val(st, "step")
            return z3.And(step >= kp.B, step <= kp.S, acc_conj(ex_, st), frame_conj(ex_, st, k))

        def mk_inv(k):
            return lambda ex_, st: z3.And(common(ex_, st, k), z3.Or(A(ex_, st, k), Bv(ex_, st, k)))

        def mk_post(k):
            return lambda ex_, st: z3.And(common(ex_, st, k),
                                          z3.Or(ex_.val(st, "step") == kp.S, Bv(ex_, st, k)))

        def while_handler(ex_, s, st, key):
            # level from the loop condition  i_k < n_k
            cond = s["inner"][0]
            nm = None
            for n_ in cvc._walk(cond):
                if n_.get("kind") == "DeclRefExpr" and re.match(r"^i\d$", n_["referencedDecl"].get("name", "")):
                    nm = n_["referencedDecl"]["name"]
            if nm is None:
                raise OutsideSubset("unexpected while loop in %s" % kp.fname)
            k = int(nm[1:])
            if "acc0" not in ghost:
                # first (outermost) loop: remember the state at nest entry
                ghost["acc0"] = {key_: ex_.val(st, nme) for nme, key_ in zip(acc_names, acc_keys)}
                ghost["res0"] = kp.result.get
                for key_ in acc_keys:
                    st.facts.append(kp.SUM[key_](kp.B, kp.B) == 0)
                st.facts.append(kp.SUMq(kp.jq, kp.B, kp.B) == 0)
            wc = WhileContract("%s.kernel.%s.level%d" % (prop, tag, k), mk_inv(k), mk_post(k))
            return wc(ex_, s, st, key)
        ex.loop_contracts[(self.fname, "while*")] = while_handler

        def for_handler(ex_, s, st, key):
            # symbolic-length q loops: map-loop rule on result; others unroll
            cond = s["inner"][2]
            names = [n_["referencedDecl"].get("name") for n_ in cvc._walk(cond)
                     if n_.get("kind") == "DeclRefExpr"]
            if "nq" in names:
                ml = MapLoop("%s.kernel.%s.qloop%d" % (prop, tag, key[1]), [kp.result], kp.stride_of)
                return ml(ex_, s, st, key)
            del ex_.loop_contracts[(kp.fname, "for*")]
            try:
                ex_._ord -= 1
                return ex_.s_ForStmt(s, st)
            finally:
                ex_.loop_contracts[(kp.fname, "for*")] = for_handler
        ex.loop_contracts[(self.fname, "for*")] = for_handler

        body_nodes = {}

        def block_hook(ex_, items, i, st):
            if not kp.is_weight0_decl(items[i]) or ex_.cur_fn[-1] != kp.fname:
                return None
            try:
                j = next(t for t in range(i + 1, len(items)) if kp.is_step_incr(items[t]))
            except StopIteration:
                raise OutsideSubset("no `++step` after the weight0 declaration")
            ex_.exec_stmt(items[i], st)                     # weight0 itself
            body = items[i + 1:j]
            body_nodes["stmts"] = body
            if "acc0" not in ghost:                         # MAX_PD == 0: no loop at all
                ghost["acc0"] = {key_: ex_.val(st, nme) for nme, key_ in zip(acc_names, acc_keys)}
                ghost["res0"] = kp.result.get
                for key_ in acc_keys:
                    st.facts.append(kp.SUM[key_](kp.B, kp.B) == 0)
                st.facts.append(kp.SUMq(kp.jq, kp.B, kp.B) == 0)
            step = ex_.val(st, "step")
            Lv = ex_.var(st, "local_values").fields["vector"]
            w0 = ex_.val(st, "weight0")
            # instantiation premise of the body contract
            inst = [Lv.at(m) == kp.P(step, m) for m in range(kp.ts.npars) if m not in kp.sld_slots]
            inst = inst or [z3.BoolVal(True)]
            ex_.oblige("%s.kernel.%s.body_entry.parameter_vector_is_P_of_step" % (prop, tag), st,
                       z3.And(*inst))
            ex_.oblige("%s.kernel.%s.body_entry.weight_is_W_of_step" % (prop, tag), st,
                       w0 == kp.W(step))
            ex_.oblige("%s.kernel.%s.body_entry.step_in_range" % (prop, tag), st,
                       z3.And(step >= kp.B, step < kp.S))
            # effect of the body (its contract)
            mods = []
            for b in body:
                for o in cvc.resolve_mods(st, b):
                    if o not in mods:
                        mods.append(o)
            accs = [ex_.var(st, nme) for nme in acc_names]
            g = st.live()
            for cell, key_ in zip(accs, acc_keys):
                ex_.write(cell, cell.value + kp.T[key_](step), st)
            oldres = kp.result.get
            kp.result.get = lambda jj, oldres=oldres, step=step, g=g: z3.If(
                z3.And(g, jj >= 0, jj < kp.nout * kp.nq), oldres(jj) + kp.Tq(jj, step), oldres(jj))
            for o in mods:
                if o in accs or o is kp.result or (isinstance(o, Cell) and o.name == "local_values"):
                    continue
                if isinstance(o, CStruct) and o.name == "local_values":
                    continue
                havoc_obj(o, "body")
            for slot in kp.sld_slots:
                cvc._hv[0] += 1
                Lv.store(z3.IntVal(slot), z3.Real("sld_scratch!%d!%d" % (slot, cvc._hv[0])), g)
            # unfolding of the ghost sums at this step
            for key_ in acc_keys:
                st.facts.append(kp.SUM[key_](kp.B, step + 1) == kp.SUM[key_](kp.B, step) + kp.T[key_](step))
            st.facts.append(kp.SUMq(kp.jq, kp.B, step + 1) == kp.SUMq(kp.jq, kp.B, step) + kp.Tq(kp.jq, step))
            return j
        ex.block_hook = block_hook
        st0 = State()
        st0.facts = list(self.pre)
        t0 = time.time()
        _, st = ex.call_function(self.fname, self.args_for_call(), st_outer=st0)
        # ---- final postcondition ------------------------------------------
        nres = self.nout * self.nq
        post = [self.result.at(self.jq) == z3.If(self.B == 0, z3.RealVal(0), self.R0f(self.jq))
                + self.SUMq(self.jq, self.B, self.S)]
        for t, key_ in enumerate(acc_keys):
            post.append(self.result.at(nres + t) == z3.If(self.B == 0, z3.RealVal(0), self.R0f(nres + t))
                        + self.SUM[key_](self.B, self.S))
        for pi, pg in enumerate(post):
            ex.obligations.append(("%s.kernel.%s.post.result_is_old_plus_sum_over_steps.%s"
                                   % (prop, tag, (["q"] + acc_keys)[pi]), list(st.facts), pg))
        jf = self.jf
        ex.obligations.append(("%s.kernel.%s.frame.only_result_slots_written" % (prop, tag),
                               list(st.facts) + [z3.Or(jf < 0, jf >= nres + 4)],
                               self.result.at(jf) == self.R0f(jf)))
        for name, assumptions, goal in ex.obligations:
            inst = self.lemma_instances(assumptions + [goal])
            reg.prove(name, assumptions + inst, goal, function=where, engine="cvc",
                      timeout_ms=180000, nl=False, replay=self.replay)
        ex.obligations = []
        # ---- body contract: the real statements against the spec -------------
        if "stmts" not in body_nodes:
            reg.undecided("%s.kernel.%s.body" % (prop, tag), "body block not located", function=where)
            return
        self.check_body(body_nodes["stmts"], where)

    def check_body(self, stmts, where):
        """Execute the real body statements from an arbitrary state and compare
        their effect with the spec contributions T(L, weight0)."""
        reg, prop, tag = self.reg, self.prop, self.tag
        ex = self.make_ex()
        self.install_rotation_contracts(ex)
        kp = self

        def for_handler(ex_, s, st, key):
            cond = s["inner"][2]
            names = [n_["referencedDecl"].get("name") for n_ in cvc._walk(cond)
                     if n_.get("kind") == "DeclRefExpr"]
            if "nq" in names:
                ml = MapLoop("%s.kernel.%s.body.qloop" % (prop, tag), [kp.result], kp.stride_of)
                return ml(ex_, s, st, key)
            del ex_.loop_contracts[(kp.fname, "for*")]
            try:
                ex_._ord -= 1
                return ex_.s_ForStmt(s, st)
            finally:
                ex_.loop_contracts[(kp.fname, "for*")] = for_handler
        ex.loop_contracts[(self.fname, "for*")] = for_handler
        # run the kernel prologue for real (declarations, view angles, result reset),
        # stop at the body: the nest is skipped by a hook that jumps into the body
        captured = {}

        def block_hook(ex_, items, i, st):
            if not kp.is_weight0_decl(items[i]) or ex_.cur_fn[-1] != kp.fname:
                return None
            j = next(t for t in range(i + 1, len(items)) if kp.is_step_incr(items[t]))
            ex_.exec_stmt(items[i], st)
            # arbitrary body-entry state
            lv = ex_.var(st, "local_values")
            Lf = z3.Function("L", I, R)
            lv.fields["vector"].get = lambda jj: Lf(jj)
            w0 = z3.Real("weight0!any")
            ex_.var(st, "weight0").value = w0
            acc = {}
            for nme in ("weight_norm", "weighted_form", "weighted_shell", "weighted_radius"):
                c = ex_.var(st, nme)
                c.value = z3.Real(nme + "!any")
                acc[nme] = c.value
            Rf = z3.Function("result!any", I, R)
            kp.result.get = lambda jj: Rf(jj)
            g_entry = st.live()
            nfacts = len(st.facts)
            for b in items[i + 1:j]:
                ex_.exec_stmt(b, st)
            G, wproj, F2, F1, form, shell, reff = kp.body_spec(lambda m: Lf(m), w0, kp.jq)
            goals = {
                "weight_norm": ex_.val(st, "weight_norm") == acc["weight_norm"] + z3.If(G, wproj, 0),
                "weighted_form": ex_.val(st, "weighted_form") == acc["weighted_form"] + z3.If(G, wproj * form, 0),
                "weighted_shell": ex_.val(st, "weighted_shell") == acc["weighted_shell"] + z3.If(G, wproj * shell, 0),
                "weighted_radius": ex_.val(st, "weighted_radius") == acc["weighted_radius"]
                + z3.If(z3.And(G, kp.mode != 0), wproj * reff, 0),
            }
            if kp.nout == 2:
                contrib = z3.If(kp.jq % 2 == 0, F2, F1)
            else:
                contrib = F2
            goals["result_q"] = kp.result.at(kp.jq) == Rf(kp.jq) + z3.If(G, wproj * contrib, 0)
            jf = z3.Int("jf")
            captured["obl"] = [(nme, list(st.facts) + [g_entry], g) for nme, g in goals.items()]
            qsq_atom = []
            if kp.magnetic:
                qx_, qy_ = kp.Qf(2 * kp.jq), kp.Qf(2 * kp.jq + 1)
                qsq_atom = [qx_ * qx_ + qy_ * qy_ > cvc.cfloat(1e-16)]
            captured["cases"] = {"result_q": [valid_spec(kp.info, kp.ts, lambda m: Lf(m)), wproj > kp.cutoff] + qsq_atom}
            captured["obl"].append(("writes_only_q_slots", list(st.facts) + [g_entry, z3.Or(jf < 0, jf >= kp.nout * kp.nq)],
                                    kp.result.at(jf) == Rf(jf)))
            Lafter = lv.fields["vector"]
            captured["obl"].append(("parameter_vector_unchanged",
                                    list(st.facts) + [g_entry, jf >= 0, jf < kp.ts.npars]
                                    + [jf != s_ for s_ in kp.sld_slots],
                                    Lafter.at(jf) == Lf(jf)))
            raise _Done()
        ex.block_hook = block_hook

        def skip_while(ex_, s, st, key):
            # enter the loop body once without any assumption about the indices
            g0 = st.guard
            st.broke.append(z3.BoolVal(False))
            st.continued.append(z3.BoolVal(False))
            ex_.exec_stmt(s["inner"][1], st)
        ex.loop_contracts[(self.fname, "while*")] = skip_while
        st0 = State()
        st0.facts = list(self.pre)
        try:
            ex.call_function(self.fname, self.args_for_call(), st_outer=st0)
        except _Done:
            pass
        for name, assumptions, goal in ex.obligations:
            reg.prove(name, assumptions, goal, function=where, engine="cvc", timeout_ms=180000)
        for nme, assumptions, goal in captured.get("obl", []):
            atoms = captured.get("cases", {}).get(nme)
            kw = dict(function=where, engine="cvc", timeout_ms=180000,
                      nl=nme not in ("writes_only_q_slots", "parameter_vector_unchanged"),
                      replay=self.replay)
            oid = "%s.kernel.%s.body_contract.%s" % (prop, tag, nme)
            if atoms and (self.magnetic or self.ts.translation):
                reg.prove_by_cases(oid, assumptions, goal, [a for a in atoms if not z3.is_true(z3.simplify(a))], **kw)
            else:
                reg.prove(oid, assumptions, goal, **kw)
        if "obl" not in captured:
            reg.undecided("%s.kernel.%s.body_contract" % (prop, tag), "body not reached", function=where)

    def replay(self, model):
        from contracts import kernel_replay
        if self.magnetic:
            return kernel_replay.replay_magnetic(self.model)
        rep, info = kernel_replay.replay(self.model, self.kind)
        if not rep and self.kind == "Iqxy" and self.info.parameters.orientation_parameters:
            # size meshes agree: try the angular-dispersity mesh (|cos dtheta| weight, jitter centred on zero)
            rep2, info2 = kernel_replay.replay_2d_jitter(self.model)
            if rep2:
                return rep2, info2
        return rep, info


class _Done(Exception):
    pass


def _consts(f):
    """Uninterpreted constants occurring in a z3 formula."""
    seen, out, stack = set(), [], [f]
    while stack:
        e = stack.pop()
        if e.get_id() in seen:
            continue
        seen.add(e.get_id())
        if z3.is_quantifier(e):
            stack.append(e.body())
            continue
        if z3.is_app(e):
            if e.num_args() == 0 and e.decl().kind() == z3.Z3_OP_UNINTERPRETED:
                out.append(e)
            stack.extend(e.children())
    return out


def _writes_pairs(s):
    return True


def _has_fn(tu, name):
    return name in tu.functions


def _lit_pi_180(tu):
    m = re.search(r"#\s*define\s+M_PI_180\s+([0-9.eE+-]+)", tu.source)
    return m.group(1)


# --------------------------------------------------------------------------
# entry points used by the property checks
# --------------------------------------------------------------------------

QUICK_KERNELS = [("sphere", "Iq"), ("cylinder", "Iq"), ("cylinder", "Iqxy"), ("parallelepiped", "Iqxy"),
                 ("lamellar", "Iq"), ("hardsphere", "Iq"), ("fractal", "Iqxy"), ("vesicle", "Iq"), ("sphere", "Imagnetic"),
                 ("cylinder", "Imagnetic")]


def _kernel_job(sub, job):
    prop, model, kind = job
    try:
        KernelProof(sub, prop, model, kind).run()
    except OutsideSubset as exc:
        if getattr(exc, "reported", False):
            return
        # the kernel text left the shape the contract is stated over: nothing is proved; before reporting
        # "undecided" the compiled kernel is compared with the defining sum on the standard replay meshes, so that a
        # restructured kernel that computes something else is reported with its failing input
        from contracts import kernel_replay
        where = "generated:%s_%s" % (model, kind)
        hunts = []
        if kind in ("Iq", "Iqxy"):
            hunts.append(lambda: kernel_replay.replay(model, kind))
            if kind == "Iq":
                hunts.append(kernel_replay.replay_valid_region)
        for h in hunts:
            try:
                rep, info = h()
            except Exception as err:      # noqa
                rep, info = False, {"note": "replay adapter raised %r" % (err,)}
            if rep:
                sub.fail("%s.kernel.%s.%s.engine.defining_sum_on_the_compiled_kernel" % (prop, model, kind),
                         {"engine": "outside subset: %s" % exc, "replay": info}, function=where, engine="cvc")
                return
        sub.undecided("%s.kernel.%s.%s.engine" % (prop, model, kind), "outside subset: %s" % exc,
                      function=where, engine="cvc")


def all_kernels():
    from sasmodels import core
    out = []
    for name in core.list_models():
        info = core.load_model_info(name)
        if callable(info.Iq):
            continue            # pure python model: no generated C kernel
        out += [(name, "Iq"), (name, "Iqxy")]
        if info.parameters.nmagnetic > 0:
            out.append((name, "Imagnetic"))
    return out


def kernel_contracts(reg, prop, tier, kernels=None):
    from vp.core import run_parallel
    if kernels is None:
        kernels = all_kernels() if tier == "thorough" else QUICK_KERNELS
    run_parallel(reg, _kernel_job, [(prop, m, k) for m, k in kernels])
    reg.assume("model functions Iq/Fq/Iqac/Iqabc/form_volume/shell_volume/radius_effective are uninterpreted "
               "functions of the arguments the parameter table prescribes")
    reg.assume("int32_t arithmetic is mathematical (no overflow obligations); reads of values/q/details "
               "are not bounds-checked")


def orientation_clauses(reg, prop, tier):
    kernel_contracts(reg, prop, tier, [("cylinder", "Iqxy"), ("parallelepiped", "Iqxy"), ("cylinder", "Iq")])


def magnetic_clauses(reg, prop, tier):
    kernel_contracts(reg, prop, tier, [("sphere", "Imagnetic"), ("cylinder", "Imagnetic"),
                                       ("core_shell_sphere", "Imagnetic")])
