"""
C18 -- building a model is atomic under concurrent first use and crashes.

Contract-based route for a concurrency/crash property (rely/guarantee on ghost
state, DESIGN.md 6 C18): kerneldll.make_dll is executed symbolically on a ghost
file system (contracts/buildsys.MakeDllRun); every library call that touches
the file system is an event and a possible crash / interleaving point.  Proved
per path, for all sources, ids, cache directories and precisions:

  G1  the external compiler never writes to the final cache name
  G2  the final name is only ever changed by one os.replace (atomic rename) of a
      file the compiler finished writing in a location private to this call
  G3  nothing else creates, writes, truncates or removes the final name
  G4  a cache hit changes nothing; a failed compile raises and leaves the final
      name untouched
  R   the returned path is the final name, and it is complete on return

G1-G3 are the guarantee every process gives; under it the invariant
  I: the final name is absent or holds a complete library of the named source
is inductive (proved as a separate z3 lemma), which is what a concurrent reader
(os.path.exists then the lazy ct.CDLL) and a restart after a kill at any event
boundary rely on.
"""
import z3

from contracts import buildsys
from contracts.buildsys import MakeDllRun, TAG, final_path, dtypes
from vp.pyvc import is_str_sym

PROP = "C18"


def _fresh_consts(e):
    out, seen, stack = set(), set(), [e]
    while stack:
        t = stack.pop()
        if t.get_id() in seen:
            continue
        seen.add(t.get_id())
        if z3.is_const(t) and t.decl().kind() == z3.Z3_OP_UNINTERPRETED and t.decl().name().startswith("fresh!"):
            out.add(t.decl().name())
        stack.extend(t.children())
    return out


def make_dll_atomicity(reg):
    fn = "sasmodels.kerneldll.make_dll"
    src0, model_id = z3.String("source"), z3.String("model_id")
    allow_single = z3.Bool("ALLOW_SINGLE_PRECISION_DLLS")
    cache_dir = z3.String("cache_dir")
    mf = z3.Concat(model_id, z3.StringVal("_"), TAG(src0))
    dirname = z3.Function("dirname", z3.StringSort(), z3.StringSort())
    rp = lambda m=None: replay_partial_library_visible()
    for name in ("F32", "F64", "F128"):
        run = MakeDllRun(reg, name, system=False).run()
        for n, rec in enumerate(run.paths):
            ev = rec["events"]
            for eff, cond in ((("F64", z3.Not(allow_single)), ("F32", allow_single)) if name == "F32"
                              else ((name, z3.BoolVal(True)),)):
                want, pcw = final_path(mf, eff, reg)
                pc = rec["pc"] + pcw + [cond]
                # temporary names never coincide with a cache name (assumption on mkstemp/mkdtemp)
                fresh_all = set()
                for e in ev:
                    for x in e[1:]:
                        if z3.is_expr(x):
                            fresh_all |= _fresh_consts(x)
                pc = pc + [z3.String(f) != want for f in fresh_all]
                pc = pc + [z3.Not(z3.PrefixOf(z3.String(f), want)) for f in fresh_all]
                # instances of the string lemma  f . s == X  =>  PrefixOf(f, X)  (proved once below) for
                # every path term that starts with a temporary name
                for e in ev:
                    for x in e[1:]:
                        if z3.is_expr(x) and z3.is_string(x) and x.num_args() >= 2 and x.decl().name() == "str.++":
                            head = x.arg(0)
                            if z3.is_const(head) and head.decl().name().startswith("fresh!"):
                                pc.append(z3.Implies(x == want, z3.PrefixOf(head, want)))
                tag = "%s%s.path%d" % (name, "" if name == eff else "_as_" + eff, n)
                s = z3.Solver()
                s.add(*pc)
                if s.check() == z3.unsat:
                    continue        # this precision case is not this path
                ex = [e for e in ev if e[0] == "exists" and z3.is_expr(e[1])]
                hit = None
                if ex:
                    # the look-up of the final name
                    reg.prove("%s.make_dll.cache_lookup_is_on_the_final_name.%s" % (PROP, tag), pc, ex[0][1] == want,
                              function=fn, replay=rp)
                    s2 = z3.Solver()
                    s2.add(*pc)
                    s2.add(ex[0][2])
                    hit = s2.check() == z3.sat and z3.Solver().check() == z3.sat and _implied(pc, ex[0][2])
                comp = [e for e in ev if e[0] == "compile"]
                repl = [e for e in ev if e[0] == "replace"]
                # G1
                for k, c in enumerate(comp):
                    reg.prove("%s.make_dll.G1_compiler_never_writes_the_final_name.%s" % (PROP, tag), pc,
                              c[2] != want, function=fn, replay=rp,
                              describe="output of compile_model differs from the final cache path")
                    owners = _fresh_consts(c[2])
                    created = [e for e in ev[:ev.index(c)] if e[0] in ("create", "mkdir")
                               and e[1].decl().name() in owners]
                    private = bool(created)
                    same_fs = z3.BoolVal(False)
                    if created:
                        d = created[-1][-1].get("dir")
                        if d is not None and (is_str_sym(d) or isinstance(d, str)):
                            de = d.e if is_str_sym(d) else z3.StringVal(d)
                            same_fs = z3.Or(de == dirname(want), de == cache_dir)
                    reg.prove("%s.make_dll.G2_compiler_output_is_private_to_this_call_and_in_the_cache_directory.%s"
                              % (PROP, tag), pc, z3.And(z3.BoolVal(private), same_fs), function=fn,
                              replay=lambda m=None: _either(replay_two_builders, replay_partial_library_visible,
                                                            replay_publication_primitive),
                              describe="the compiler writes to a name created by mkstemp/mkdtemp(dir=cache directory) in this call")
                # G3: every modification of a path that may be the final name is the one rename
                bad_mod = []
                for e in ev:
                    if e[0] in ("write", "create", "unlink", "rmtree", "mkdir"):
                        bad_mod.append(e[1] == want)
                    if e[0] in ("move", "copy"):
                        # a copy (or a move that may cross file systems) writes the destination piece by piece
                        bad_mod.append(e[2] == want)
                        bad_mod.append(e[1] == want)
                    if e[0] == "replace":
                        bad_mod.append(e[1] == want)        # renaming the final name away
                reg.prove("%s.make_dll.G3_final_name_is_not_written_truncated_or_removed.%s" % (PROP, tag), pc,
                          z3.Not(z3.Or(*bad_mod)) if bad_mod else z3.BoolVal(True), function=fn,
                          replay=lambda m=None: _either(replay_partial_library_visible, replay_failed_build_keeps_published,
                                                        replay_publication_primitive))
                to_final = [e for e in repl if _implied(pc, e[2] == want)]
                other_repl = [e for e in repl if e not in to_final]
                reg.prove("%s.make_dll.G3_no_other_rename_targets_the_final_name.%s" % (PROP, tag), pc,
                          z3.And(*[e[2] != want for e in other_repl]) if other_repl else z3.BoolVal(True),
                          function=fn, replay=rp)
                compiled_ok = [c for c in comp if _implied(rec["pc"], c[3])]
                if rec["raised"] is None and comp:
                    # G2: publication = one atomic rename of the finished private file
                    ok = (len(to_final) == 1 and len(compiled_ok) >= 1
                          and ev.index(to_final[0]) > ev.index(compiled_ok[-1]))
                    src_is_output = to_final[0][1] == compiled_ok[-1][2] if ok else z3.BoolVal(False)
                    untouched = z3.BoolVal(True)
                    if ok:
                        between = ev[ev.index(compiled_ok[-1]) + 1:ev.index(to_final[0])]
                        mods = [e[1] == compiled_ok[-1][2] for e in between if e[0] in ("write", "create", "unlink", "rmtree")]
                        untouched = z3.Not(z3.Or(*mods)) if mods else z3.BoolVal(True)
                    reg.prove("%s.make_dll.G2_published_by_one_atomic_rename_of_the_finished_file.%s" % (PROP, tag), pc,
                              z3.And(z3.BoolVal(ok), src_is_output, untouched), function=fn,
                              replay=lambda m=None: _either(replay_partial_library_visible, replay_publication_primitive))
                if rec["raised"] is None:
                    ret = rec["ret"]
                    reg.prove("%s.make_dll.R_returns_the_final_name.%s" % (PROP, tag), pc,
                              ret.e == want if is_str_sym(ret) else z3.BoolVal(False), function=fn, replay=rp)
                    if not comp:
                        # G4: cache hit
                        mods = [e for e in ev if e[0] in ("write", "create", "unlink", "rmtree", "replace", "mkdir")]
                        reg.prove("%s.make_dll.G4_cache_hit_changes_nothing.%s" % (PROP, tag), pc,
                                  z3.And(z3.BoolVal(not mods), ex[0][2] if ex else z3.BoolVal(False)), function=fn, replay=rp)
                else:
                    failed = [c for c in comp if _implied(rec["pc"], z3.Not(c[3]))]
                    reg.prove("%s.make_dll.G4_failed_compile_raises_and_publishes_nothing.%s" % (PROP, tag), pc,
                              z3.BoolVal(bool(failed) and isinstance(rec["raised"], RuntimeError) and not to_final),
                              function=fn, replay=rp)


def compile_model_contract(reg):
    """kerneldll.compile_model: returns normally only if the compiler exited with status 0 AND the
    output exists; any compiler failure (non-zero exit, killed) raises, whether or not a (partial)
    output file is present."""
    import os.path
    import subprocess
    from vp.pyvc import Interp, Sym, Summary, IRaise
    fn = "sasmodels.kerneldll.compile_model"

    def body(it):
        import sasmodels.kerneldll as live
        ok, present = z3.Bool("compiler_exit_status_is_zero"), z3.Bool("output_exists_afterwards")
        it.summaries["sasmodels.kerneldll.compile_command"] = Summary(
            lambda it_, a, k: it_.new_list(["cc", "model.c", "-o", "out.so"]), "compile_command", contract=False)

        def check_output(it_, a, k):
            if not it_.decide(ok):
                raise IRaise(subprocess.CalledProcessError(-9, ["cc"], output=b"killed"))
            return b""
        it.models[subprocess.check_output] = check_output
        it.models[os.path.exists] = lambda it_, a, k: Sym(present)
        it.models[live.logging.info] = lambda it_, a, k: None
        it.models[live.logging.warning] = lambda it_, a, k: None
        it.models[live.logging.error] = lambda it_, a, k: None
        it.poison_one_arm = False
        f = it.get_func("sasmodels.kerneldll", "compile_model")
        raised = None
        try:
            it.call(f, [], {"source": "model.c", "output": "out.so"})
        except IRaise as exc:
            raised = exc.value
        reg.prove("%s.compile_model.returns_normally_only_after_a_successful_compile_with_output" % PROP, it.pc,
                  z3.BoolVal(raised is not None) if False else
                  (z3.And(ok, present) if raised is None else z3.BoolVal(True)), function=fn,
                  replay=lambda m=None: replay_killed_compiler())
        reg.prove("%s.compile_model.failure_raises_RuntimeError" % PROP, it.pc,
                  z3.BoolVal(raised is None or isinstance(raised, RuntimeError)), function=fn,
                  replay=lambda m=None: replay_killed_compiler())
    it = Interp(reg)
    it.run_paths(body)


def replay_killed_compiler():
    """Real compile_model with a compiler that writes half of the output and is then killed."""
    import os
    import sys
    import shutil
    import tempfile
    from sasmodels import kerneldll
    work = tempfile.mkdtemp(prefix="verif_c18k_")
    old = kerneldll.compile_command
    script = os.path.join(work, "cc.py")
    open(script, "w").write("import sys, os\nopen(sys.argv[1], 'wb').write(b'x' * 100)\nos.kill(os.getpid(), 9)\n")
    out = os.path.join(work, "out.so")
    try:
        kerneldll.compile_command = lambda source, output: [sys.executable, script, output]
        try:
            kerneldll.compile_model(source=os.path.join(work, "m.c"), output=out)
            res = "returned normally"
        except RuntimeError as exc:
            res = "RuntimeError"
        except Exception as exc:      # noqa
            res = repr(exc)[:100]
    finally:
        kerneldll.compile_command = old
        shutil.rmtree(work, ignore_errors=True)
    return res != "RuntimeError", {"call": "kerneldll.compile_model with a compiler killed after writing part of the output",
                                   "real": res, "spec": "RuntimeError"}


def _implied(pc, f):
    s = z3.Solver()
    s.set("timeout", 10000)
    s.add(*pc)
    s.add(z3.Not(f))
    return s.check() == z3.unsat


def _either(*replays):
    """First replay adapter that reproduces a violation."""
    last = (False, {})
    for r in replays:
        last = r()
        if last[0]:
            return last
    return last


def string_lemma(reg):
    f, s, X = z3.Strings("f s X")
    reg.prove("%s.lemma.concat_equal_implies_prefix" % PROP, [z3.Concat(f, s) == X], z3.PrefixOf(f, X),
              function="ghost: path terms", describe="f . s == X implies f is a prefix of X (instances used for temporary paths)")


def invariant_lemma(reg):
    """I is inductive under the guarantee G (any number of processes, any interleaving)."""
    A, P, C = 0, 1, 2
    st, st2 = z3.Int("state"), z3.Int("state'")
    content, content2, K = z3.String("content"), z3.String("content'"), z3.String("library_of_named_source")
    I = lambda s, c: z3.And(z3.Or(s == A, s == C), z3.Implies(s == C, c == K))
    # G: absent -> complete with the named content (atomic rename), complete -> complete (same content), or no change
    G = z3.Or(z3.And(st2 == st, content2 == content),
              z3.And(st2 == C, content2 == K, z3.Or(st == A, st == C)))
    reg.prove("%s.rely_guarantee.invariant_absent_or_complete_is_inductive" % PROP, [I(st, content), G], I(st2, content2),
              function="ghost: final cache name", describe="I and one G-step of any process imply I")
    reg.prove("%s.rely_guarantee.reader_sees_a_complete_library" % PROP, [I(st, content), st != A],
              z3.And(st == C, content == K), function="ghost: final cache name",
              describe="os.path.exists(final) under I implies the library is complete and is the named one")
    s = z3.Solver()
    s.add(I(st, content), G, st == A, st2 == C)
    if s.check() == z3.sat:
        reg.passed("%s.rely_guarantee.cover.publication_step_reachable" % PROP, function="ghost: final cache name",
                   kind="cover")


def load_path(reg):
    """load_dll hands make_dll's path to DllModel; _load_dll opens exactly that path."""
    from vp.pyvc import Interp, Sym, Summary, IRaise
    import ctypes as ct
    fn = "sasmodels.kerneldll.load_dll"

    def body(it):
        seen = {}
        path = Sym(z3.String("returned_path"))

        def make_dll(it_, a, k):
            seen["dtype"] = k.get("dtype")
            return path
        it.summaries["sasmodels.kerneldll.make_dll"] = Summary(make_dll, "make_dll (contract above)", contract=False)
        it.summaries["sasmodels.kerneldll.DllModel"] = Summary(
            lambda it_, a, k: seen.update(dllpath=a[0], model_dtype=k.get("dtype")) or "model", "DllModel()", contract=False)
        f = it.get_func("sasmodels.kerneldll", "load_dll")
        import sasmodels.kerneldll as live
        it.global_overrides = {("sasmodels.kerneldll", "DllModel"): it.summaries["sasmodels.kerneldll.DllModel"]}
        dt = dtypes()["F128"]
        it.call(f, [Sym(z3.String("source")), it.new_obj(None, {}, "info")], {"dtype": dt})
        reg.prove("%s.load_dll.opens_the_path_make_dll_returned" % PROP, it.pc,
                  z3.BoolVal(seen.get("dllpath") is path and seen.get("dtype") is dt and seen.get("model_dtype") is dt),
                  function=fn)
    Interp(reg).run_paths(body)

    def body2(it):
        import sasmodels.kerneldll as live
        opened = []
        it.models[ct.CDLL] = lambda it_, a, k: opened.append(a[0]) or it_.new_obj(None, {}, "cdll")
        path = Sym(z3.String("dllpath"))
        selfo = it.new_obj(live.DllModel, {"dllpath": path, "dtype": dtypes()["F64"], "_dll": None,
                                            "info": it.new_obj(None, {"name": "m"}, "info")}, "DllModel")
        f = it.get_func("sasmodels.kerneldll", "DllModel._load_dll")
        try:
            it.call(f, [selfo])
        except Exception:      # the kernel symbol look-up is outside this contract
            pass
        reg.prove("%s.DllModel._load_dll.opens_dllpath" % PROP, it.pc, z3.BoolVal(len(opened) >= 1 and opened[0] is path),
                  function="sasmodels.kerneldll.DllModel._load_dll")
    try:
        Interp(reg).run_paths(body2)
    except Exception as exc:       # noqa
        reg.undecided("%s.DllModel._load_dll.opens_dllpath" % PROP, "outside subset: %s" % exc,
                      function="sasmodels.kerneldll.DllModel._load_dll")


# --------------------------------------------------------------------------
# replay: a scripted compiler that stops half way
# --------------------------------------------------------------------------

SCRIPT = r'''
import sys, os, time
real, out, flags = sys.argv[1], sys.argv[2], sys.argv[3]
data = open(real, "rb").read()
with open(out, "wb") as fd:
    fd.write(data[:len(data)//2]); fd.flush(); os.fsync(fd.fileno())
    open(os.path.join(flags, "half"), "w").close()
    t0 = time.time()
    while not os.path.exists(os.path.join(flags, "go")) and time.time() - t0 < 30:
        time.sleep(0.01)
    if os.path.exists(os.path.join(flags, "die")):
        os._exit(9)
    fd.write(data[len(data)//2:])
'''


def replay_partial_library_visible():
    """Real make_dll with a compiler that has written half of the library: is a partial
    file visible (and loadable by another process) under the final cache name?  Then the
    compiler is killed: is a truncated file left under the final name?"""
    import os
    import sys
    import time
    import shutil
    import tempfile
    import threading
    import ctypes as ct
    from sasmodels import kerneldll, core, generate
    info = core.load_model_info("sphere")
    src = generate.make_source(info)["dll"]
    work = tempfile.mkdtemp(prefix="verif_c18_")
    old_path, old_cmd = kerneldll.SAS_DLL_PATH, kerneldll.compile_command
    out = {}
    try:
        d0, d1, flags = (os.path.join(work, n) for n in ("real", "cache", "flags"))
        for d in (d0, d1, flags):
            os.makedirs(d)
        kerneldll.SAS_DLL_PATH = d0
        real = kerneldll.make_dll(src, info, dtype=generate.F64)
        script = os.path.join(work, "cc.py")
        open(script, "w").write(SCRIPT)
        kerneldll.SAS_DLL_PATH = d1
        kerneldll.compile_command = lambda source, output: [sys.executable, script, real, output, flags]
        final = kerneldll.dll_path(info.id + "_" + generate.tag_source(src), generate.F64)
        err = {}

        def builder():
            try:
                kerneldll.make_dll(src, info, dtype=generate.F64)
            except Exception as exc:   # noqa
                err["exc"] = repr(exc)[:200]
        t = threading.Thread(target=builder)
        t.start()
        t0 = time.time()
        while not os.path.exists(os.path.join(flags, "half")) and time.time() - t0 < 30:
            time.sleep(0.01)
        out["final_exists_while_compiler_is_half_way"] = os.path.exists(final)
        if out["final_exists_while_compiler_is_half_way"]:
            out["size_seen"] = os.path.getsize(final)
            out["size_complete"] = os.path.getsize(real)
            # what a second process doing its first load sees (own process: loading a
            # truncated library can kill the interpreter with SIGBUS)
            import subprocess
            r = subprocess.run([sys.executable, "-c", "import ctypes,sys; ctypes.CDLL(sys.argv[1])", final],
                               capture_output=True, text=True)
            out["concurrent_load"] = "exit code %d %s" % (r.returncode, r.stderr.strip().splitlines()[-1][:120]
                                                          if r.stderr.strip() else "")
        # kill the compiler at this point
        open(os.path.join(flags, "die"), "w").close()
        open(os.path.join(flags, "go"), "w").close()
        t.join(60)
        out["after_kill_final_exists"] = os.path.exists(final)
        if out["after_kill_final_exists"]:
            out["after_kill_size"] = os.path.getsize(final)
        out["builder_exception"] = err.get("exc")
    finally:
        kerneldll.SAS_DLL_PATH, kerneldll.compile_command = old_path, old_cmd
        shutil.rmtree(work, ignore_errors=True)
    bad = bool(out.get("final_exists_while_compiler_is_half_way") or out.get("after_kill_final_exists"))
    return bad, {"call": "kerneldll.make_dll(<sphere>) with a compiler that stops after half of the output, then is killed",
                 "real": out, "spec": "the final cache name does not exist until the library is complete"}


SCRIPT2 = r'''
import sys, os, time
real, out, flags = sys.argv[1], sys.argv[2], sys.argv[3]
me = None
for k in (0, 1):
    try:
        os.close(os.open(os.path.join(flags, "id%d" % k), os.O_CREAT | os.O_EXCL))
        me = k
        break
    except FileExistsError:
        pass
data = open(real, "rb").read()
def wait(name):
    t0 = time.time()
    while not os.path.exists(os.path.join(flags, name)) and time.time() - t0 < 30:
        time.sleep(0.01)
def flag(name):
    open(os.path.join(flags, name), "w").close()
if me == 0:
    open(out, "wb").write(data)
    flag("done0"); wait("release0")
else:
    with open(out, "wb") as fd:
        fd.write(data[:len(data)//2]); fd.flush(); os.fsync(fd.fileno())
        flag("half1"); wait("go1")
        fd.write(data[len(data)//2:])
'''


def replay_two_builders():
    """Two builders of the same uncached model: A's compiler has finished, B's compiler has written
    half of its output when A publishes.  With private build locations the final name holds A's
    complete library; with a shared location it holds B's partial one."""
    import os
    import sys
    import time
    import shutil
    import tempfile
    import threading
    from sasmodels import kerneldll, core, generate
    info = core.load_model_info("sphere")
    src = generate.make_source(info)["dll"]
    work = tempfile.mkdtemp(prefix="verif_c18b_")
    old_path, old_cmd = kerneldll.SAS_DLL_PATH, kerneldll.compile_command
    out = {}
    try:
        d0, d1, flags = (os.path.join(work, n) for n in ("real", "cache", "flags"))
        for d in (d0, d1, flags):
            os.makedirs(d)
        kerneldll.SAS_DLL_PATH = d0
        real = kerneldll.make_dll(src, info, dtype=generate.F64)
        script = os.path.join(work, "cc.py")
        open(script, "w").write(SCRIPT2)
        kerneldll.SAS_DLL_PATH = d1
        kerneldll.compile_command = lambda source, output: [sys.executable, script, real, output, flags]
        final = kerneldll.dll_path(info.id + "_" + generate.tag_source(src), generate.F64)
        errs = {}

        def builder(name):
            try:
                kerneldll.make_dll(src, info, dtype=generate.F64)
            except Exception as exc:   # noqa
                errs[name] = repr(exc)[:160]

        def wait(name):
            t0 = time.time()
            while not os.path.exists(os.path.join(flags, name)) and time.time() - t0 < 30:
                time.sleep(0.01)
        ta = threading.Thread(target=builder, args=("A",))
        ta.start()
        wait("done0")
        tb = threading.Thread(target=builder, args=("B",))
        tb.start()
        wait("half1")
        open(os.path.join(flags, "release0"), "w").close()
        ta.join(60)
        out["final_exists_after_A_published"] = os.path.exists(final)
        out["size_complete"] = os.path.getsize(real)
        if out["final_exists_after_A_published"]:
            out["size_of_final_after_A_published"] = os.path.getsize(final)
        open(os.path.join(flags, "go1"), "w").close()
        tb.join(60)
        out["builder_exceptions"] = errs
        out["final_size_at_end"] = os.path.getsize(final) if os.path.exists(final) else None
    finally:
        kerneldll.SAS_DLL_PATH, kerneldll.compile_command = old_path, old_cmd
        shutil.rmtree(work, ignore_errors=True)
    bad = (out.get("size_of_final_after_A_published") not in (None, out.get("size_complete"))
           or bool(out.get("builder_exceptions")) or out.get("final_size_at_end") != out.get("size_complete"))
    return bad, {"call": "two concurrent make_dll(<sphere>) with a scripted compiler: A finished, B half way, A publishes",
                 "real": out, "spec": "the final name holds a complete library as soon as it exists; both builders succeed"}


def replay_failed_build_keeps_published():
    """A is compiling; B publishes the complete library; A's compiler fails.  The published library must stay."""
    import os
    import sys
    import time
    import shutil
    import tempfile
    import threading
    from sasmodels import kerneldll, core, generate
    info = core.load_model_info("sphere")
    src = generate.make_source(info)["dll"]
    work = tempfile.mkdtemp(prefix="verif_c18f_")
    old_path, old_cmd = kerneldll.SAS_DLL_PATH, kerneldll.compile_command
    out = {}
    script = ("import sys, os, time\nflags = sys.argv[2]\nopen(sys.argv[1], 'wb').write(b'x' * 64)\n"
              "open(os.path.join(flags, 'started'), 'w').close()\nt0 = time.time()\n"
              "while not os.path.exists(os.path.join(flags, 'fail')) and time.time() - t0 < 30: time.sleep(0.01)\n"
              "sys.exit(1)\n")
    try:
        d0, d1, flags = (os.path.join(work, n) for n in ("real", "cache", "flags"))
        for d in (d0, d1, flags):
            os.makedirs(d)
        kerneldll.SAS_DLL_PATH = d0
        real = kerneldll.make_dll(src, info, dtype=generate.F64)
        spath = os.path.join(work, "cc.py")
        open(spath, "w").write(script)
        kerneldll.SAS_DLL_PATH = d1
        kerneldll.compile_command = lambda source, output: [sys.executable, spath, output, flags]
        final = kerneldll.dll_path(info.id + "_" + generate.tag_source(src), generate.F64)
        err = {}

        def builder():
            try:
                kerneldll.make_dll(src, info, dtype=generate.F64)
            except Exception as exc:   # noqa
                err["exc"] = type(exc).__name__
        t = threading.Thread(target=builder)
        t.start()
        t0 = time.time()
        while not os.path.exists(os.path.join(flags, "started")) and time.time() - t0 < 30:
            time.sleep(0.01)
        # another process publishes the complete library (atomic rename of a private copy)
        tmp = os.path.join(d1, "other_process.tmp")
        shutil.copyfile(real, tmp)
        os.replace(tmp, final)
        open(os.path.join(flags, "fail"), "w").close()
        t.join(60)
        out["builder_raised"] = err.get("exc")
        out["published_library_still_there"] = os.path.exists(final)
        out["published_library_intact"] = os.path.exists(final) and os.path.getsize(final) == os.path.getsize(real)
    finally:
        kerneldll.SAS_DLL_PATH, kerneldll.compile_command = old_path, old_cmd
        shutil.rmtree(work, ignore_errors=True)
    bad = not out.get("published_library_intact")
    return bad, {"call": "make_dll(<sphere>) whose compiler fails after another process has published the library",
                 "real": out, "spec": "the failing build raises and leaves the published library in place"}


def replay_publication_primitive():
    """Real make_dll with the temporary directory on another file system (if one is available): which primitive
    writes the final cache name?  Anything but a rename within the cache directory's file system fills it piece by
    piece (observed by instrumenting shutil's copy functions and os.replace/os.rename during the call)."""
    import os
    import sys
    import shutil
    import tempfile
    from sasmodels import kerneldll, core, generate
    info = core.load_model_info("sphere")
    src = generate.make_source(info)["dll"]
    work = tempfile.mkdtemp(prefix="verif_c18p_")
    other = None
    for cand in ("/dev/shm", "/run/shm", "/var/tmp"):
        try:
            if os.path.isdir(cand) and os.access(cand, os.W_OK) and os.stat(cand).st_dev != os.stat(work).st_dev:
                other = tempfile.mkdtemp(prefix="verif_c18p_", dir=cand)
                break
        except OSError:
            pass
    old_path, old_tmp = kerneldll.SAS_DLL_PATH, tempfile.tempdir
    saved = (shutil.copyfile, shutil.copy2, shutil.copy, os.replace, os.rename)
    log = []
    try:
        kerneldll.SAS_DLL_PATH = os.path.join(work, "cache")
        os.makedirs(kerneldll.SAS_DLL_PATH)
        final = kerneldll.dll_path(info.id + "_" + generate.tag_source(src), generate.F64)
        if other is not None:
            tempfile.tempdir = other

        def wrap(name, fn):
            def f(a, b, *rest, **kw):
                if os.path.abspath(str(b)) == os.path.abspath(final):
                    same = os.stat(os.path.dirname(os.path.abspath(str(a)))).st_dev == os.stat(os.path.dirname(final)).st_dev
                    log.append({"primitive": name, "source": str(a), "same_file_system": bool(same)})
                return fn(a, b, *rest, **kw)
            return f
        shutil.copyfile, shutil.copy2, shutil.copy = (wrap("shutil.copyfile", saved[0]), wrap("shutil.copy2", saved[1]),
                                                      wrap("shutil.copy", saved[2]))
        os.replace, os.rename = wrap("os.replace", saved[3]), wrap("os.rename", saved[4])
        kerneldll.make_dll(src, info, dtype=generate.F64)
    finally:
        shutil.copyfile, shutil.copy2, shutil.copy, os.replace, os.rename = saved
        kerneldll.SAS_DLL_PATH, tempfile.tempdir = old_path, old_tmp
        shutil.rmtree(work, ignore_errors=True)
        if other:
            shutil.rmtree(other, ignore_errors=True)
    copies = [e for e in log if e["primitive"].startswith("shutil.copy") or not e["same_file_system"]]
    bad = bool(copies) or not any(e["primitive"] in ("os.replace", "os.rename") and e["same_file_system"] for e in log)
    if other is None and not copies:
        return False, {"note": "no second file system available"}
    return bad, {"call": "make_dll(<sphere>) with TMPDIR on another file system; primitives that wrote the final cache name",
                 "real": log, "spec": "one rename from a file in the cache directory's own file system"}


def scripted_schedules(reg, tier):
    """Bounded stand-in for the schedule / crash-point quantifier: real processes, scripted compiler."""
    where = "sasmodels/kerneldll.py:make_dll"
    bad, info = replay_partial_library_visible()
    oid = "%s.scripted.partial_library_never_visible_or_left_behind" % PROP
    if bad:
        reg.fail(oid, info, function=where, engine="runtime-contract", kind="bounded")
    else:
        reg.passed(oid, function=where, engine="runtime-contract", kind="bounded", backend="cpython",
                   bound="one builder, compiler stopped half way then killed; observer checks the final name")
    bad, info = replay_two_builders()
    oid = "%s.scripted.two_builders_one_finished_one_half_way" % PROP
    if bad:
        reg.fail(oid, info, function=where, engine="runtime-contract", kind="bounded")
    else:
        reg.passed(oid, function=where, engine="runtime-contract", kind="bounded", backend="cpython",
                   bound="two builders, A's compiler finished, B's half way when A publishes")
    bad, info = replay_failed_build_keeps_published()
    oid = "%s.scripted.failed_build_keeps_a_library_published_meanwhile" % PROP
    if bad:
        reg.fail(oid, info, function=where, engine="runtime-contract", kind="bounded")
    else:
        reg.passed(oid, function=where, engine="runtime-contract", kind="bounded", backend="cpython",
                   bound="builder A compiling, library published by another process, A's compiler exits 1")
    bad, info = replay_publication_primitive()
    oid = "%s.scripted.final_name_is_written_by_a_rename_within_the_cache_file_system" % PROP
    if bad:
        reg.fail(oid, info, function=where, engine="runtime-contract", kind="bounded")
    else:
        reg.passed(oid, function=where, engine="runtime-contract", kind="bounded", backend="cpython",
                   bound="TMPDIR on a second file system when available (%s)" % info.get("note", "second file system used"))
    bad, info = replay_killed_compiler()
    oid = "%s.scripted.killed_compiler_is_a_failed_compile" % PROP
    if bad:
        reg.fail(oid, info, function="sasmodels/kerneldll.py:compile_model", engine="runtime-contract", kind="bounded")
    else:
        reg.passed(oid, function="sasmodels/kerneldll.py:compile_model", engine="runtime-contract", kind="bounded",
                   backend="cpython", bound="compiler writes 100 bytes then is killed with SIGKILL")
    bad, info = concurrent_first_use(8 if tier == "thorough" else 4)
    oid = "%s.scripted.concurrent_first_use_all_processes_correct" % PROP
    if bad:
        reg.fail(oid, info, function=where, engine="runtime-contract", kind="bounded")
    else:
        reg.passed(oid, function=where, engine="runtime-contract", kind="bounded", backend="cpython",
                   bound="%s" % info.get("summary"))


WORKER = r'''
import sys, os
os.environ["SAS_OPENCL"] = "none"
import numpy as np
from sasmodels import core
from sasmodels.direct_model import call_kernel
m = core.load_model("sphere", dtype="double!")
q = np.array([0.01, 0.05, 0.1])
y = call_kernel(m.make_kernel([q]), {"radius": 50.0, "background": 0.0})
print(" ".join("%.12g" % v for v in y))
'''


def concurrent_first_use(nproc):
    """nproc fresh processes load the same uncompiled model against one empty cache directory."""
    import os
    import sys
    import shutil
    import tempfile
    import subprocess
    work = tempfile.mkdtemp(prefix="verif_c18c_")
    try:
        env = dict(os.environ, SAS_DLL_PATH=os.path.join(work, "cache"), SAS_OPENCL="none")
        script = os.path.join(work, "w.py")
        open(script, "w").write(WORKER)
        procs = [subprocess.Popen([sys.executable, script], env=env, stdout=subprocess.PIPE, stderr=subprocess.PIPE,
                                  text=True) for _ in range(nproc)]
        res = [p.communicate(timeout=300) + (p.returncode,) for p in procs]
        outs = [r[0].strip() for r in res]
        codes = [r[2] for r in res]
        left = sorted(os.listdir(os.path.join(work, "cache"))) if os.path.isdir(os.path.join(work, "cache")) else []
    finally:
        shutil.rmtree(work, ignore_errors=True)
    bad = any(c != 0 for c in codes) or len(set(outs)) != 1 or not outs[0]
    return bad, {"call": "%d concurrent processes: load_model('sphere') + call_kernel on an empty cache" % nproc,
                 "real": {"exit_codes": codes, "outputs": sorted(set(outs)),
                          "stderr": [r[1][-300:] for r in res if r[2] != 0][:2]},
                 "spec": "all exit 0 with identical values",
                 "summary": "%d processes, exit codes %s, %d distinct outputs, cache: %s" % (nproc, codes, len(set(outs)), left)}


def check(reg, tier):
    make_dll_atomicity(reg)
    compile_model_contract(reg)
    string_lemma(reg)
    invariant_lemma(reg)
    load_path(reg)
    scripted_schedules(reg, tier)
    reg.assume("os.replace is an atomic rename within one directory/file system (POSIX rename; Windows MoveFileEx "
               "replace-existing); the compiler writes only its -o output; tempfile.mkstemp/mkdtemp return names that are "
               "new, private to the caller and never equal to (a prefix of) a cache library name")
    reg.assume("rely/guarantee composition (every process satisfies G, therefore I holds at every step of every "
               "interleaving and after a kill at any event boundary) is the standard argument; I inductive under G is "
               "proved, the per-process guarantee G1-G4 is proved on make_dll; processes that do not run make_dll are out of scope")
    reg.assume("the in-process ctypes loading after os.path.exists (DllModel._load_dll) is under contract only for "
               "'opens exactly the returned path'")
