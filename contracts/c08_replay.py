"""Replay adapter for C08: run the real MixtureKernel.Iq next to the spec."""
import numpy as np
import z3

from vp.core import z3val, SEED

_shapes = None


def builtin_shapes():
    """(npars, nmagnetic) -> builtin model name."""
    global _shapes
    if _shapes is None:
        from sasmodels import core
        _shapes = {}
        for name in core.list_models():
            try:
                info = core.load_model_info(name)
            except Exception:
                continue
            key = (info.parameters.npars, info.parameters.nmagnetic)
            _shapes.setdefault(key, name)
            key3 = key + (len(info.parameters.kernel_parameters),)
            _shapes.setdefault(key3, name)
    return _shapes


class StubKernel(object):
    def __init__(self, info, result):
        self.info = info
        self.dtype = np.dtype("d")
        self.dim = "1d"
        self.result_values = np.asarray(result, "d")
        self.calls = []

    def __call__(self, details, values, cutoff, magnetic):
        self.calls.append((details, np.array(values), cutoff, magnetic))
        return np.array(self.result_values)

    def release(self):
        pass


def spec_part_values(op, info, part_infos, values, nw):
    """Expected value vectors, from the documented combined layout."""
    s = 1 if op == "+" else 0
    nvalues = info.parameters.nvalues
    nmag_total = info.parameters.nmagnetic
    spin = nvalues - (4 + 3 * nmag_total) if nmag_total else None
    P = 2
    M = (spin + 4) if nmag_total else None
    out = []
    for pi in part_infos:
        npk = pi.parameters.npars
        nmk = pi.parameters.nmagnetic
        Pk = P + s
        v = [values[Pk - 1] if op == "+" else 1.0, 0.0]
        v += list(values[Pk:Pk + npk])
        if nmk:
            v += list(values[spin:spin + 4])
            v += list(values[M:M + 3 * nmk])
            M += 3 * nmk
        v += list(values[nvalues:nvalues + 2 * nw])
        v += [0.0] * ((32 - len(v) % 32) % 32)
        out.append((np.array(v), Pk - 2, npk))
        P += npk + s
    return out


def run_real(op, names, R, seed=SEED, scale=None, bkg=None):
    """Returns (mismatch list, info dict)."""
    from sasmodels import core, mixture, details as det
    parts = [core.load_model_info(n) for n in names]
    info = mixture.make_mixture_info(parts, operation=op)
    rng = np.random.RandomState(seed)
    NP = info.parameters.npars
    nw = NP
    nvalues = info.parameters.nvalues
    n = nvalues + 2 * nw
    n += (32 - n % 32) % 32
    values = rng.uniform(0.5, 2.0, n)
    if scale is not None:
        values[0] = scale
    if bkg is not None:
        values[1] = bkg
    length = np.ones(NP, "i4")
    offset = np.arange(NP, dtype="i4")
    call_details = det.make_details(info, length, offset, nw)
    nq = len(R[0])
    kernels = [StubKernel(p, r) for p, r in zip(parts, R)]
    q = (np.linspace(0.01, 0.1, nq),)
    kern = mixture.MixtureKernel(info, kernels, q)
    vcopy = values.copy()
    out = kern.Iq(call_details, values, 0.0, False)
    Rarr = [np.asarray(r, "d") for r in R]
    comb = np.sum(Rarr, axis=0) if op == "+" else np.prod(Rarr, axis=0)
    expected = vcopy[0] * comb + vcopy[1]
    bad = []
    if not np.allclose(np.asarray(out, "d"), expected, rtol=1e-12, atol=1e-12):
        bad.append({"what": "result", "real": np.asarray(out).tolist(),
                    "spec": expected.tolist()})
    spec = spec_part_values(op, info, parts, vcopy, nw)
    for k, (kern_k, (sv, lo, npk)) in enumerate(zip(kernels, spec)):
        if len(kern_k.calls) != 1:
            bad.append({"what": "part %d called %d times" % (k, len(kern_k.calls))})
            continue
        d, v, cutoff, magnetic = kern_k.calls[0]
        if len(v) != len(sv) or not np.array_equal(v, sv):
            bad.append({"what": "values of part %d" % k, "real": v.tolist(), "spec": sv.tolist()})
        if not (np.array_equal(d.length, length[lo:lo + npk])
                and np.array_equal(d.offset, offset[lo:lo + npk])
                and d.num_weights == nw):
            bad.append({"what": "details of part %d" % k})
    if not np.array_equal(values, vcopy):
        bad.append({"what": "caller's values modified"})
    return bad, {"model": op.join(names), "scale": float(vcopy[0]), "background": float(vcopy[1]),
                 "part_results": [list(map(float, r)) for r in R]}


def make(op, nparts, sym, Rs, k):
    def replay(model):
        shapes = builtin_shapes()
        names = []
        for i in range(nparts):
            key = (z3val(model, sym["npars"][i]), z3val(model, sym["nmag"][i]))
            key3 = key + (z3val(model, sym["nkp"][i]),)
            names.append(shapes.get(key3) or shapes.get(key)
                         or ["line", "sphere", "cylinder", "guinier"][i % 4])
        nq = max(1, min(int(z3val(model, sym["nq"])), 6))
        R = [[z3val(model, Rk(z3.IntVal(j))) for j in range(nq)] for Rk in Rs]
        # make sure the q index the solver chose is among those replayed
        for d in model.decls():
            if d.name() == "jq":
                jq = model[d].as_long()
                if jq >= nq:
                    R = [r + [z3val(model, Rk(z3.IntVal(jq)))] for r, Rk in zip(R, Rs)]
        tried = []
        generic = [["line", "sphere", "cylinder", "guinier"][:nparts],
                   ["core_multi_shell", "sphere", "onion", "line"][:nparts],
                   ["sphere", "core_multi_shell", "line", "onion"][:nparts]]
        for attempt, nm in enumerate([names] + generic):
            try:
                bad, info = run_real(op, nm, R)
            except Exception as exc:
                tried.append({"names": nm, "error": repr(exc)})
                continue
            tried.append({"names": nm, "mismatches": bad, "call": info})
            if bad:
                return True, {"call": "MixtureKernel(make_mixture_info(%r,%r), stub kernels).Iq(...)" % (nm, op),
                              "inputs": info, "mismatches": bad}
        return False, {"tried": tried}
    return replay


def replay_magnetic_flag(model):
    """Two parts with SLDs, only the first magnetised, polarised beam: the
    mixture against the sum of its parts evaluated alone (real DirectModel)."""
    import numpy as np
    from sasmodels.core import load_model
    from sasmodels.data import empty_data2D
    from sasmodels.direct_model import DirectModel
    q = np.linspace(-0.05, 0.05, 5)
    data = empty_data2D(q, q, resolution=0.0)
    common = dict(up_frac_i=0.3, up_frac_f=0.8, up_theta=40.0, up_phi=55.0)
    pa = dict(radius=40.0, sld=3.0, sld_solvent=1.0, sld_M0=2.0, sld_mtheta=30.0, sld_mphi=20.0)
    pb = dict(radius=15.0, length=80.0, sld=4.0, sld_solvent=1.0, theta=30.0, phi=10.0)
    mix = DirectModel(data, load_model("sphere+cylinder"))
    pars = dict(scale=1.0, background=0.0, A_scale=1.0, B_scale=1.0, **common)
    pars.update(("A_" + k, v) for k, v in pa.items())
    pars.update(("B_" + k, v) for k, v in pb.items())
    total = mix(**pars)
    ia = DirectModel(data, load_model("sphere"))(scale=1.0, background=0.0, **common, **pa)
    ib = DirectModel(data, load_model("cylinder"))(scale=1.0, background=0.0, **pb)
    err = float(np.max(np.abs(total - (ia + ib)) / np.abs(ia + ib)))
    info = {"call": "DirectModel(2-D data, 'sphere+cylinder') with only A magnetised, "
                    "up_frac_i=0.3, up_frac_f=0.8",
            "max_relative_difference_to_sum_of_parts_alone": err}
    return err > 1e-6, info
