"""Lean-checked generic lemmas (lemmas/Sas.lean): run the Lean checker and record one
obligation per lemma a property relies on.  The lemmas are independent of /repo; the
contract checks prove the hypotheses of each instance on the real code."""
import os
import re
import subprocess
import time

HERE = os.path.dirname(os.path.dirname(os.path.abspath(__file__)))
_result = {}


def lean_lemmas(reg, prop, names):
    path = os.path.join(HERE, "lemmas", "Sas.lean")
    text = open(path).read()
    if "res" not in _result:
        t0 = time.time()
        try:
            r = subprocess.run(["lean", path], capture_output=True, text=True, timeout=1500)
            _result["res"] = (r.returncode, (r.stdout + r.stderr)[-800:], time.time() - t0)
        except Exception as exc:      # noqa
            _result["res"] = (99, repr(exc), time.time() - t0)
    code, out, dt = _result["res"]
    bad_words = re.search(r"\b(sorry|admit|axiom)\b", re.sub(r"/-.*?-/", "", text, flags=re.S))
    for nm in names:
        oid = "%s.lean.%s" % (prop, nm)
        if ("theorem %s " % nm) not in text and ("theorem %s\n" % nm) not in text:
            reg.undecided(oid, "lemma %s not found in lemmas/Sas.lean" % nm, function="lemmas/Sas.lean", engine="lean")
        elif code == 0 and "error" not in out and not bad_words:
            reg.passed(oid, function="lemmas/Sas.lean:%s" % nm, engine="lean", backend="lean4+mathlib",
                       seconds=dt / max(1, len(names)))
        else:
            reg.undecided(oid, "lean did not accept lemmas/Sas.lean: %s" % out[-300:], function="lemmas/Sas.lean",
                          engine="lean")
