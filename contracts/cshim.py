"""Replay support: compile the *generated* source of a model with a small
exporting shim appended (the repository files are not touched; the shim only
forwards arguments to the static functions) and call it through ctypes."""
import ctypes
import os
import subprocess
import numpy as np

_libs = {}

SHIM = r'''
/* ---- exporting shim appended by /verif/contracts/cshim.py (replay only) ---- */
#ifdef _QAC_SECTION
void verif_qac(double theta, double phi, double dtheta, double dphi, double qx, double qy, double *out)
{ QACRotation r; qac_rotation(&r, theta, phi, dtheta, dphi); qac_apply(&r, qx, qy, &out[0], &out[1]); }
#endif
#ifdef _QABC_SECTION
void verif_qabc(double theta, double phi, double psi, double dtheta, double dphi, double dpsi,
                double qx, double qy, double *out)
{ QABCRotation r; qabc_rotation(&r, theta, phi, psi, dtheta, dphi, dpsi);
  qabc_apply(&r, qx, qy, &out[0], &out[1], &out[2]); }
#endif
%(mag)s
'''
MAG = r'''
void verif_spin_weights(double i, double f, double *w) { set_spin_weights(i, f, w); }
double verif_mag_sld(unsigned int xs, double qx, double qy, double cmt, double smt, double cmp_, double smp,
                     double sld, double mx, double my, double mz)
{ return mag_sld(xs, qx, qy, cmt, smt, cmp_, smp, sld, mx, my, mz); }
'''


class Lib(object):
    def __init__(self, path):
        self.dll = ctypes.CDLL(path)
        d = ctypes.c_double

        def has(n):
            return hasattr(self.dll, n)
        if has("verif_qac"):
            self.dll.verif_qac.argtypes = [d] * 6 + [ctypes.POINTER(d)]
        if has("verif_qabc"):
            self.dll.verif_qabc.argtypes = [d] * 8 + [ctypes.POINTER(d)]
        if has("verif_spin_weights"):
            self.dll.verif_spin_weights.argtypes = [d, d, ctypes.POINTER(d)]
            self.dll.verif_mag_sld.argtypes = [ctypes.c_uint] + [d] * 10
            self.dll.verif_mag_sld.restype = d

    def qac(self, *a):
        out = (ctypes.c_double * 2)()
        self.dll.verif_qac(*a, out)
        return np.array(list(out))

    def qabc(self, *a):
        out = (ctypes.c_double * 3)()
        self.dll.verif_qabc(*a, out)
        return np.array(list(out))

    def spin_weights(self, i, f):
        out = (ctypes.c_double * 6)()
        self.dll.verif_spin_weights(i, f, out)
        return np.array(list(out))

    def mag_sld(self, xs, *a):
        return self.dll.verif_mag_sld(int(xs), *a)


def build(model):
    if model in _libs:
        return _libs[model]
    from sasmodels import core, generate
    info = core.load_model_info(model)
    src = generate.make_source(info)["dll"]
    has_mag = "static double mag_sld(" in src and info.parameters.nmagnetic > 0
    src = src + SHIM % {"mag": MAG if has_mag else ""}
    scratch = os.environ.get("VERIF_SCRATCH") or "/tmp"
    cpath = os.path.join(scratch, "shim_%s_%d.c" % (model, os.getpid()))
    so = cpath[:-2] + ".so"
    open(cpath, "w").write(src)
    subprocess.check_call(["cc", "-shared", "-fPIC", "-O1", "-std=c99", "-w", "-o", so, cpath, "-lm"])
    os.unlink(cpath)
    _libs[model] = Lib(so)
    return _libs[model]
