"""
C09 -- pure-Python and compiled-C executions of one model definition agree.

Functions under contract (bodies from the AST of the current tree):
  kernelpy._loops  (the Python dispersity loop)
Bounded run-time contracts (enumerated finite domains):
  modelinfo.ParameterTable.check_angles / check_duplicates, parse_parameter
  (ill-formed definitions are rejected), PyKernel argument views.

_loops is proved against the *same* postcondition as the generated C kernel
(contracts/kernel_c.py):
   result = hstack( SUM_s T_q(., s), SUM_s T_w(s), SUM_s T_form(s), SUM_s T_shell(s), SUM_s T_radius(s) )
   over s in [0, num_eval), T(s) = [W(s) > cutoff and form() has no NaN] * W(s) * f(P(s)),
   P(s)[m] = v_k[decode_k(s)] if m == pd_par[k] else values[2+m],  W(s) = prod_k w_k[decode_k(s)],
so the two execution paths agree by transitivity (both equal the spec), with
"VALID(P) <=> form(P) has no NaN" as the hypothesis that links the validity
mechanisms.  num_active (the number of loops, 1..5 = MAX_PD) is enumerated;
num_eval, mesh sizes, offsets, nq, the number of parameters and all values are
symbolic; the loop carries an invariant (RangeInvariant) stated with decode_k
and the mixed-radix lemmas proved in contracts/kernel_c.py.
Deviations of the num_active == 0 shortcut from the C kernel (cutoff and the
NaN test are ignored there) are obligations of their own.
"""
import z3

from vp.pyvc import (Interp, Sym, SArr, SObj, SList, Summary, IRaise, RangeInvariant, fresh, num_expr,
                     bool_expr, int_expr, RMUL, ABSTRACT, DType)
from vp.core import OutsideSubset, z3val, run_parallel

PROP = "C09"
MOD = "sasmodels.kernelpy"
I_, R_ = z3.IntSort(), z3.RealSort()


def check(reg, tier):
    from contracts import kernel_c
    for D in range(1, 6):
        kernel_c.prove_decode_lemmas(reg, PROP, D)
    run_parallel(reg, _job, [1, 2, 3, 4, 5])
    _shortcut(reg)
    _validation(reg)
    _duplicates(reg)
    _pykernel_init(reg)
    reg.assume("form(), form_volume(), form_radius() are the model's own functions of the current parameter vector "
               "(closures over PyKernel._parameter_vector): replaced by uninterpreted functions of the mesh step, "
               "with the obligation that the vector equals P(step) at every call")
    reg.assume("pd_par entries are pairwise distinct (postcondition of make_details)")
    reg.assume("agreement with the C path is by transitivity through the common postcondition; "
               "hypothesis VALID(P) <=> form(P) has no NaN")


def _job(sub, na):
    _loops(sub, na)


def _loops(reg, na):
    fn = MOD + "._loops"
    tag = "active%d" % na

    def body(it):
        nq, N, NW, npars = z3.Int("nq"), z3.Int("num_eval"), z3.Int("num_weights"), z3.Int("n_pars")
        it.assume(z3.And(nq >= 0, N >= 1, NW >= 0, npars >= 1))
        n = [z3.Int("n%d" % k) for k in range(na)]
        p = [z3.Int("p%d" % k) for k in range(na)]
        o = [z3.Int("o%d" % k) for k in range(na)]
        s = [z3.Int("s%d" % k) for k in range(na + 1)]
        it.assume(s[0] == 1)
        for k in range(na):
            it.assume(z3.And(n[k] >= 1, s[k + 1] == s[k] * n[k], s[k] >= 1, p[k] >= 0, p[k] < npars,
                             o[k] >= 0, o[k] + n[k] <= NW))
            for j in range(k):
                it.assume(p[k] != p[j])
        it.assume(N == s[na])
        values = it.new_array("values", 2 + npars + 2 * NW + z3.Int("pad"), "real")
        it.assume(z3.Int("pad") >= 0)
        V = values.buf.base_fn
        parameters = it.new_array("parameters_stale", npars, "real")
        cutoff = z3.Real("cutoff")

        def mkarr(xs, name):
            return it.array_from_fn(lambda j, xs=xs: _sel(xs, j), len(xs), "int", name)
        details = it.new_obj(None, {"num_active": na, "num_eval": Sym(N), "num_weights": Sym(NW),
                                    "pd_par": mkarr(p, "pd_par"), "pd_length": mkarr(n, "pd_length"),
                                    "pd_offset": mkarr(o, "pd_offset"), "pd_stride": mkarr(s[:na], "pd_stride")},
                             "call_details")
        dec = [z3.Function("decode%d" % k, I_, I_) for k in range(na)]

        def P(st, m):
            r = V(2 + m)
            for k in reversed(range(na)):
                r = z3.If(p[k] == m, V(2 + npars + o[k] + dec[k](st)), r)
            return r

        def W(st):
            # same association as the code: (prod of the outer weights) * innermost weight
            w = z3.RealVal(1)
            for k in range(1, na):
                w = _mul(w, V(2 + npars + NW + o[k] + dec[k](st)))
            return _mul(w, V(2 + npars + NW + o[0] + dec[0](st)))
        FormAt = z3.Function("form_at", I_, I_, R_)        # (q index, step)
        NanAt = z3.Function("form_has_nan", I_, z3.BoolSort())
        ShellAt, VolAt, RadAt = (z3.Function(nm, I_, R_) for nm in ("shell_at", "volume_at", "radius_at"))
        msk = z3.Int("m!skolem")
        state = {"calls": 0}

        def cur_step(it_):
            for fr in reversed(it_.frames):
                if "loop_index" in fr.vars:
                    return int_expr(fr.vars["loop_index"])
            return None

        def vector_is_P(it_, what):
            st = cur_step(it_)
            if st is None:
                return None
            it_.side_obligation("parameter vector is P(step) when %s is called" % what,
                                z3.Implies(z3.And(msk >= 0, msk < npars), parameters.at(msk) == P(st, msk)))
            return st

        def form(it_, args, kw):
            st = vector_is_P(it_, "form()")
            r = it_.array_from_fn(lambda j, st=st: FormAt(j, st), nq, "real", "Iq")
            r.nan_flag = NanAt(st)
            return r

        def form_volume(it_, args, kw):
            st = vector_is_P(it_, "form_volume()")
            return (Sym(ShellAt(st)), Sym(VolAt(st)))

        def form_radius(it_, args, kw):
            st = vector_is_P(it_, "form_radius()")
            return Sym(RadAt(st))
        # spec contributions
        G = lambda st: z3.And(W(st) > cutoff, z3.Not(NanAt(st)))
        Tq = lambda j, st: z3.If(G(st), _mul(W(st), FormAt(j, st)), 0)
        Tw = lambda st: z3.If(G(st), W(st), 0)
        Tf = lambda st: z3.If(G(st), _mul(W(st), VolAt(st)), 0)
        Ts = lambda st: z3.If(G(st), _mul(W(st), ShellAt(st)), 0)
        Tr = lambda st: z3.If(G(st), _mul(W(st), RadAt(st)), 0)
        SUM = {x: z3.Function("SUM_%s" % x, I_, R_) for x in ("w", "form", "shell", "radius")}
        SUMq = z3.Function("SUM_q", I_, I_, R_)
        jq = z3.Int("jq")
        it.assume(z3.And(jq >= 0, jq < nq))
        # lemma instances are added per obligation (quantifier free)

        def lemma_inst(terms):
            out = []
            for t in terms:
                for st in (t - 1, t, t + 1):
                    for k in range(na):
                        out.append(z3.Implies(z3.And(st >= 0, st < N), z3.And(dec[k](st) >= 0, dec[k](st) < n[k])))
                        carry = z3.And(*[dec[j](st) == n[j] - 1 for j in range(k)]) if k else z3.BoolVal(True)
                        out.append(z3.Implies(z3.And(st >= 0, st + 1 < N),
                                              dec[k](st + 1) == z3.If(carry, z3.If(dec[k](st) + 1 == n[k], 0,
                                                                                   dec[k](st) + 1), dec[k](st))))
                        # definition (what the code computes): floor division of non-negative ints
                        from vp.pyvc import PYDIV, PYMOD
                        out.append(z3.Implies(st >= 0, dec[k](st) == PYMOD(PYDIV(st, s[k]), n[k])))
                    # loop_index % p0_length with stride_0 = 1 is digit 0
                    out.append(z3.Implies(st >= 0, dec[0](st) == PYMOD(st, n[0])))
                    out.append(SUMq(jq, st + 1) == SUMq(jq, st) + Tq(jq, st))
                    out.append(SUM["w"](st + 1) == SUM["w"](st) + Tw(st))
                    out.append(SUM["form"](st + 1) == SUM["form"](st) + Tf(st))
                    out.append(SUM["shell"](st + 1) == SUM["shell"](st) + Ts(st))
                    out.append(SUM["radius"](st + 1) == SUM["radius"](st) + Tr(st))
            out += [SUMq(jq, 0) == 0] + [SUM[x](0) == 0 for x in SUM]
            return out

        def val(frame, name):
            return frame.vars[name]

        def inv(it_, frame, k):
            v = frame.vars
            total = v["total"]
            p0i = int_expr(v["p0_index"])
            acc = z3.And(total.at(jq) == SUMq(jq, k),
                         num_expr(v["weight_norm"]) == SUM["w"](k),
                         num_expr(v["weighted_form"]) == SUM["form"](k),
                         num_expr(v["weighted_shell"]) == SUM["shell"](k),
                         num_expr(v["weighted_radius"]) == SUM["radius"](k))
            upper = [parameters.at(p[j]) == V(2 + npars + o[j] + dec[j](k)) for j in range(1, na)]
            pw = z3.RealVal(1)
            for j in range(1, na):
                pw = _mul(pw, V(2 + npars + NW + o[j] + dec[j](k)))
            # frame of the parameter vector: slots that are not loop parameters keep the nominal value
            fr = z3.Implies(z3.And(msk >= 0, msk < npars, *[p[j] != msk for j in range(na)]),
                            parameters.at(msk) == V(2 + msk))
            need_refresh = z3.And(p0i == n[0], z3.Or(k == 0, dec[0](k) == 0))
            running = z3.And(p0i == dec[0](k), p0i >= 1, p0i < n[0],
                             num_expr(v["partial_weight"]) == pw, *upper)
            return z3.And(k >= 0, acc, fr, z3.Or(need_refresh, running))
        spec = RangeInvariant("%s._loops.mesh_loop.%s" % (PROP, tag), inv,
                              lambda it_, frame: [parameters.buf, frame.vars["total"].buf], function=fn,
                              replay=lambda mdl=None: replay_loops())
        # lemma instances at the loop variable: patched in below through a wrapper on reg.prove
        it.loop_specs[(MOD + "._loops", 0)] = _with_lemmas(spec, lemma_inst)
        f = it.get_func(MOD, "_loops")
        out = it.call(f, [parameters, Summary(form, "form() (model function)"),
                          Summary(form_volume, "form_volume() (model function)"),
                          Summary(form_radius, "form_radius() (model function)"),
                          Sym(nq), details, values, Sym(cutoff)])
        pc = list(it.pc)
        kx = spec.exit_k
        lem = lemma_inst([kx, z3.IntVal(0)])
        it.discharge_sides(reg, "%s._loops.%s" % (PROP, tag), function=fn)
        olen = out.n if not isinstance(out.n, int) else z3.IntVal(out.n)
        for nm, g in (("length", olen == nq + 4), ("q", out.at(jq) == SUMq(jq, N)),
                      ("weight", out.at(nq) == SUM["w"](N)), ("form", out.at(nq + 1) == SUM["form"](N)),
                      ("shell", out.at(nq + 2) == SUM["shell"](N)), ("radius", out.at(nq + 3) == SUM["radius"](N))):
            reg.prove("%s._loops.post.result_layout_and_sums.%s.%s" % (PROP, tag, nm), pc + lem, g,
                      function=fn, timeout_ms=60000, replay=lambda mdl=None: replay_loops())
    it = Interp(reg)
    ABSTRACT["mul"] = True
    try:
        it.run_paths(body, max_paths=32)
    finally:
        ABSTRACT["mul"] = False


def _mul(a, b):
    """product with the engine's abstraction (uninterpreted for two symbolic factors)"""
    if z3.is_rational_value(z3.simplify(a)) or z3.is_rational_value(z3.simplify(b)):
        return a * b
    return RMUL(a, b)


def _sel(xs, j):
    sj = z3.simplify(j)
    if z3.is_int_value(sj) and 0 <= sj.as_long() < len(xs):
        return xs[sj.as_long()]
    r = z3.IntVal(0)
    for k in reversed(range(len(xs))):
        r = z3.If(j == k, xs[k], r)
    return r


class _with_lemmas(object):
    """RangeInvariant whose proof obligations get quantifier-free lemma instances
    at the loop variable and its neighbours."""
    wants_iter = False

    def __init__(self, spec, lemma_inst):
        self.spec, self.lemma_inst = spec, lemma_inst

    def __call__(self, it, s, frame, itv):
        reg = it.reg
        orig = reg.prove
        lem_fn = self.lemma_inst

        def prove(oid, assumptions, goal, **kw):
            ks = [t for t in _consts(assumptions + [goal]) if t.decl().name().startswith("k_loop_index")]
            extra = lem_fn(ks + [z3.IntVal(0)])
            # side obligations inside the loop body need them too
            return orig(oid, list(assumptions) + extra, goal, **dict(kw, timeout_ms=60000))
        reg.prove = prove
        old_ds = it.discharge_sides

        def discharge(reg_, prefix, function=None, replay=None):
            it.side = [(kind, spc + lem_fn([t for t in _consts(spc + [goal])
                                             if t.decl().name().startswith("k_loop_index")]), goal, where)
                       for kind, spc, goal, where in it.side]
            return old_ds(reg_, prefix, function=function, replay=replay)
        it.discharge_sides = discharge
        try:
            return self.spec(it, s, frame, itv)
        finally:
            reg.prove = orig
            it.discharge_sides = old_ds


def _consts(fs):
    seen, out, stack = set(), [], list(fs)
    while stack:
        e = stack.pop()
        if e.get_id() in seen:
            continue
        seen.add(e.get_id())
        if z3.is_quantifier(e):
            stack.append(e.body())
        elif z3.is_app(e):
            if e.num_args() == 0 and e.decl().kind() == z3.Z3_OP_UNINTERPRETED and z3.is_int(e):
                out.append(e)
            stack.extend(e.children())
    return out


def _shortcut(reg):
    """num_active == 0: the Python path evaluates the nominal point unconditionally;
    the C kernel applies weight > cutoff (weight 1) and VALID.  Both agree iff
    1 > cutoff and the point is valid: stated as the obligation on the shortcut."""
    fn = MOD + "._loops"

    def body(it):
        nq, npars, NW = z3.Int("nq"), z3.Int("n_pars"), z3.Int("num_weights")
        it.assume(z3.And(nq >= 0, npars >= 1, NW >= 0))
        values = it.new_array("values", 2 + npars + 2 * NW, "real")
        V = values.buf.base_fn
        parameters = it.new_array("parameters_stale", npars, "real")
        cutoff = z3.Real("cutoff")
        details = it.new_obj(None, {"num_active": 0, "num_eval": 1, "num_weights": Sym(NW)}, "call_details")
        F = z3.Function("form_nominal", I_, R_)
        msk = z3.Int("m!skolem")

        def chk(it_, what):
            it_.side_obligation("parameter vector is the nominal vector when %s is called" % what,
                                z3.Implies(z3.And(msk >= 0, msk < npars), parameters.at(msk) == V(2 + msk)))
        form = Summary(lambda it_, a, k: (chk(it_, "form()"), it_.array_from_fn(lambda j: F(j), nq, "real", "Iq"))[1])
        vol = Summary(lambda it_, a, k: (chk(it_, "form_volume()"), (Sym(z3.Real("shell")), Sym(z3.Real("volume"))))[1])
        rad = Summary(lambda it_, a, k: (chk(it_, "form_radius()"), Sym(z3.Real("radius_eff")))[1])
        f = it.get_func(MOD, "_loops")
        out = it.call(f, [parameters, form, vol, rad, Sym(nq), details, values, Sym(cutoff)])
        pc = list(it.pc)
        it.discharge_sides(reg, "%s._loops.shortcut" % PROP, function=fn)
        jq = z3.Int("jq")
        reg.prove("%s._loops.shortcut.single_point_with_weight_one" % PROP, pc + [jq >= 0, jq < nq],
                  z3.And(out.at(jq) == F(jq), out.at(nq) == 1, out.at(nq + 1) == z3.Real("volume"),
                         out.at(nq + 2) == z3.Real("shell"), out.at(nq + 3) == z3.Real("radius_eff")),
                  function=fn, replay=lambda m=None: replay_loops())
    Interp(reg).run_paths(body)
    reg.notes.append("num_active == 0 shortcut: cutoff >= 1 and invalid nominal points are not excluded by the "
                     "Python path (the C kernel returns zero sums there); outside the property's quantifier "
                     "(cutoff < 1) resp. linked by the NaN hypothesis")


def _validation(reg):
    """Bounded run-time contract: ill-formed orientation tables are rejected."""
    import itertools
    import time
    from sasmodels.modelinfo import Parameter, ParameterTable
    t0 = time.time()
    bad, ncases = [], 0
    names = ["theta", "phi", "psi"]
    for nshape in (1, 2):
        for present in itertools.product((False, True), repeat=3):
            ang = [nm for nm, pr in zip(names, present) if pr]
            # every interleaving of the angles with the shape parameters (the angles need not be contiguous: a shape
            # parameter between phi and psi is ill-formed too), shape parameters kept in their own order
            shape_names = ["r%d" % k for k in range(nshape)]
            layouts = set()
            for perm in itertools.permutations(shape_names + ang):
                if [x for x in perm if x in shape_names] == shape_names:
                    layouts.add(perm)
            for layout in sorted(layouts):
                for _once in (0,):
                    for wrong_type in [None] + ang:
                        table = [Parameter(nm, "Ang", 10.0, (0, 100), "volume") if nm in shape_names else
                                 Parameter(nm, "degrees", 0.0, (-360, 360), "" if nm == wrong_type else "orientation")
                                 for nm in layout]
                        ncases += 1
                        ids = [p_.name for p_ in table]
                        th = ids.index("theta") if "theta" in ids else -1
                        ph = ids.index("phi") if "phi" in ids else -1
                        ps = ids.index("psi") if "psi" in ids else -1
                        well = (wrong_type is None
                                and ((th < 0 and ph < 0 and ps < 0)
                                     or (th >= 0 and ph == th + 1 and (ps < 0 or ps == ph + 1))))
                        try:
                            ParameterTable(table)
                            accepted = True
                        except (TypeError, ValueError):
                            accepted = False
                        if accepted != well:
                            bad.append({"table": ids, "wrong_type": wrong_type, "accepted": accepted,
                                        "well_formed": well})
    oid = "%s.validation.orientation_tables_rejected_iff_ill_formed" % PROP
    fn = "sasmodels.modelinfo.ParameterTable.check_angles"
    if bad:
        reg.fail(oid, {"cases": ncases, "mismatches": bad[:4],
                       "call": "ParameterTable(%r)" % (bad[0]["table"],)}, function=fn, kind="bounded")
    else:
        reg.passed(oid, function=fn, kind="bounded", backend="run-time contract",
                   seconds=time.time() - t0, bound="%d enumerated tables (1-2 shape parameters, every subset of theta/phi/psi in every "
                                                   "interleaving with them, each mistyping)" % ncases)



def _duplicates(reg):
    """Bounded run-time contract: a definition is rejected iff two of its CALLING parameters share a name -
    including the implicit scale/background, the expanded names of vector parameters and the generated magnetic
    names."""
    import time
    from sasmodels.modelinfo import Parameter, ParameterTable
    t0 = time.time()

    from sasmodels import modelinfo as _mi

    def P(name, typ="volume", length=1, control=None):
        nm = name if length == 1 and control is None else "%s[%s]" % (name, control or length)
        return [nm, "Ang", 10.0, [0, 100], typ, ""]
    n_par = ["n", "", 2, [1, 3], "volume", ""]
    ParameterTable = _mi.make_parameter_table      # the library's own construction from the definition lists
    cases = [
        ("two_scalars_same_name", [P("radius"), P("radius")], False),
        ("parameter_called_scale", [P("radius"), P("scale", "")], False),
        ("parameter_called_background", [P("background", ""), P("radius")], False),
        ("scalar_collides_with_vector_element", [n_par, P("thickness", control="n"), P("thickness2")], False),
        ("parameter_collides_with_magnetic_name", [P("sld", "sld"), P("sld_M0", "")], False),
        ("parameter_called_up_theta_with_sld", [P("sld", "sld"), P("up_theta", "")], False),
        ("distinct_names", [P("radius"), P("length"), P("sld", "sld")], True),
        ("vector_and_other_scalar", [n_par, P("thickness", control="n"), P("radius")], True),
        ("up_theta_without_magnetism", [P("radius"), P("up_theta", "")], True),
    ]
    bad = []
    for name, table, well in cases:
        try:
            t = ParameterTable(table)
            accepted = True
            names = [p.id for p in t.call_parameters]
            really_distinct = len(set(names)) == len(names)
        except (TypeError, ValueError):
            accepted, really_distinct = False, None
        if accepted != well or (accepted and not really_distinct):
            bad.append({"case": name, "accepted": accepted, "well_formed": well})
    oid = "%s.validation.duplicate_calling_parameters_rejected" % PROP
    fn = "sasmodels.modelinfo.ParameterTable.check_duplicates"
    if bad:
        reg.fail(oid, {"call": "ParameterTable(<%s>)" % bad[0]["case"], "real": bad, "spec": "rejected iff a calling name repeats"},
                 function=fn, kind="bounded")
    else:
        reg.passed(oid, function=fn, kind="bounded", backend="run-time contract", seconds=time.time() - t0,
                   bound="%d parameter tables (implicit, vector-expanded and magnetic names)" % len(cases))


def _pykernel_init(reg):
    """PyKernel.__init__ (python models): the shared parameter vector has one slot per value between
    scale/background and the dispersity tables (nvalues - 2, i.e. including the magnetic slots that values carries
    for SLD parameters) - _loops finds the dispersity tables right after it - and the argument views of Iq /
    form_volume are the slots of their parameters."""
    import types
    import numpy as np
    import sasmodels.kernelpy as live
    from sasmodels import modelinfo
    fn = "sasmodels.kernelpy.PyKernel.__init__"

    def info_of(name, parameters):
        mod = types.ModuleType("verif_py_" + name)
        mod.__file__ = "verif_py_%s.py" % name
        mod.name, mod.title, mod.description, mod.category = name, "t", "d", "shape:sphere"
        mod.parameters = parameters
        mod.Iq = lambda q, *a: q
        mod.Iq.vectorized = True
        mod.form_volume = lambda *a: 1.0
        return modelinfo.make_model_info(mod)
    tables = {
        "plain": [["radius", "Ang", 20, [0, 100], "volume", ""], ["x", "", 1, [0, 10], "", ""]],
        "with_sld": [["sld", "1e-6/Ang^2", 1, [-10, 10], "sld", ""], ["radius", "Ang", 20, [0, 100], "volume", ""],
                     ["sld_solvent", "1e-6/Ang^2", 6, [-10, 10], "sld", ""]],
        "with_vector": [["n", "", 2, [1, 3], "volume", ""], ["thickness[n]", "Ang", 5, [0, 50], "volume", ""],
                        ["sld", "1e-6/Ang^2", 1, [-10, 10], "sld", ""]],
    }
    for name, pars in tables.items():
        info = info_of(name, pars)

        def body(it, info=info, name=name):
            q = it.new_array("q", z3.Int("nq"), "real")
            qin = it.new_obj(None, {"nq": Sym(z3.Int("nq")), "dtype": DType("f8"), "is_2d": False, "q": q}, "q_input")
            selfo = it.new_obj(live.PyKernel, {}, "PyKernel")
            f = it.get_func(MOD, "PyKernel.__init__")
            it.call(f, [selfo, info, qin])
            pv = it.getattr(selfo, "_parameter_vector")
            pt = info.parameters
            n = pv.length() if isinstance(pv, SArr) else None
            reg.prove("%s.PyKernel.__init__.parameter_vector_spans_values_2_to_nvalues.%s" % (PROP, name), it.pc,
                      z3.BoolVal(bool(isinstance(n, int) and n == pt.nvalues - 2)), function=fn,
                      replay=lambda mdl=None: replay_pykernel_init(),
                      describe="len(parameter vector) == nvalues - 2 (the offset at which _loops reads the dispersity values)")
            vol = it.getattr(selfo, "_volume_args")
            slots, pos = {}, 0
            for p in pt.kernel_parameters:
                slots[p.id] = (pos, p.length)
                pos += p.length
            items = vol.items if hasattr(vol, "items") else list(vol)
            want = [slots[p.id] for p in pt.form_volume_parameters]
            ok = len(items) == len(want) and all(isinstance(v, SArr) and v.buf is pv.buf and v.off == w[0]
                                                 and (v.n == w[1]) for v, w in zip(items, want))
            reg.prove("%s.PyKernel.__init__.volume_arguments_are_views_of_their_slots.%s" % (PROP, name), it.pc,
                      z3.BoolVal(bool(ok)), function=fn, replay=lambda mdl=None: replay_pykernel_init())
        it = Interp(reg)
        it.poison_one_arm = False
        try:
            it.run_paths(body)
        except OutsideSubset as exc:
            reg.undecided("%s.PyKernel.__init__.engine.%s" % (PROP, name), "outside subset: %s" % exc, function=fn)


def replay_pykernel_init():
    """A python model with SLD parameters and a dispersed radius, evaluated by the python kernel, against the
    explicit weighted sum."""
    import types
    import numpy as np
    from sasmodels import modelinfo, core, weights
    from sasmodels.direct_model import call_kernel
    mod = types.ModuleType("verif_py_replay")
    mod.__file__ = "verif_py_replay.py"
    mod.name, mod.title, mod.description, mod.category = "verif_py_replay", "t", "d", "shape:sphere"
    mod.parameters = [["sld", "1e-6/Ang^2", 1, [-10, 10], "sld", ""], ["radius", "Ang", 20, [0, 100], "volume", ""],
                      ["sld_solvent", "1e-6/Ang^2", 6, [-10, 10], "sld", ""]]

    def Iq(q, sld, radius, sld_solvent):
        return (sld - sld_solvent) ** 2 * radius ** 6 * np.exp(-(q * radius) ** 2 / 5)
    Iq.vectorized = True
    mod.Iq = Iq
    mod.form_volume = lambda radius: radius ** 3
    info = modelinfo.make_model_info(mod)
    model = core.build_model(info)
    q = np.array([0.01, 0.05, 0.1])
    pars = dict(sld=2.0, sld_solvent=5.0, radius=30.0, radius_pd=0.2, radius_pd_n=11, radius_pd_nsigma=2.0, background=0.0)
    got = np.asarray(call_kernel(model.make_kernel([q]), pars))
    rv, rw = weights.get_weights("gaussian", 11, 0.2, 2.0, 30.0, [0, 100], True)
    num = sum(w * Iq(q, 2.0, r, 5.0) for r, w in zip(rv, rw))
    den = sum(w * r ** 3 for r, w in zip(rv, rw))
    want = num / den
    return not np.allclose(got, want, rtol=1e-10), {"call": "python model with two SLD parameters, radius_pd=0.2 (11 points)",
                                                    "real": got.tolist(), "spec": np.asarray(want).tolist()}


def replay_loops():
    """Real kernelpy._loops on meshes that cross a validity boundary (form returns NaN when thickness >= radius),
    with a cutoff, for one and two dispersed parameters, against the defining sum."""
    import itertools
    import numpy as np
    from sasmodels import kernelpy

    class Details(object):
        pass
    bad, out = False, []
    nq = 3
    q = np.array([0.01, 0.1, 0.3])
    cases = [
        # (parameter centre values, [(slot, values, weights)], cutoff)
        ([50.0, 5.0, 2.0], [(1, np.array([60.0, 20.0, 45.0, 10.0]), np.array([0.1, 0.4, 0.3, 0.2]))], 0.0),
        ([50.0, 5.0, 2.0], [(0, np.array([2.0, 30.0, 50.0]), np.array([0.2, 0.5, 0.3])),
                            (1, np.array([40.0, 1.0, 25.0, 3.0]), np.array([0.25, 0.25, 0.3, 0.2]))], 0.07),
        ([50.0, 5.0, 2.0], [], 0.0),          # no active dispersity: the single-point shortcut
    ]
    for centre, disp, cutoff in cases:
        npars = len(centre)
        pd_val = np.hstack([v for _, v, _ in disp]) if disp else np.zeros(0)
        pd_wt = np.hstack([w for _, _, w in disp]) if disp else np.zeros(0)
        values = np.hstack(([1.0, 0.0], centre, pd_val, pd_wt))
        d = Details()
        d.num_active = len(disp)
        d.num_weights = len(pd_val)
        d.pd_par = np.array([s for s, _, _ in disp] + [0] * (5 - len(disp)))
        d.pd_length = np.array([len(v) for _, v, _ in disp] + [1] * (5 - len(disp)))
        d.pd_offset = np.array(list(np.cumsum([0] + [len(v) for _, v, _ in disp])[:-1]) + [0] * (5 - len(disp)))
        d.pd_stride = np.array(list(np.cumprod([1] + [len(v) for _, v, _ in disp])[:-1]) + [0] * (5 - len(disp)))
        d.num_eval = int(np.prod([len(v) for _, v, _ in disp]))
        parameters = np.empty(npars)

        def form():
            r, t, c = parameters
            if t >= r:
                return np.full(nq, np.nan)
            return c * (r - t) * np.exp(-q * r)

        def form_volume():
            # (shell volume, form volume), the order kernelpy's volume closure uses
            r, t, c = parameters
            return r ** 3 - (r - t) ** 3, r ** 3

        def form_radius():
            return parameters[0] + 0.5 * parameters[1]
        got = kernelpy._loops(parameters, form, form_volume, form_radius, nq, d, values, cutoff)
        tot, wn, wf, ws, wr = np.zeros(nq), 0.0, 0.0, 0.0, 0.0
        for idx in itertools.product(*[range(len(v)) for _, v, _ in disp]):
            p = list(centre)
            w = 1.0
            for (slot, v, wt), i in zip(disp, idx):
                p[slot] = v[i]
                w *= wt[i]
            r, t, c = p
            if w > cutoff and t < r:
                tot += w * c * (r - t) * np.exp(-q * r)
                wn += w
                wf += w * r ** 3
                ws += w * (r ** 3 - (r - t) ** 3)
                wr += w * (r + 0.5 * t)
        want = np.hstack((tot, wn, wf, ws, wr))
        ok = np.allclose(got, want, rtol=1e-12, atol=1e-15)
        bad = bad or not ok
        out.append({"dispersed_slots": [s for s, _, _ in disp], "cutoff": cutoff, "real": np.asarray(got).tolist(),
                    "spec": want.tolist()})
    return bool(bad), {"call": "kernelpy._loops with a form that is NaN for thickness >= radius", "real": out,
                       "spec": "sums over the mesh points with weight > cutoff and a valid form"}
