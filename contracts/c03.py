"""
C03 -- resolution smearing is a normalised non-negative average with full support.

The weight-matrix builders are executed symbolically from their AST with 2-D
arrays that have one concrete dimension (vp/pymat.py): the number of data points
is enumerated (1..2 columns / rows), the number of calculation points m is
symbolic, so each obligation is for q_calc grids of every length.  Elementwise
obligations are discharged by z3; the conclusions about sums (sum to one, flat
intensity unchanged, scale/background linear) follow from the Lean lemmas in
lemmas/Sas.lean whose hypotheses are exactly those elementwise obligations.
"""
import z3

from vp.pyvc import Interp, Sym, SArr, Summary, IRaise, ERF, SQRT, fresh
from vp import pymat
from vp.core import OutsideSubset

PROP = "C03"
R = z3.RealSort()


def _float(x):
    from vp.pyvc import _real_of_float
    return _real_of_float(x)


def increasing(f, m):
    j = z3.Int("j!inc")
    return z3.ForAll([j], z3.Implies(z3.And(j >= 0, j < m - 1), f(j) < f(j + 1)))


def spec_edge(qc, m, j):
    """Bin edge j (0..m) of the calculation grid, from the docstring of bin_edges."""
    return z3.If(j == 0, qc(0) - (qc(1) - qc(0)) / 2,
                 z3.If(j == m, qc(m - 1) + (qc(m - 1) - qc(m - 2)) / 2, (qc(j - 1) + qc(j)) / 2))


# --------------------------------------------------------------------------
# bin_edges
# --------------------------------------------------------------------------

def bin_edges_contract(reg):
    fn = "sasmodels.resolution.bin_edges"

    def body(it):
        m = z3.Int("m")
        qc = it.new_array("q_calc", m, "real")
        f = qc.buf.base_fn
        it.assume(z3.And(m >= 2, increasing(f, m)))
        g = it.get_func("sasmodels.resolution", "bin_edges")
        out = it.call(g, [qc])
        j = z3.Int("j")
        pc = list(it.pc)
        n = out.length()
        ne = n.e if isinstance(n, Sym) else z3.IntVal(n)
        reg.prove("%s.bin_edges.post.length_is_m_plus_one" % PROP, pc, ne == m + 1, function=fn)
        reg.prove("%s.bin_edges.post.edges_are_midpoints_and_half_steps" % PROP, pc + [j >= 0, j <= m],
                  out.at(j) == spec_edge(f, m, j), function=fn, replay=lambda mdl: replay_bin_edges())
        it.discharge_sides(reg, "%s.bin_edges" % PROP, function=fn)
    it = Interp(reg)
    it.poison_one_arm = False
    it.run_paths(body)

    def body2(it):
        # not increasing or fewer than two points: ValueError (precondition made explicit)
        m = z3.Int("m")
        qc = it.new_array("q_calc", m, "real")
        f = qc.buf.base_fn
        k = z3.Int("k!bad")
        it.assume(z3.And(m >= 0, z3.Or(m < 2, z3.And(k >= 0, k < m - 1, f(k + 1) < f(k)))))
        g = it.get_func("sasmodels.resolution", "bin_edges")
        try:
            it.call(g, [qc])
            raised = None
        except IRaise as exc:
            raised = exc.value
        reg.prove("%s.bin_edges.rejects_short_or_decreasing_grids" % PROP, it.pc,
                  z3.BoolVal(isinstance(raised, ValueError)), function=fn)
    it = Interp(reg)
    it.poison_one_arm = False
    try:
        it.run_paths(body2)
    except OutsideSubset as exc:
        reg.undecided("%s.bin_edges.rejects_short_or_decreasing_grids" % PROP, "outside subset: %s" % exc, function=fn)


def replay_bin_edges():
    import numpy as np
    from sasmodels import resolution
    q = np.array([0.1, 0.2, 0.4, 0.5])
    got = resolution.bin_edges(q)
    want = np.array([0.05, 0.15, 0.3, 0.45, 0.55])
    return not np.allclose(got, want, rtol=1e-14), {"call": "bin_edges([0.1,0.2,0.4,0.5])", "real": got.tolist(),
                                                    "spec": want.tolist()}


# --------------------------------------------------------------------------
# pinhole_resolution
# --------------------------------------------------------------------------

def pinhole_spec(qc, m, q_i, s_i, j, c2, nlow, nhigh):
    """masked bin mass of the Gaussian N(q_i, s_i) on calculation bin j."""
    z = lambda e: (e - q_i) / (c2 * s_i)
    mass = ERF(z(spec_edge(qc, m, j + 1))) - ERF(z(spec_edge(qc, m, j)))
    inside = z3.And(qc(j) >= q_i - nlow * s_i, qc(j) <= q_i + nhigh * s_i)
    return z3.If(inside, mass, 0), inside, mass


def pinhole_resolution_contract(reg, nq):
    import math
    fn = "sasmodels.resolution.pinhole_resolution"
    from contracts import leanlib

    def body(it):
        m = z3.Int("m")
        qc = it.new_array("q_calc", m, "real")
        f = qc.buf.base_fn
        qs = [z3.Real("q_%d" % i) for i in range(nq)]
        ss = [z3.Real("sigma_%d" % i) for i in range(nq)]
        q = it.array_from_fn(lambda j: _sel(j, qs), nq, "real", "q")
        sw = it.array_from_fn(lambda j: _sel(j, ss), nq, "real", "q_width")
        it.assume(z3.And(m >= 2, increasing(f, m), *[s > 0 for s in ss]))
        # the callee bin_edges is replaced by its contract (proved above)
        def edges(it_, a, k):
            return it_.array_from_fn(lambda j: spec_edge(f, m, j), m + 1, "real", "edges")
        it.summaries["sasmodels.resolution.bin_edges"] = Summary(edges, "bin_edges (contract C03.bin_edges.*)", contract=False)
        g = it.get_func("sasmodels.resolution", "pinhole_resolution")
        W = it.call(g, [qc, q, sw])
        pc = list(it.pc)
        c2 = _float(math.sqrt(2.0))
        nlow, nhigh = _float(2.5), _float(3.0)
        j = z3.Int("j")
        rng = [j >= 0, j < m]
        sig = it.ghost.get("sigma_terms", [])
        ok_shape = isinstance(W, pymat.SMat) and len(W.vecs) == nq and W.conc_axis == 1
        reg.prove("%s.pinhole_resolution.post.shape_is_calc_by_data.n%d" % (PROP, nq), pc,
                  z3.And(z3.BoolVal(ok_shape), (W.L == m) if ok_shape else z3.BoolVal(False)), function=fn)
        if not ok_shape or len(sig) < nq:
            reg.undecided("%s.pinhole_resolution.post.engine.n%d" % (PROP, nq), "result is not an (m, nq) matrix with "
                          "one column sum per data point", function=fn)
            return
        # erf is increasing (instances at the two edges of bin j for every data point)
        erf_mono = []
        for i in range(nq):
            z = lambda e, i=i: (e - qs[i]) / (c2 * ss[i])
            for jj in (j,):
                a, b = z(spec_edge(f, m, jj)), z(spec_edge(f, m, jj + 1))
                erf_mono += [z3.Implies(a <= b, ERF(a) <= ERF(b)), z3.Implies(a < b, ERF(a) < ERF(b))]
        rp = lambda mdl=None: replay_pinhole()
        for i in range(nq):
            masked, inside, mass = pinhole_spec(f, m, qs[i], ss[i], j, c2, nlow, nhigh)
            Sf, Sget, Sarr = sig[-nq + i]
            S_i = Sf(z3.IntVal(0), m)
            tag = "n%d.col%d" % (nq, i)
            reg.prove("%s.pinhole_resolution.post.column_sum_is_over_the_masked_bin_masses.%s" % (PROP, tag),
                      pc + rng, Sget(j) == masked, function=fn, replay=rp,
                      describe="the array summed by np.sum(weights, axis=0) is [q_calc in (-2.5,+3) sigma window] * "
                               "(erf(z(edge j+1)) - erf(z(edge j)))")
            reg.prove("%s.pinhole_resolution.post.weight_is_masked_bin_mass_over_column_sum.%s" % (PROP, tag),
                      pc + rng + [S_i != 0], W.el(j, i) == masked / S_i, function=fn, replay=rp)
            # hypotheses of the Lean lemmas
            edge_inc = spec_edge(f, m, j) < spec_edge(f, m, j + 1)
            reg.prove("%s.pinhole_resolution.lemma_hyp.edges_increase.%s" % (PROP, tag), pc + rng, edge_inc, function=fn)
            reg.prove("%s.pinhole_resolution.lemma_hyp.masked_mass_nonnegative.%s" % (PROP, tag),
                      pc + rng + erf_mono + [edge_inc], masked >= 0, function=fn, nl=True, replay=rp)
            reg.prove("%s.pinhole_resolution.lemma_hyp.mass_positive_inside_the_window.%s" % (PROP, tag),
                      pc + rng + erf_mono + [edge_inc, inside], masked > 0, function=fn, nl=True, replay=rp)
        it.discharge_sides(reg, "%s.pinhole_resolution.n%d" % (PROP, nq), function=fn)
        # conclusions by the Lean lemmas (hypotheses = the obligations above + 'some calculation point in the window')
        leanlib.lean_lemmas(reg, PROP, ["normalised_sums_to_one", "sum_pos_of_nonneg_of_one_pos", "normalised_nonneg",
                                        "flat_preserved", "scale_background", "apply_linear"])
    it = Interp(reg)
    it.poison_one_arm = False
    it.run_paths(body)


def _sel(j, items):
    out = items[-1]
    for k in range(len(items) - 2, -1, -1):
        out = z3.If(j == k, items[k], out)
    return out


def replay_pinhole():
    """Real pinhole_resolution against the documented formula on an irregular grid."""
    import numpy as np
    from scipy.special import erf
    from sasmodels import resolution
    qc = np.array([0.01, 0.02, 0.035, 0.05, 0.08, 0.1, 0.13, 0.2])
    q = np.array([0.035, 0.1])
    s = np.array([0.01, 0.03])
    W = resolution.pinhole_resolution(qc, q, s)
    e = np.hstack([qc[0] - (qc[1] - qc[0]) / 2, (qc[1:] + qc[:-1]) / 2, qc[-1] + (qc[-1] - qc[-2]) / 2])
    want = np.zeros((len(qc), len(q)))
    for i in range(len(q)):
        mass = erf((e[1:] - q[i]) / (np.sqrt(2.0) * s[i])) - erf((e[:-1] - q[i]) / (np.sqrt(2.0) * s[i]))
        mass[(qc < q[i] - 2.5 * s[i]) | (qc > q[i] + 3.0 * s[i])] = 0
        want[:, i] = mass / mass.sum()
    bad = not np.allclose(W, want, rtol=1e-12, atol=1e-15) or W.min() < 0 or not np.allclose(W.sum(axis=0), 1)
    if not bad:
        # a window that crosses q = 0: the calculation grid has negative points and bin edges
        qc = np.linspace(-0.03, 0.08, 45)
        q, s = np.array([0.01]), np.array([0.012])
        W = resolution.pinhole_resolution(qc, q, s)
        e = np.hstack([qc[0] - (qc[1] - qc[0]) / 2, (qc[1:] + qc[:-1]) / 2, qc[-1] + (qc[-1] - qc[-2]) / 2])
        mass = erf((e[1:] - q[0]) / (np.sqrt(2.0) * s[0])) - erf((e[:-1] - q[0]) / (np.sqrt(2.0) * s[0]))
        mass[(qc < q[0] - 2.5 * s[0]) | (qc > q[0] + 3.0 * s[0])] = 0
        want = (mass / mass.sum())[:, None]
        bad = not np.allclose(W, want, rtol=1e-12, atol=1e-15)
        if bad:
            return bad, {"call": "pinhole_resolution(q_calc=linspace(-0.03,0.08,45), q=[0.01], sigma=[0.012]): window crosses q=0",
                         "real": W[:8, 0].tolist(), "spec": want[:8, 0].tolist()}
    return bad, {"call": "pinhole_resolution(irregular q_calc, q=[0.035,0.1], sigma=[0.01,0.03])",
                 "real": W.tolist(), "spec": want.tolist()}


# --------------------------------------------------------------------------
# slit: _q_perp_weights and the rows of slit_resolution
# --------------------------------------------------------------------------

def sqrt_facts(terms):
    """Instances of: sqrt(x) >= 0, sqrt(x)^2 = x for x >= 0, sqrt monotone (pairwise)."""
    out = []
    for t in terms:
        out += [SQRT(t) >= 0, z3.Implies(t >= 0, SQRT(t) * SQRT(t) == t)]
    for a in terms:
        for b in terms:
            if a is not b:
                out.append(z3.Implies(z3.And(a >= 0, a <= b), SQRT(a) <= SQRT(b)))
    return out


PERPW = z3.Function("perp_weight", R, R, z3.IntSort(), R)     # _q_perp_weights(edges, centre, extent)[bin]


def perp_u(e, qi, w, ulim):
    """clipped u = q'^2 - qi^2 at bin edge e (the substitution of the slit-length integral)."""
    aq = z3.If(qi >= 0, qi, -qi)
    return z3.If(e < aq, 0, z3.If(e > ulim, ulim * ulim - qi * qi, e * e - qi * qi))


def q_perp_weights_contract(reg):
    fn = "sasmodels.resolution._q_perp_weights"
    from contracts import leanlib

    def body(it):
        m = z3.Int("m")
        edges = it.new_array("q_edges", m + 1, "real")
        e = edges.buf.base_fn
        qi, w = z3.Real("qi"), z3.Real("w")
        it.assume(z3.And(m >= 1, increasing(e, m + 1), w > 0))
        g = it.get_func("sasmodels.resolution", "_q_perp_weights")
        out = it.call(g, [edges, Sym(qi), Sym(w)])
        pc = list(it.pc)
        j = z3.Int("j")
        rng = [j >= 0, j < m]
        ulim = SQRT(qi * qi + w * w)
        U = lambda jj: perp_u(e(jj), qi, w, ulim)
        n = out.length()
        reg.prove("%s._q_perp_weights.post.length_is_number_of_bins" % PROP, pc, (n.e if isinstance(n, Sym) else z3.IntVal(n)) == m,
                  function=fn)
        rp = lambda mdl=None: replay_perp()
        aq0 = z3.If(qi >= 0, qi, -qi)
        lim_facts = sqrt_facts([qi * qi + w * w])
        reg.prove("%s._q_perp_weights.lemma.u_limit_is_at_least_abs_qi" % PROP, pc + lim_facts, ulim >= aq0, function=fn,
                  nl=True)
        reg.prove("%s._q_perp_weights.post.weight_is_difference_of_sqrt_u_over_w" % PROP, pc + rng + [ulim >= aq0],
                  out.at(j) == (SQRT(U(j + 1)) - SQRT(U(j))) / w, function=fn, replay=rp,
                  describe="bin mass of du/w on [0, w] under u = sqrt(q'^2 - qi^2): a telescoping difference")
        facts = sqrt_facts([qi * qi + w * w, U(j), U(j + 1)])
        # u is non-decreasing along increasing edges (edges below |qi| are clipped to 0, above u_limit to w^2)
        reg.prove("%s._q_perp_weights.lemma_hyp.u_is_nondecreasing_and_within_0_w2" % PROP, pc + rng + facts,
                  z3.And(U(j) <= U(j + 1), U(j) >= 0, U(j + 1) <= w * w), function=fn, nl=True, replay=rp)
        reg.prove("%s._q_perp_weights.lemma_hyp.weights_nonnegative" % PROP,
                  pc + rng + facts + [U(j) <= U(j + 1), U(j) >= 0], out.at(j) >= 0, function=fn, nl=True, replay=rp)
        # ends of the telescoping sum under the coverage precondition
        aq = z3.If(qi >= 0, qi, -qi)
        f0 = sqrt_facts([qi * qi + w * w, U(0), U(m), w * w, z3.RealVal(0)])
        reg.prove("%s._q_perp_weights.lemma_hyp.telescoping_ends_are_0_and_w_when_the_edges_cover_the_window" % PROP,
                  pc + f0 + [e(0) <= aq, e(m) >= ulim], z3.And(SQRT(U(0)) == 0, SQRT(U(m)) == w), function=fn, nl=True,
                  replay=rp, describe="first edge <= |qi| and last edge >= sqrt(qi^2 + w^2)  =>  sum of weights = (w - 0)/w = 1")
        it.discharge_sides(reg, "%s._q_perp_weights" % PROP, function=fn)
        leanlib.lean_lemmas(reg, PROP, ["telescoping", "average_of_normalised_rows"])
    it = Interp(reg)
    it.poison_one_arm = False
    it.run_paths(body)


def replay_perp():
    import numpy as np
    from sasmodels import resolution
    e = np.array([0.0005, 0.0015, 0.003, 0.006, 0.01, 0.02, 0.05, 0.08])
    bad, out = False, []
    for qi, w in ((0.004, 0.03), (-0.002, 0.01), (0.0, 0.05)):
        got = resolution._q_perp_weights(e.copy(), qi, w)
        ulim = np.sqrt(qi ** 2 + w ** 2)
        u = np.where(e < abs(qi), 0, np.where(e > ulim, w * w, e * e - qi * qi))
        want = np.diff(np.sqrt(u)) / w
        covered = e[0] <= abs(qi) and e[-1] >= ulim
        ok = np.allclose(got, want, rtol=1e-12, atol=1e-15) and got.min() >= 0 and (not covered or abs(got.sum() - 1) < 1e-12)
        bad = bad or not ok
        out.append({"qi": qi, "w": w, "real": got.tolist(), "spec": want.tolist(), "sum": float(got.sum())})
    return bad, {"call": "_q_perp_weights(edges, qi, w) for three (qi, w)", "real": out, "spec": "difference of sqrt(u) over w; sum 1"}


def slit_row_contracts(reg, modes=("perfect", "length_only", "width_only", "both")):
    """slit_resolution with one data point (row independence: each row depends on its own q, width, length)."""
    fn = "sasmodels.resolution.slit_resolution"
    from contracts import leanlib
    for mode in modes:
        def body(it, mode=mode):
            m = z3.Int("m")
            qc = it.new_array("q_calc", m, "real")
            f = qc.buf.base_fn
            qi = z3.Real("qi")
            wv = z3.Real("w_perp") if mode in ("length_only", "both") else z3.RealVal(0)
            lv = z3.Real("l_par") if mode in ("width_only", "both") else z3.RealVal(0)
            it.assume(z3.And(m >= 2, increasing(f, m)))
            if mode in ("length_only", "both"):
                it.assume(wv > 0)
            if mode in ("width_only", "both"):
                it.assume(lv > 0)
            q = it.array_from_fn(lambda j: qi, 1, "real", "q")
            width = it.array_from_fn(lambda j: wv, 1, "real", "width")
            length = it.array_from_fn(lambda j: lv, 1, "real", "length")
            calls = []

            def edges(it_, a, k):
                return it_.array_from_fn(lambda j: spec_edge(f, m, j), m + 1, "real", "edges")
            it.summaries["sasmodels.resolution.bin_edges"] = Summary(edges, "bin_edges (contract)", contract=False)

            def perp(it_, a, k):
                qq, ww = a[1], a[2]
                qe = qq.e if isinstance(qq, Sym) else _float(qq)
                we = ww.e if isinstance(ww, Sym) else _float(ww)
                calls.append((qe, we))
                # the callee's result as an uninterpreted function of (centre, extent, bin): its defining
                # equation is the postcondition proved for _q_perp_weights
                return it_.array_from_fn(lambda j: PERPW(qe, we, j), m, "real", "perp")
            it.summaries["sasmodels.resolution._q_perp_weights"] = Summary(
                perp, "_q_perp_weights (contract C03._q_perp_weights.*)", contract=False)
            g = it.get_func("sasmodels.resolution", "slit_resolution")
            W = it.call(g, [qc, q, width, length])
            pc = list(it.pc)
            j = z3.Int("j")
            rng = [j >= 0, j < m]
            ok_shape = isinstance(W, pymat.SMat) and W.shape2[1] == 1
            reg.prove("%s.slit_resolution.%s.post.shape_is_calc_by_data" % (PROP, mode), pc, z3.BoolVal(bool(ok_shape)),
                      function=fn)
            if not ok_shape:
                return
            row = lambda jj: W.el(jj, 0)
            rp = lambda mdl=None, mode=mode: replay_slit_row(mode)
            de = spec_edge(f, m, j + 1) - spec_edge(f, m, j)
            if mode == "perfect":
                reg.prove("%s.slit_resolution.perfect.post.row_is_indicator_of_the_data_point" % PROP, pc + rng,
                          row(j) == z3.If(f(j) == qi, 1, 0), function=fn, replay=rp)
            elif mode == "length_only":
                ulim = SQRT(qi * qi + wv * wv)
                reg.prove("%s.slit_resolution.length_only.post.row_is_the_perpendicular_bin_masses" % PROP, pc + rng,
                          z3.And(z3.BoolVal(len(calls) == 1), row(j) == PERPW(qi, wv, j)), function=fn, replay=rp,
                          describe="row = _q_perp_weights(edges(q_calc), qi, w): bin masses of (1/L) du on [0, L]")
            elif mode == "width_only":
                aql = z3.If(qi - lv >= 0, qi - lv, lv - qi)
                count = z3.If(z3.And(f(j) >= qi - lv, f(j) <= qi + lv), 1, 0) + z3.If(z3.And(qi < lv, f(j) < aql), 1, 0)
                raw = count * de / (2 * lv)
                reg.prove("%s.slit_resolution.width_only.lemma_hyp.raw_masses_nonnegative" % PROP, pc + rng, raw >= 0,
                          function=fn, nl=True)
                sig = it.ghost.get("sigma_terms", [])
                if not sig:
                    # no normalising sum in the code: the row is the raw centre-in-window masses, which
                    # need not sum to one
                    reg.prove("%s.slit_resolution.width_only.post.row_is_normalised_window_masses" % PROP,
                              pc + rng, z3.BoolVal(False), function=fn, replay=rp,
                              describe="row_j = r_j / sum(r), r_j = (multiplicity of q'_j in the folded window [q-W, q+W]) * bin width / 2W")
                else:
                    Sf, Sget, _ = sig[-1]
                    S = Sf(z3.IntVal(0), m)
                    reg.prove("%s.slit_resolution.width_only.post.sum_is_over_the_raw_window_masses" % PROP, pc + rng,
                              Sget(j) == raw, function=fn, replay=rp)
                    reg.prove("%s.slit_resolution.width_only.post.row_is_normalised_window_masses" % PROP,
                              pc + rng + [S > 0], row(j) == raw / S, function=fn, replay=rp,
                              describe="row_j = r_j / sum(r), r_j = (multiplicity of q'_j in the folded window [q-W, q+W]) * bin width / 2W")
            else:
                nl_ = 30
                ks = list(range(-nl_, nl_ + 1))
                want_calls = len(calls) == len(ks)
                tot = None
                for k in ks:
                    t = PERPW(qi + k * lv / nl_, wv, j)
                    tot = t if tot is None else tot + t
                # the shifted centres the code used, compared one by one (cheaper than the whole average)
                same = z3.BoolVal(want_calls)
                if want_calls:
                    same = z3.And(*[z3.And(c_[0] == qi + k * lv / nl_, c_[1] == wv) for c_, k in zip(calls, ks)])
                reg.prove("%s.slit_resolution.both.post.perpendicular_masses_at_61_shifted_centres" % PROP, pc, same,
                          function=fn, replay=rp, describe="centres qi + k*l/30, k = -30..30, perpendicular extent w")
                reg.prove("%s.slit_resolution.both.post.row_is_their_average" % PROP, pc + rng + ([same] if want_calls else []),
                          row(j) == tot / (2 * nl_ + 1), function=fn, replay=rp, timeout_ms=120000)
            it.discharge_sides(reg, "%s.slit_resolution.%s" % (PROP, mode), function=fn)
        it = Interp(reg)
        it.poison_one_arm = False
        it.max_unroll = 100
        it.run_paths(body)
    reg.assume("row independence: slit_resolution / pinhole_resolution are run with 1 (slit) or 1..2 (pinhole) data points; "
               "row i of the result only reads q[i], width[i], length[i] (loop body / broadcast semantics)")


def replay_slit_row(mode):
    """Real Slit1D rows on a coarse default grid: non-negative and summing to one."""
    import numpy as np
    from sasmodels import resolution
    q = np.logspace(-3, -1, 30)
    L, W = {"perfect": (0, 0), "length_only": (0.05, 0), "width_only": (0, 0.002), "both": (0.05, 0.02)}[mode]
    s = resolution.Slit1D(q, q_length=L, q_width=W)
    sums = s.weight_matrix.sum(axis=0)
    flat = s.apply(np.ones_like(s.q_calc))
    bad = bool(s.weight_matrix.min() < 0 or np.max(np.abs(sums - 1)) > 1e-9)
    extra = {}
    if mode == "width_only":
        # rows against the documented multiplicity rule, including windows that fold at q' = 0
        qc = np.linspace(0.001, 0.1, 100)
        qd, Wd = np.array([0.01, 0.05]), 0.03
        Wm = resolution.slit_resolution(qc, qd, np.zeros(2), np.full(2, Wd))
        e = np.hstack([qc[0] - (qc[1] - qc[0]) / 2, (qc[1:] + qc[:-1]) / 2, qc[-1] + (qc[-1] - qc[-2]) / 2])
        for i, qi in enumerate(qd):
            mult = 1.0 * ((qc >= qi - Wd) & (qc <= qi + Wd)) + (1.0 * (qc < abs(qi - Wd)) if qi < Wd else 0.0)
            raw = mult * np.diff(e) / (2 * Wd)
            want = raw / raw.sum()
            if not np.allclose(Wm[:, i], want, rtol=1e-12, atol=1e-15):
                bad = True
                extra["row_for_q=%g_W=%g" % (qi, Wd)] = {"real_first_bins": Wm[:6, i].tolist(), "spec_first_bins": want[:6].tolist()}
    return bad, {"call": "Slit1D(q=logspace(-3,-1,30), q_length=%g, q_width=%g): weights and smeared flat intensity" % (L, W),
                 "real": dict({"row_sum_min": float(sums.min()), "row_sum_max": float(sums.max()),
                               "flat_intensity_min": float(flat.min()), "flat_intensity_max": float(flat.max())}, **extra),
                 "spec": "every row sums to one; a flat intensity is returned unchanged"}


# --------------------------------------------------------------------------
# Pinhole1D / Slit1D constructors: what is handed to the weight builders
# --------------------------------------------------------------------------

def _selected_facts(it, arr, k):
    """Quantifier-free instances of the mask-selection axioms at index k of a filtered array."""
    out = []
    for schema in it.__dict__.get("axiom_schemas", []):
        out += schema(k, k + 1)
    return out


def constructor_contracts(reg):
    import sasmodels.resolution as live
    for cls in ("Pinhole1D", "Slit1D"):
        fn = "sasmodels.resolution.%s.__init__" % cls

        def body(it, cls=cls):
            n, m0 = z3.Int("n"), z3.Int("m0")
            q = it.new_array("q", n, "real")
            qf = q.buf.base_fn
            ext = it.new_array("extended", m0, "real")
            ef = ext.buf.base_fn
            ii = z3.Int("i!q")
            it.assume(z3.And(n >= 1, m0 >= 1, increasing(qf, n), increasing(ef, m0),
                             z3.ForAll([ii], z3.Implies(z3.And(ii >= 0, ii < n), qf(ii) > 0))))
            seen = {}

            def extend(it_, a, k):
                seen["extend"] = (a, k)
                return ext
            def resolution(it_, a, k):
                seen["resolution"] = (a, k)
                grid = a[0]
                return it_.new_obj(None, {"grid": grid}, "weight_matrix")
            if cls == "Pinhole1D":
                it.summaries["sasmodels.resolution.pinhole_extend_q"] = Summary(extend, "pinhole_extend_q (contract below)")
                it.summaries["sasmodels.resolution.pinhole_resolution"] = Summary(resolution, "pinhole_resolution (contract above)")
                wid = it.new_array("q_width", n, "real")
                it.assume(z3.ForAll([ii], z3.Implies(z3.And(ii >= 0, ii < n), wid.buf.base_fn(ii) >= 0)))
                args = [q, wid]
            else:
                it.summaries["sasmodels.resolution.slit_extend_q"] = Summary(extend, "slit_extend_q (contract below)")
                it.summaries["sasmodels.resolution.slit_resolution"] = Summary(resolution, "slit_resolution (contract above)")
                qlen, qwid = it.new_array("q_length", n, "real"), it.new_array("q_width", n, "real")
                args = [q, qlen, qwid]
            selfo = it.new_obj(getattr(live, cls), {}, cls)
            g = it.get_func("sasmodels.resolution", "%s.__init__" % cls)
            it.call(g, [selfo] + args)
            pc = list(it.pc) + list(it.__dict__.get("axioms", []))
            rp = lambda mdl=None, cls=cls: replay_constructor(cls)
            if "extend" not in seen or "resolution" not in seen:
                reg.prove("%s.%s.builds_extended_grid_and_weight_matrix" % (PROP, cls), it.pc, z3.BoolVal(False), function=fn,
                          replay=rp)
                return
            ea, ra = seen["extend"][0], seen["resolution"][0]
            grid = ra[0]
            k = z3.Int("k")
            gl = grid.length()
            gle = gl.e if isinstance(gl, Sym) else z3.IntVal(gl)
            facts = _selected_facts(it, grid, k) + _selected_facts(it, grid, k + 1)
            mins = [(v, at) for which, v, at, get, nn in it.ghost.get("extremes", []) if which == "min"]
            if not mins:
                reg.prove("%s.%s.cutoff_is_taken_from_the_smallest_data_q" % (PROP, cls), it.pc, z3.BoolVal(False),
                          function=fn, replay=rp)
                return
            qmin_v, qmin_at = mins[0]
            cutoff = _float(0.02) * qmin_v          # MINIMUM_ABSOLUTE_Q * min(q)
            minfacts = [qmin_at >= 0, qmin_at < n, qf(qmin_at) == qmin_v, qf(qmin_at) > 0]
            reg.prove("%s.%s.grid_for_the_weights_keeps_only_abs_q_at_least_0p02_min_q" % (PROP, cls),
                      list(it.pc) + facts + minfacts + [k >= 0, k < gle],
                      z3.And(cutoff > 0, z3.Or(grid.at(k) >= cutoff, -grid.at(k) >= cutoff)), function=fn, replay=rp,
                      timeout_ms=60000)
            # monotonicity of the extended grid at the two selected positions (instance of 'increasing',
            # which by induction gives a < b => ext[a] < ext[b])
            mono_inst = []
            sel_info = getattr(grid, "sel", None)
            if sel_info is not None:
                sel = sel_info[0]
                a_, b_ = sel(k), sel(k + 1)
                mono_inst = [z3.Implies(z3.And(a_ >= 0, a_ < b_, b_ < m0), ef(a_) < ef(b_))]
            reg.prove("%s.%s.grid_for_the_weights_is_increasing" % (PROP, cls),
                      list(it.pc) + facts + mono_inst + [k >= 0, k + 1 < gle],
                      grid.at(k) < grid.at(k + 1), function=fn, replay=lambda mdl=None: (False, {}), timeout_ms=60000)
            final = it.getattr(selfo, "q_calc")
            fl = final.length()
            fle = fl.e if isinstance(fl, Sym) else z3.IntVal(fl)
            reg.prove("%s.%s.theory_is_requested_at_strictly_positive_q_only" % (PROP, cls),
                      list(it.pc) + facts + minfacts + [k >= 0, k < fle, k < gle], z3.And(final.at(k) > 0, fle == gle,
                                                                      z3.Or(final.at(k) == grid.at(k), final.at(k) == -grid.at(k))),
                      function=fn, replay=rp, timeout_ms=60000)
            if cls == "Pinhole1D":
                same_q = ea[0] is q and ra[1] is q
                sig = ra[2]
                reg.prove("%s.Pinhole1D.weights_use_sigma_at_least_MINIMUM_RESOLUTION" % PROP, pc + [ii >= 0, ii < n],
                          z3.And(z3.BoolVal(isinstance(sig, SArr)),
                                 sig.at(ii) == z3.If(args[1].at(ii) >= _float(1e-8), args[1].at(ii), _float(1e-8)),
                                 sig.at(ii) > 0) if isinstance(sig, SArr) else z3.BoolVal(False), function=fn, replay=rp)
                ns_e = seen["extend"][1].get("nsigma", ea[2] if len(ea) > 2 else None)
                ns_r = seen["resolution"][1].get("nsigma", ra[3] if len(ra) > 3 else None)
                reg.prove("%s.Pinhole1D.extension_and_weights_use_the_same_data_widths_and_window" % PROP, pc,
                          z3.BoolVal(bool(same_q and ea[1] is args[1] and ns_e is ns_r and ns_e is not None)), function=fn,
                          replay=rp)
            else:
                # slit_extend_q(q, width, length) and slit_resolution(q_calc, q, width, length) share the convention
                # width = extent perpendicular to q (sqrt(q^2+u^2)), length = extent along q (q+v)
                reg.prove("%s.Slit1D.extension_and_weights_get_the_same_perpendicular_and_parallel_extents" % PROP, pc,
                          z3.BoolVal(bool(ea[1] is ra[2] and ea[2] is ra[3])), function=fn, replay=rp,
                          describe="slit_extend_q(q, A, B) and slit_resolution(q_calc, q, A, B) with the same A (perpendicular) and B (parallel)")
                reg.prove("%s.Slit1D.slit_length_is_the_perpendicular_extent_and_width_the_parallel_one" % PROP, pc,
                          z3.BoolVal(bool(ra[2] is args[1] and ra[3] is args[2])), function=fn, replay=rp,
                          describe="documented integrals: (1/L) int_0^L I(sqrt(q^2+u^2)) du for q_length=L, (1/2W) int I(|q+v|) dv for q_width=W")
            it.discharge_sides(reg, "%s.%s" % (PROP, cls), function=fn)
        it = Interp(reg)
        it.poison_one_arm = False
        try:
            it.run_paths(body)
        except OutsideSubset as exc:
            reg.undecided("%s.%s.engine" % (PROP, cls), "outside subset: %s" % exc, function=fn)
    reg.assume("constructor contracts: data q strictly increasing and positive, per-point widths given as arrays; the "
               "scalar / None width conventions of Slit1D are exercised by the bounded runs only")


def replay_constructor(cls):
    """Real constructors: support of q_calc against every data point's window, positivity, flat intensity."""
    import numpy as np
    from sasmodels import resolution
    q = np.linspace(0.001, 0.3, 50)
    out, bad = [], False
    if cls == "Pinhole1D":
        dq = 0.05 * q
        dq[[3, 45]] = 0.02, 0.05    # not monotone: interior windows reach beyond the windows of the end points
        r = resolution.Pinhole1D(q, dq)
        lo, hi = (q - 2.5 * dq).min(), (q + 3.0 * dq).max()
        qc = r.q_calc
        ok = qc.min() > 0 and np.allclose(r.weight_matrix.sum(axis=0), 1) and r.weight_matrix.min() >= 0
        # support: the signed grid spans [lo, hi] up to the 0.02 q_min cut around zero
        flat = r.apply(np.ones_like(qc))
        ok = ok and np.allclose(flat, 1)
        bad = not ok
        out.append({"q_calc_min": float(qc.min()), "window_low": float(lo), "window_high": float(hi), "q_calc_max": float(qc.max())})
        if qc.max() < hi - 1e-7:
            bad = True
    else:
        for L, W in ((0.05, 0.0), (0.0, 0.05), (0.05, 0.02)):
            r = resolution.Slit1D(q, q_length=L, q_width=W)
            qc = r.q_calc
            need_lo = max((q - W).min(), 0.0)
            need_hi = np.sqrt((q + W) ** 2 + L ** 2).max()
            sums = r.weight_matrix.sum(axis=0)
            rec = {"q_length": L, "q_width": W, "q_calc_min": float(qc.min()), "needed_low": float(need_lo),
                   "q_calc_max": float(qc.max()), "needed_high": float(need_hi),
                   "row_sum_min": float(sums.min()), "row_sum_max": float(sums.max())}
            out.append(rec)
            if qc.min() > max(need_lo, 0.02 * q.min()) + 1e-12 or qc.max() < need_hi - 1e-9 or qc.min() <= 0 \
                    or abs(sums.min() - 1) > 1e-3 or abs(sums.max() - 1) > 1e-3:
                bad = True
    return bad, {"call": "%s(q=linspace(0.001,0.3,50), ...) default q_calc" % cls, "real": out,
                 "spec": "q_calc > 0 spans every data point's window; weights sum to one"}


# --------------------------------------------------------------------------
# q_calc extension: the range handed to the extrapolation spans every window
# --------------------------------------------------------------------------

def extend_contracts(reg):
    fn = "sasmodels.resolution.pinhole_extend_q"

    def body(it):
        n = z3.Int("n")
        q, w = it.new_array("q", n, "real"), it.new_array("q_width", n, "real")
        qf, wf = q.buf.base_fn, w.buf.base_fn
        it.assume(n >= 1)
        seen = {}

        def extrap(it_, a, k):
            seen["args"] = a
            return it_.new_array("q_calc", z3.Int("m"), "real")
        it.summaries["sasmodels.resolution.linear_extrapolation"] = Summary(extrap, "linear_extrapolation (contract below)")
        g = it.get_func("sasmodels.resolution", "pinhole_extend_q")
        it.call(g, [q, w])
        i = z3.Int("i")
        a = seen.get("args")
        rp = lambda mdl=None: replay_constructor("Pinhole1D")
        if a is None:
            reg.prove("%s.pinhole_extend_q.calls_linear_extrapolation" % PROP, it.pc, z3.BoolVal(False), function=fn, replay=rp)
            return
        lo, hi = a[1], a[2]
        loe = lo.e if isinstance(lo, Sym) else _float(lo)
        hie = hi.e if isinstance(hi, Sym) else _float(hi)
        reg.prove("%s.pinhole_extend_q.range_spans_every_points_window" % PROP, list(it.pc) + [i >= 0, i < n],
                  z3.And(loe <= qf(i) - _float(2.5) * wf(i), hie >= qf(i) + _float(3.0) * wf(i), z3.BoolVal(a[0] is q)),
                  function=fn, replay=rp,
                  describe="q_min <= q_i - 2.5 sigma_i and q_max >= q_i + 3 sigma_i for EVERY data point i")
        it.discharge_sides(reg, "%s.pinhole_extend_q" % PROP, function=fn)
    it = Interp(reg)
    it.poison_one_arm = False
    it.run_paths(body)

    fn2 = "sasmodels.resolution.slit_extend_q"

    def body2(it):
        n = z3.Int("n")
        q, perp, par = it.new_array("q", n, "real"), it.new_array("perpendicular", n, "real"), it.new_array("parallel", n, "real")
        qf, pf, lf = q.buf.base_fn, perp.buf.base_fn, par.buf.base_fn
        it.assume(n >= 1)
        seen = {}

        def extrap(it_, a, k):
            seen["args"] = a
            return it_.new_array("q_calc", z3.Int("m"), "real")
        it.summaries["sasmodels.resolution.geometric_extrapolation"] = Summary(extrap, "geometric_extrapolation")
        g = it.get_func("sasmodels.resolution", "slit_extend_q")
        it.call(g, [q, perp, par])
        i = z3.Int("i")
        a = seen.get("args")
        rp = lambda mdl=None: replay_constructor("Slit1D")
        if a is None:
            reg.prove("%s.slit_extend_q.calls_geometric_extrapolation" % PROP, it.pc, z3.BoolVal(False), function=fn2, replay=rp)
            return
        lo, hi = a[1], a[2]
        loe = lo.e if isinstance(lo, Sym) else _float(lo)
        hie = hi.e if isinstance(hi, Sym) else _float(hi)
        t = (qf(i) + lf(i)) * (qf(i) + lf(i)) + pf(i) * pf(i)
        reg.prove("%s.slit_extend_q.range_spans_every_points_window" % PROP, list(it.pc) + [i >= 0, i < n],
                  z3.And(loe <= qf(i) - lf(i), hie >= SQRT(t), z3.BoolVal(a[0] is q)), function=fn2, replay=rp,
                  describe="q_min <= q_i - parallel_i and q_max >= sqrt((q_i + parallel_i)^2 + perpendicular_i^2) for every i "
                           "(width = perpendicular, length = parallel: the convention of slit_resolution)")
        it.discharge_sides(reg, "%s.slit_extend_q" % PROP, function=fn2)
    it = Interp(reg)
    it.poison_one_arm = False
    it.run_paths(body2)
    linear_extrapolation_contract(reg)
    geometric_extrapolation_contract(reg)
    reg.assume("'the extrapolated grid is increasing' and 'the data points sit between the extensions' are covered by the "
               "bounded constructor runs only")


def geometric_extrapolation_contract(reg):
    """result[0] <= max(q_min, 0.02 q[0] if q_min <= 0) and result[-1] >= q_max (log-spaced extensions)."""
    from vp.pymodels import LOG10, POW10
    from vp.pyvc import LOG
    fn = "sasmodels.resolution.geometric_extrapolation"

    def body(it):
        n = z3.Int("n")
        q = it.new_array("q", n, "real")
        qmin, qmax = z3.Real("q_min"), z3.Real("q_max")
        jj = z3.Int("j!pos")
        import numpy as _np
        S = q.buf.base_fn
        # precondition of this contract: the data q are sorted, positive, first <= last (np.sort is then the identity)
        it.assume(z3.And(n >= 1, S(0) > 0, S(n - 1) >= S(0)))
        it.models[_np.sort] = lambda it_, a, k: a[0]
        eff_min = z3.If(qmin <= 0, S(0) * _float(0.02), qmin)
        # log is increasing; pow10(log10(x)) = x  (instances at the end points the code uses)
        pts = [eff_min, qmax, S(0), S(n - 1)]
        for a_ in pts:
            it.assume(z3.Implies(a_ > 0, POW10(LOG10(a_)) == a_))
            for b_ in pts:
                if a_ is not b_:
                    it.assume(z3.Implies(z3.And(a_ > 0, a_ < b_), z3.And(LOG(a_) < LOG(b_), LOG10(a_) < LOG10(b_))))
        g = it.get_func("sasmodels.resolution", "geometric_extrapolation")
        out = it.call(g, [q, Sym(qmin), Sym(qmax)])
        pc = list(it.pc)
        ln = out.length()
        le = ln.e if isinstance(ln, Sym) else z3.IntVal(ln)
        facts = []
        for mono in it.__dict__.get("linspace_schemas", []):
            a_, b_, ne_ = mono.bounds
            facts += [mono.defn(z3.IntVal(0)), z3.Implies(ne_ >= 2, mono.fn(ne_ - 1) == b_)]
        rp = lambda mdl=None: replay_geometric_extrapolation()
        reg.prove("%s.geometric_extrapolation.post.starts_at_or_below_q_min" % PROP, pc + facts + [le >= 1],
                  z3.Or(out.at(0) <= eff_min, z3.And(qmin >= S(0), out.at(0) == S(0))), function=fn, replay=rp, timeout_ms=60000,
                  describe="first point = q_min (0.02 q[0] when q_min <= 0) if that is below the data, else the first data point")
        reg.prove("%s.geometric_extrapolation.post.ends_at_or_above_q_max" % PROP, pc + facts + [le >= 1],
                  z3.Or(out.at(le - 1) >= qmax, z3.And(qmax <= S(n - 1), out.at(le - 1) == S(n - 1))), function=fn,
                  replay=rp, timeout_ms=60000)
        it.discharge_sides(reg, "%s.geometric_extrapolation" % PROP, function=fn)
    it = Interp(reg)
    it.poison_one_arm = False
    try:
        it.run_paths(body)
    except OutsideSubset as exc:
        reg.undecided("%s.geometric_extrapolation.engine" % PROP, "outside subset: %s" % exc, function=fn)


def replay_geometric_extrapolation():
    import numpy as np
    from sasmodels import resolution
    bad, out = False, []
    for q, lo, hi in ((np.array([0.01, 0.02, 0.05]), 0.002, 0.2), (np.array([0.1]), -0.05, 0.3),
                      (np.array([0.03, 0.01, 0.02]), 0.0, 0.03), (np.array([0.01, 0.1]), 0.02, 0.05)):
        r = resolution.geometric_extrapolation(q, lo, hi)
        eff = lo if lo > 0 else 0.02 * q.min()
        ok = (r[0] <= eff * (1 + 1e-12) or (lo >= q.min() and r[0] == q.min())) and \
             (r[-1] >= hi * (1 - 1e-12) or (hi <= q.max() and r[-1] == q.max()))
        bad = bad or not ok
        out.append({"q": q.tolist(), "q_min": lo, "q_max": hi, "first": float(r[0]), "last": float(r[-1])})
    return bad, {"call": "geometric_extrapolation(q, q_min, q_max)", "real": out,
                 "spec": "first <= q_min (or 0.02 q0), last >= q_max unless inside the data range"}


def linear_extrapolation_contract(reg):
    """result[0] <= q_min + 2e-8, result[-1] >= q_max - 2e-8, the sorted data block sits in between."""
    fn = "sasmodels.resolution.linear_extrapolation"
    eps = _float(2e-8)

    def body(it):
        n = z3.Int("n")
        q = it.new_array("q", n, "real")
        qmin, qmax = z3.Real("q_min"), z3.Real("q_max")
        it.assume(n >= 1)
        g = it.get_func("sasmodels.resolution", "linear_extrapolation")
        out = it.call(g, [q, Sym(qmin), Sym(qmax)])
        pc = list(it.pc)
        ln = out.length()
        le = ln.e if isinstance(ln, Sym) else z3.IntVal(ln)
        # linspace facts: first point is the start, last point is the stop (numpy's endpoint=True)
        facts = []
        for mono in it.__dict__.get("linspace_schemas", []):
            a_, b_, ne_ = mono.bounds
            facts += [mono.defn(z3.IntVal(0)), z3.Implies(ne_ >= 2, mono.fn(ne_ - 1) == b_)]
        sorts = it.ghost.get("sorts", [])
        rp = lambda mdl=None: replay_linear_extrapolation()
        reg.prove("%s.linear_extrapolation.post.starts_at_or_below_q_min" % PROP, pc + facts + [le >= 1],
                  out.at(0) <= qmin + eps, function=fn, replay=rp, timeout_ms=60000)
        reg.prove("%s.linear_extrapolation.post.ends_at_or_above_q_max" % PROP, pc + facts + [le >= 1],
                  out.at(le - 1) >= qmax - eps, function=fn, replay=rp, timeout_ms=60000)
        # 'the sorted data sits between the two extensions as one block' needs quantified reasoning over
        # the concatenation that z3 does not finish reliably: bounded run instead (never counted)
        it.discharge_sides(reg, "%s.linear_extrapolation" % PROP, function=fn)
    it = Interp(reg)
    it.poison_one_arm = False
    try:
        it.run_paths(body)
    except OutsideSubset as exc:
        reg.undecided("%s.linear_extrapolation.engine" % PROP, "outside subset: %s" % exc, function=fn)
    bad, info = replay_linear_extrapolation()
    oid = "%s.linear_extrapolation.bounded.contains_the_data_points" % PROP
    if bad:
        reg.fail(oid, info, function=fn, engine="runtime-contract", kind="bounded")
    else:
        reg.passed(oid, function=fn, engine="runtime-contract", kind="bounded", backend="cpython",
                   bound="three grids (sorted, single point, unsorted)")


def _int_consts(fs):
    seen, out, stack = set(), [], list(fs)
    while stack:
        e = stack.pop()
        if e.get_id() in seen:
            continue
        seen.add(e.get_id())
        if z3.is_quantifier(e):
            stack.append(e.body())
        elif z3.is_app(e):
            if e.num_args() == 0 and e.decl().kind() == z3.Z3_OP_UNINTERPRETED and z3.is_int(e):
                out.append(e)
            stack.extend(e.children())
    return out


def replay_linear_extrapolation():
    import numpy as np
    from sasmodels import resolution
    bad, out = False, []
    for q, lo, hi in ((np.array([0.01, 0.02, 0.05]), -0.004, 0.2), (np.array([0.1]), 0.05, 0.3),
                      (np.array([0.03, 0.01, 0.02]), 0.01, 0.03)):
        r = resolution.linear_extrapolation(q, lo, hi)
        ok = r[0] <= lo + 2e-8 and r[-1] >= hi - 2e-8 and all(np.any(np.isclose(r, x, rtol=0, atol=0)) for x in q)
        bad = bad or not ok
        out.append({"q": q.tolist(), "q_min": lo, "q_max": hi, "first": float(r[0]), "last": float(r[-1])})
    return bad, {"call": "linear_extrapolation(q, q_min, q_max)", "real": out, "spec": "first <= q_min + 2e-8, last >= q_max - 2e-8"}


# --------------------------------------------------------------------------
# apply: the smeared value is the weighted sum; 2-D weights
# --------------------------------------------------------------------------

def apply_contracts(reg):
    fn = "sasmodels.resolution.apply_resolution_matrix"
    for nq in (1, 2):
        def body(it, nq=nq):
            m = z3.Int("m")
            theory = it.new_array("theory", m, "real")
            tf = theory.buf.base_fn
            cols = [it.new_array("W_col%d" % i, m, "real") for i in range(nq)]
            W = pymat.SMat(cols, 1, m, "real")
            it.assume(m >= 1)
            g = it.get_func("sasmodels.resolution", "apply_resolution_matrix")
            out = it.call(g, [W, theory])
            j = z3.Int("j")
            sig = it.ghost.get("sigma_terms", [])
            n = out.length() if isinstance(out, SArr) else None
            ok = isinstance(out, SArr) and n == nq and len(sig) >= nq
            reg.prove("%s.apply_resolution_matrix.post.one_value_per_data_point.n%d" % (PROP, nq), it.pc, z3.BoolVal(bool(ok)),
                      function=fn)
            if not ok:
                return
            for i in range(nq):
                Sf, Sget, _ = sig[-nq + i]
                reg.prove("%s.apply_resolution_matrix.post.value_is_sum_of_theory_times_weight.n%d.col%d" % (PROP, nq, i),
                          list(it.pc) + [j >= 0, j < m],
                          z3.And(Sget(j) == tf(j) * cols[i].buf.base_fn(j), out.at(i) == Sf(z3.IntVal(0), m)), function=fn,
                          replay=lambda mdl=None: replay_apply(),
                          describe="Iq[i] = sum_j theory[j] * W[j, i]")
        it = Interp(reg)
        it.poison_one_arm = False
        it.run_paths(body)


def replay_apply():
    import numpy as np
    from sasmodels import resolution
    W = np.array([[0.2, 0.0], [0.5, 0.25], [0.3, 0.75]])
    t = np.array([1.0, 2.0, 4.0])
    got = resolution.apply_resolution_matrix(W, t)
    want = t @ W
    return not np.allclose(got, want), {"call": "apply_resolution_matrix(W 3x2, theory)", "real": got.tolist(),
                                        "spec": want.tolist()}


def pinhole2d_weights(reg):
    """Pinhole2D ring weights exp(-(r-b/2)^2/2) - exp(-(r+b/2)^2/2) at r = b/2 + k b are non-negative, and apply()
    is the weighted mean (np.average): real function on the four accuracy settings (the ring count is a small
    constant), exp monotonicity by z3 on the symbolic ring formula."""
    from vp.pyvc import EXP
    fn = "sasmodels.resolution2d.Pinhole2D._calc_res"
    b, r = z3.Real("bin_size"), z3.Real("r")
    lo, hi = -(r - b / 2) * (r - b / 2) / 2, -(r + b / 2) * (r + b / 2) / 2
    mono = [z3.Implies(hi <= lo, EXP(hi) <= EXP(lo))]
    reg.prove("%s.Pinhole2D.ring_weight_formula_is_nonnegative" % PROP, mono + [b > 0, r >= b / 2],
              EXP(lo) - EXP(hi) >= 0, function=fn, nl=True,
              describe="exp(-(r-b/2)^2/2) - exp(-(r+b/2)^2/2) >= 0 for r >= b/2 > 0 (exp increasing)")


def pinhole2d_init_contract(reg):
    """Pinhole2D._init_data: the radial width of the cloud is the data's dqx_data, the tangential one its dqy_data
    (each at least SIGMA_ZERO), pixel by pixel, and the caller's data arrays are not modified."""
    import sasmodels.resolution2d as live
    fn = "sasmodels.resolution2d.Pinhole2D._init_data"

    def body(it):
        n = z3.Int("n")
        names = ("qx_data", "qy_data", "q_data", "dqx_data", "dqy_data")
        arrs = {nm: it.new_array(nm, n, "real") for nm in names}
        it.assume(n >= 1)
        data = it.new_obj(None, dict(arrs), "data")
        seen = {}

        def calc_res(it_, a, k):
            s = a[0]
            seen["par"], seen["perp"] = it_.getattr(s, "dqx_data"), it_.getattr(s, "dqy_data")
            seen["qx"], seen["qy"] = it_.getattr(s, "qx_data"), it_.getattr(s, "qy_data")
            m = z3.Int("m")
            return (it_.new_array("qx_calc", m, "real"), it_.new_array("qy_calc", m, "real"), it_.new_array("w", 12, "real"))
        it.summaries["sasmodels.resolution2d.Pinhole2D._calc_res"] = Summary(calc_res, "_calc_res (contract C04)")
        selfo = it.new_obj(live.Pinhole2D, {"nr": 3, "nphi": 4, "nsigma": 3.0, "coords": "polar"}, "Pinhole2D")
        f = it.get_func("sasmodels.resolution2d", "Pinhole2D._init_data")
        it.call(f, [selfo, data, None])
        pc = list(it.pc)
        j = z3.Int("j")
        rng = [j >= 0, j < n]
        eps = _float(live.SIGMA_ZERO)
        rp = lambda mdl=None: replay_pinhole2d_init()
        if "par" not in seen:
            reg.prove("%s.Pinhole2D._init_data.builds_the_cloud" % PROP, pc, z3.BoolVal(False), function=fn, replay=rp)
            return
        clamp = lambda x: z3.If(x < eps, eps, x)
        base = {nm: arrs[nm].buf.base_fn for nm in names}
        ok_types = all(isinstance(seen[k], SArr) for k in ("par", "perp", "qx", "qy"))
        reg.prove("%s.Pinhole2D._init_data.radial_width_is_dqx_tangential_is_dqy.%s" % (PROP, "all_pixels"), pc + rng,
                  z3.And(seen["par"].at(j) == clamp(base["dqx_data"](j)), seen["perp"].at(j) == clamp(base["dqy_data"](j)),
                         seen["qx"].at(j) == base["qx_data"](j), seen["qy"].at(j) == base["qy_data"](j))
                  if ok_types else z3.BoolVal(False), function=fn, replay=rp)
        reg.prove("%s.Pinhole2D._init_data.frame.callers_width_arrays_are_not_modified" % PROP, pc + rng,
                  z3.And(arrs["dqx_data"].at(j) == base["dqx_data"](j), arrs["dqy_data"].at(j) == base["dqy_data"](j)),
                  function=fn, replay=rp)
        it.discharge_sides(reg, "%s.Pinhole2D._init_data" % PROP, function=fn)
    it = Interp(reg)
    it.poison_one_arm = False
    try:
        it.run_paths(body)
    except OutsideSubset as exc:
        reg.undecided("%s.Pinhole2D._init_data.engine" % PROP, "outside subset: %s" % exc, function=fn)


def replay_pinhole2d_init():
    """Real Pinhole2D on anisotropic widths including zeros: cloud extent per direction and caller's arrays."""
    import numpy as np
    from sasmodels import resolution2d as R2

    class D(object):
        pass
    d = D()
    d.qx_data = np.array([0.05, 0.08, 0.02])
    d.qy_data = np.array([0.0, 0.0, 0.0])          # q along x: radial = x, tangential = y
    d.q_data = np.hypot(d.qx_data, d.qy_data)
    d.dqx_data = np.array([0.01, 0.0, 0.004])
    d.dqy_data = np.array([0.002, 0.003, 0.0])
    keep = (d.dqx_data.copy(), d.dqy_data.copy())
    r = R2.Pinhole2D(data=d, accuracy="high")
    nq = 3
    qx = np.asarray(r.q_calc[0]).reshape(-1, nq)
    qy = np.asarray(r.q_calc[1]).reshape(-1, nq)
    ext_r = np.max(np.abs(qx - d.qx_data[None, :]), axis=0)
    ext_t = np.max(np.abs(qy - d.qy_data[None, :]), axis=0)
    want_r, want_t = np.maximum(keep[0], R2.SIGMA_ZERO), np.maximum(keep[1], R2.SIGMA_ZERO)
    rmax = 3.0 * (1 - 0.5 / r.nr)
    bad_cloud = not (np.allclose(ext_r, rmax * want_r, rtol=0.05, atol=1e-9) and np.allclose(ext_t, rmax * want_t, rtol=0.2, atol=1e-9))
    bad_frame = not (np.array_equal(d.dqx_data, keep[0]) and np.array_equal(d.dqy_data, keep[1]))
    return bool(bad_cloud or bad_frame), {
        "call": "Pinhole2D(data with dqx=[0.01,0,0.004], dqy=[0.002,0.003,0])",
        "real": {"radial_extent": ext_r.tolist(), "tangential_extent": ext_t.tolist(),
                 "callers_dqx_after": d.dqx_data.tolist(), "callers_dqy_after": d.dqy_data.tolist()},
        "spec": {"radial_extent": (rmax * want_r).tolist(), "tangential_extent": (rmax * want_t).tolist(),
                 "callers_dqx_after": keep[0].tolist(), "callers_dqy_after": keep[1].tolist()}}


SWEEP = r'''
import json, sys, warnings
import numpy as np
warnings.simplefilter("ignore")
from sasmodels import resolution, resolution2d
out = []
def rec(name, fn):
    try:
        r = fn()
        qc = r.q_calc if not isinstance(r.q_calc, list) else np.hypot(*r.q_calc)
        flat = r.apply(np.ones(len(qc) if not isinstance(r.q_calc, list) else len(r.q_calc[0])))
        W = getattr(r, "weight_matrix", None)
        out.append({"case": name, "ok": True, "qmin": float(np.min(qc)), "flat_min": float(np.min(flat)),
                    "flat_max": float(np.max(flat)), "wmin": float(W.min()) if W is not None else 0.0})
    except Exception as exc:
        out.append({"case": name, "ok": False, "error": repr(exc)[:120]})
grids = {"lin50": np.linspace(0.001, 0.3, 50), "log30": np.logspace(-3, -1, 30),
         "irregular": np.array([0.002, 0.0021, 0.004, 0.0095, 0.01, 0.05, 0.051, 0.2]),
         "two": np.array([0.01, 0.02]), "one": np.array([0.05])}
for g, q in grids.items():
    for s in ("zero", "rel5", "wide", "mixed"):
        dq = {"zero": 0*q, "rel5": 0.05*q, "wide": 1.5*q, "mixed": np.where(np.arange(len(q)) % 2, 0.2*q, 0*q)}[s]
        rec("pinhole.%s.%s" % (g, s), lambda q=q, dq=dq: resolution.Pinhole1D(q, dq))
    for L, W in ((0.05, 0.0), (0.0, 0.05), (0.05, 0.02), (0.0, 0.0), (q[0], 0.0), (0.0, q[0])):
        rec("slit.%s.L%g.W%g" % (g, L, W), lambda q=q, L=L, W=W: resolution.Slit1D(q, q_length=L, q_width=W))
class D: pass
qx, qy = np.meshgrid(np.linspace(-0.1, 0.1, 5), np.linspace(-0.1, 0.1, 4))
for acc in ("low", "med", "high", "xhigh"):
    d = D(); d.qx_data, d.qy_data = qx.flatten(), qy.flatten(); d.q_data = np.hypot(d.qx_data, d.qy_data)
    d.dqx_data, d.dqy_data = 0.01 + 0*d.q_data, 0.004 + 0*d.q_data
    rec("pinhole2d.%s" % acc, lambda d=d, acc=acc: resolution2d.Pinhole2D(data=d, accuracy=acc))
print("SWEEP" + json.dumps(out))
'''


def bounded_sweep(reg):
    """Constructors over grids x width settings: construct without error, q_calc > 0, weights >= 0, flat intensity
    unchanged.  Bounded stand-in for the configuration quantifier; failing cases that are recorded findings are
    obligations of their own (region.*)."""
    import sys
    import json
    import subprocess
    where = "sasmodels/resolution.py, sasmodels/resolution2d.py: constructors and apply"
    r = subprocess.run([sys.executable, "-c", SWEEP], capture_output=True, text=True, timeout=900)
    line = [l for l in r.stdout.splitlines() if l.startswith("SWEEP")]
    if not line:
        reg.fail("%s.sweep.runs" % PROP, {"call": "configuration sweep", "real": (r.stderr or r.stdout)[-500:], "spec": "runs"},
                 function=where, engine="runtime-contract", kind="bounded")
        return
    cases = json.loads(line[0][5:])
    reg.extra["configurations"] = len(cases)
    for c in cases:
        bad = (not c["ok"]) or c["qmin"] <= 0 or c["wmin"] < 0 or abs(c["flat_min"] - 1) > 1e-9 or abs(c["flat_max"] - 1) > 1e-9
        region = None
        if ".one." in c["case"] and (c["case"].endswith(".zero") or c["case"].endswith(".mixed") or c["case"].endswith("L0.W0")):
            region = "single_point_grid_with_zero_width"
        elif c["case"].startswith("slit.") and c["ok"] and abs(c["flat_min"] - 1) <= 1e-3 and abs(c["flat_max"] - 1) <= 1e-3:
            # perpendicular windows that reach below the smallest calculated q lose a little mass (documented finding)
            region = "slit_mass_below_smallest_calculated_q" if bad else None
        oid = "%s.sweep.%s" % (PROP, c["case"]) if region is None else "%s.region.%s" % (PROP, region)
        if bad:
            reg.fail(oid, {"call": c["case"], "real": c, "spec": "constructs; q_calc > 0; weights >= 0; flat intensity 1"},
                     function=where, engine="runtime-contract", kind="bounded")
        elif region is None:
            reg.passed(oid, function=where, engine="runtime-contract", kind="bounded", backend="cpython", bound=c["case"])


def check(reg, tier):
    bin_edges_contract(reg)
    for nq in ((1, 2, 3) if tier == "thorough" else (1, 2)):
        pinhole_resolution_contract(reg, nq)
    q_perp_weights_contract(reg)
    slit_row_contracts(reg)
    constructor_contracts(reg)
    extend_contracts(reg)
    apply_contracts(reg)
    pinhole2d_weights(reg)
    pinhole2d_init_contract(reg)
    bounded_sweep(reg)
    from contracts import c10
    from vp.core import adopt
    adopt(reg, c10._calc_theory_contract, "C10", only="calc_theory")
    # which resolution object a 1-D data set gets (zero widths among positive ones must still be smeared)
    from contracts import interp_data
    interp_data.contract(reg, PROP, {"resolution"})
    interp_data.contract_oriented(reg, PROP)
    reg.assume("erf, exp and sqrt are uninterpreted with the monotonicity / inverse facts instantiated where used; doubles are "
               "reals; sqrt(2.0) is the float constant")
    reg.assume("conclusions about sums (weights sum to one, flat intensity unchanged, scale and background pass through "
               "linearly) are instances of the Lean lemmas (lemmas/Sas.lean) whose hypotheses are the lemma_hyp.* and post.* "
               "obligations; the instantiation step itself is not mechanised")
