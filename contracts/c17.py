"""
C17 -- the compiled-model cache always reflects the current sources.

Cache coherence is split into contracts on the functions that implement it and
one lemma that composes them:

  K  library name = f(model id, tag_source(full generated source), precision),
     injective in tag and precision; make_dll compiles exactly the converted
     given source; a cache hit changes nothing               (contracts/buildsys)
  T  generate.tag_source hashes the whole source text
  A  generate._add_source / _kernels keep every input text in the assembled source
     (symbolic); make_source contains every input text (header, templates, every
     included file, C bodies) for every builtin model          (bounded, markers)
  L  generate.load_template returns the file's current text whenever its mtime is
     newer than the cached one, else the cached text; cache entry updated
  M  custom.need_reload is true iff some dependency is newer than the recorded load
     time; load_custom_kernel_module reloads then, records the dependencies found
     (module file + existing C sources) and the newest of their mtimes
  Lemma (z3): under 'every edit sets the file's mtime later than every mtime seen
     before' (monotone clock), L and M imply the text/module used is the current one.

Ghost state: MTIME(path), TEXT(path) for the file system at the time of the call.
"""
import z3

from vp.pyvc import Interp, Sym, SObj, Summary, IRaise, str_expr, is_str_sym
from vp.core import OutsideSubset
from contracts import buildsys

PROP = "C17"
S = z3.StringSort()
MTIME = z3.Function("mtime", S, z3.RealSort())
TEXT = z3.Function("text", S, S)


# --------------------------------------------------------------------------
# T: tag_source
# --------------------------------------------------------------------------

def tag_source_contract(reg):
    import zlib
    fn = "sasmodels.generate.tag_source"
    for crc in (0, 0x1234, 0xFFFFFFFF, -1, -0x7FFFFFFF, 0xDEADBEEF):
        def body(it, crc=crc):
            seen = []
            import sasmodels.generate as live
            it.models[live.crc32] = lambda it_, a, k: seen.append(a[0]) or crc
            src = Sym(z3.String("source"))
            f = it.get_func("sasmodels.generate", "tag_source")
            out = it.call(f, [src])
            whole = len(seen) == 1 and is_str_sym(seen[0]) and z3.eq(seen[0].e, src.e)
            reg.prove("%s.tag_source.hashes_the_whole_source" % PROP, it.pc, z3.BoolVal(whole), function=fn,
                      replay=lambda m: replay_tag_source())
            reg.prove("%s.tag_source.is_the_unsigned_crc_in_8_hex_digits" % PROP, it.pc,
                      z3.BoolVal(out == "%08X" % (crc & 0xFFFFFFFF)), function=fn, replay=lambda m: replay_tag_source())
        Interp(reg).run_paths(body)
    reg.assume("CRC32 is treated as collision free: two different generated sources of the same model id and precision "
               "with equal CRC32 would share a library (probability 2^-32 per pair; outside the contracts)")


def replay_tag_source():
    from sasmodels import generate
    a = generate.tag_source("abc" * 1000 + "x")
    b = generate.tag_source("abc" * 1000 + "y")
    return a == b, {"call": "generate.tag_source on two texts differing in the last character", "real": [a, b],
                    "spec": "different tags"}


# --------------------------------------------------------------------------
# A: assembly keeps every input text
# --------------------------------------------------------------------------

def assembly_contracts(reg):
    fn = "sasmodels.generate._add_source"

    def body(it):
        import sasmodels.generate as live
        it.summaries["sasmodels.generate._clean_source_filename"] = Summary(
            lambda it_, a, k: a[0], "_clean_source_filename", contract=False)
        code, path = Sym(z3.String("code")), Sym(z3.String("path"))
        lst = it.new_list(["earlier"])
        f = it.get_func("sasmodels.generate", "_add_source")
        it.call(f, [lst, code, path])
        items = lst.items
        ok = (len(items) == 3 and items[0] == "earlier" and is_str_sym(items[2]) and z3.eq(items[2].e, code.e))
        reg.prove("%s._add_source.appends_line_marker_and_the_text_itself" % PROP, it.pc, z3.BoolVal(ok), function=fn)
    Interp(reg).run_paths(body)

    def body2(it):
        it.summaries["sasmodels.generate._clean_source_filename"] = Summary(
            lambda it_, a, k: a[0], "_clean_source_filename", contract=False)
        code = Sym(z3.String("kernel_iq_text"))
        names = ["call_iq", "clear_iq", "call_iqxy", "clear_iqxy", "name"]
        args = [Sym(z3.String(n)) for n in names]
        f = it.get_func("sasmodels.generate", "_kernels")
        out = it.call(f, [(code, Sym(z3.String("kernel_path")))] + args)
        lists = list(out.items if hasattr(out, "items") and not isinstance(out, (tuple, list)) else out)
        ok = len(lists) == 3
        for lst in lists:
            items = lst.items if hasattr(lst, "items") else list(lst)
            ok = ok and any(is_str_sym(x) and z3.eq(x.e, code.e) for x in items)
        calls_ok = ok and any(is_str_sym(x) and z3.eq(x.e, args[0].e) for x in (lists[0].items if hasattr(lists[0], "items") else lists[0])) \
            and all(any(is_str_sym(x) and z3.eq(x.e, args[2].e) for x in (l.items if hasattr(l, "items") else l)) for l in lists[1:])
        reg.prove("%s._kernels.each_variant_contains_the_template_text_and_its_call_macro" % PROP, it.pc,
                  z3.BoolVal(bool(ok and calls_ok)), function="sasmodels.generate._kernels")
    Interp(reg).run_paths(body2)


def _marker_job(sub, name):
    """make_source(<model>)['dll'] contains every input text: each file read through
    read_text/load_template gets a unique marker appended, all markers must come out."""
    from sasmodels import core, generate
    where = "sasmodels/generate.py:make_source"
    info = core.load_model_info(name)
    marks = {}
    old_read, old_load = generate.read_text, generate.load_template

    def read_text(f):
        m = "/*VERIF-MARK-%d*/" % len(marks)
        marks[m] = f
        return old_read(f) + "\n" + m + "\n"

    def load_template(filename):
        text, path = old_load(filename)
        m = "/*VERIF-MARK-%d*/" % len(marks)
        marks[m] = path
        return text + "\n" + m + "\n", path
    try:
        generate.read_text, generate.load_template = read_text, load_template
        src = generate.make_source(info)["dll"]
        plain_tag = None
    finally:
        generate.read_text, generate.load_template = old_read, old_load
    missing = [f for m, f in marks.items() if m not in src]
    expected_files = set(generate.model_sources(info))
    seen_files = set(marks.values())
    bodies = [getattr(info, k) for k in ("Iq", "Iqxy", "Iqac", "Iqabc", "form_volume", "shell_volume", "c_code")
              if isinstance(getattr(info, k, None), str)]
    missing_bodies = [b[:40] for b in bodies if b.strip() and b not in src]
    oid = "%s.make_source.contains_every_input_text.%s" % (PROP, name)
    if not missing and expected_files <= seen_files and len(marks) >= 2 + len(expected_files) and not missing_bodies:
        sub.passed(oid, function=where, engine="runtime-contract", kind="bounded", backend="cpython",
                   bound="builtin model %s: %d marked input files" % (name, len(marks)))
    else:
        sub.fail(oid, {"call": "generate.make_source(<%s>) with a marker appended to every file read" % name,
                       "real": {"markers_missing_for": missing, "files_not_read": sorted(expected_files - seen_files),
                                "bodies_missing": missing_bodies},
                       "spec": "every marker, every included file and every C body occurs in the generated source"},
                 function=where, engine="runtime-contract", kind="bounded")


def make_source_markers(reg, tier):
    from sasmodels import core
    from vp.core import run_parallel
    names = [n for n in core.list_models() if not callable(core.load_model_info(n).Iq)]
    if tier != "thorough":
        names = names[::4] + ["lamellar", "sphere", "cylinder"]
    run_parallel(reg, _marker_job, sorted(set(names)))


# --------------------------------------------------------------------------
# L: load_template
# --------------------------------------------------------------------------

def load_template_contract(reg):
    import os.path
    fn = "sasmodels.generate.load_template"
    for cached in (False, True):
        def body(it, cached=cached):
            import sasmodels.generate as live
            m_now = z3.Real("mtime_now")
            m_old = z3.Real("mtime_cached")
            text_now, text_old = z3.String("text_now"), z3.String("text_cached")
            path = Sym(z3.String("template_path"))
            reads = []
            it.models[live.joinpath] = lambda it_, a, k: path
            it.models[live.getmtime] = lambda it_, a, k: Sym(m_now)

            def opener(it_, a, k):
                def read(it__, a_, k_):
                    reads.append(a[0])
                    return Sym(text_now)
                return it_.new_obj(None, {"read": Summary(read, "file.read", contract=False),
                                           "__exit__": Summary(lambda *x: None, "close", contract=False)}, "file")
            it.models[open] = opener
            it.with_hook = lambda src: src.startswith("open(")
            entries = {}
            if cached:
                entries["kernel_iq.c"] = (True, (Sym(m_old), Sym(text_old), path))
            cache = it.new_dict(entries)
            it.global_overrides = {("sasmodels.generate", "_template_cache"): cache}
            f = it.get_func("sasmodels.generate", "load_template")
            # any other module-level state the function declares 'global' stands for an arbitrary history:
            # the result may only depend on the per-file cache entry and the file itself
            import ast as _ast
            for node in _ast.walk(f.node):
                if isinstance(node, _ast.Global):
                    for gname in node.names:
                        if gname != "_template_cache":
                            it.global_overrides[("sasmodels.generate", gname)] = Sym(z3.Real("history!" + gname))
            out = it.call(f, ["kernel_iq.c"])
            text = out[0] if isinstance(out, tuple) else out.items[0]
            rpath = out[1] if isinstance(out, tuple) else out.items[1]
            tag = "cached" if cached else "first_use"
            te = str_expr(text)
            if cached:
                spec = z3.If(m_now > m_old, text_now, text_old)
            else:
                spec = text_now
            rp = lambda m: replay_load_template()
            reg.prove("%s.load_template.post.current_text_if_newer_else_cached.%s" % (PROP, tag), it.pc, te == spec,
                      function=fn, replay=rp)
            ent = cache.entries.get("kernel_iq.c")
            ok = ent is not None and (ent[0] is True or z3.is_true(z3.simplify(ent[0])))
            val = ent[1] if ok else None
            if ok and isinstance(val, tuple) and len(val) == 3:
                cm, ct = val[0], val[1]
                want_m = z3.If(m_now > m_old, m_now, m_old) if cached else m_now
                reg.prove("%s.load_template.post.cache_records_text_with_its_mtime.%s" % (PROP, tag), it.pc,
                          z3.And(str_expr(ct) == spec, (cm.e if isinstance(cm, Sym) else cm) == want_m), function=fn,
                          replay=rp)
            else:
                reg.undecided("%s.load_template.post.cache_records_text_with_its_mtime.%s" % (PROP, tag),
                              "cache entry not a 3-tuple after the call", function=fn)
            reg.prove("%s.load_template.post.returns_the_path.%s" % (PROP, tag), it.pc,
                      z3.BoolVal(rpath is path or (is_str_sym(rpath) and z3.eq(rpath.e, path.e))), function=fn)
        it = Interp(reg)
        it.poison_one_arm = False
        it.run_paths(body)


def replay_load_template():
    """Real load_template on a scratch template: edit with a later mtime must be seen."""
    import os
    import tempfile
    import shutil
    from sasmodels import generate
    d = tempfile.mkdtemp(prefix="verif_tpl_")
    old = generate.DATA_PATH
    try:
        generate.DATA_PATH = d
        p = os.path.join(d, "verif_template.c")
        open(p, "w").write("one")
        os.utime(p, (1000, 1000))
        a = generate.load_template("verif_template.c")[0]
        open(p, "w").write("two")
        os.utime(p, (1003, 1003))
        b = generate.load_template("verif_template.c")[0]
        c = generate.load_template("verif_template.c")[0]
        # two templates edited one after the other, reloaded in the opposite order
        p2 = os.path.join(d, "verif_template2.c")
        open(p2, "w").write("A")
        os.utime(p2, (1004, 1004))
        generate.load_template("verif_template2.c")
        open(p, "w").write("three")
        os.utime(p, (1010, 1010))
        open(p2, "w").write("B")
        os.utime(p2, (1020, 1020))
        e2 = generate.load_template("verif_template2.c")[0]
        e1 = generate.load_template("verif_template.c")[0]
    finally:
        generate.DATA_PATH = old
        generate._template_cache.pop("verif_template.c", None)
        generate._template_cache.pop("verif_template2.c", None)
        shutil.rmtree(d, ignore_errors=True)
    got = (a, b, c, e2, e1)
    want = ("one", "two", "two", "B", "three")
    return got != want, {"call": "load_template: one file before/after an edit; then two files edited in turn and reloaded "
                                 "in the opposite order", "real": list(got), "spec": list(want)}


# --------------------------------------------------------------------------
# M: custom.need_reload / load_custom_kernel_module
# --------------------------------------------------------------------------

def need_reload_contract(reg):
    import os.path
    fn = "sasmodels.custom.need_reload"
    for ndep in (None, 1, 2, 3):
        def body(it, ndep=ndep):
            import sasmodels.custom as live
            # the module path is only used as a dictionary key and as an argument of getmtime:
            # a fixed representative string (dictionary keys are concrete in the engine)
            path = "/plugins/verif_model.py"
            deps = [path] + [Sym(z3.String("c_source_%d" % k)) for k in range(1, ndep or 1)]
            it.models[os.path.getmtime] = lambda it_, a, k: Sym(MTIME(str_expr(a[0])))
            t_load = z3.Real("time_recorded_at_load")
            module = it.new_obj(None, {}, "module")
            if ndep is None:
                cache, depends = it.new_dict({}), it.new_dict({})
                spec = z3.RealVal(-1) < MTIME(str_expr(path))
            else:
                cache = it.new_dict({path_key(path): (True, (module, Sym(t_load)))})
                depends = it.new_dict({path_key(path): (True, it.new_list(list(deps)))})
                spec = z3.Or(*[t_load < MTIME(str_expr(d)) for d in deps])
            it.global_overrides = {("sasmodels.custom", "_MODULE_CACHE"): cache,
                                   ("sasmodels.custom", "_MODULE_DEPENDS"): depends}
            f = it.get_func("sasmodels.custom", "need_reload")
            out = it.call(f, [path_key(path)])
            oe = out.e if isinstance(out, Sym) else z3.BoolVal(bool(out))
            reg.prove("%s.need_reload.true_iff_some_dependency_is_newer_than_the_recorded_load.%s"
                      % (PROP, "never_loaded" if ndep is None else "%d_dependencies" % ndep), it.pc, oe == spec,
                      function=fn, replay=lambda m: replay_need_reload())
        it = Interp(reg)
        it.poison_one_arm = False
        it.run_paths(body)


def path_key(p):
    """dict key for a symbolic path: the harness uses the Sym object itself (identity)."""
    return p


def replay_need_reload():
    """Real need_reload: module file and one C source; only the module file is newer."""
    import os
    import tempfile
    import shutil
    from sasmodels import custom
    d = tempfile.mkdtemp(prefix="verif_reload_")
    try:
        py, cf = os.path.join(d, "m.py"), os.path.join(d, "m.c")
        for p in (py, cf):
            open(p, "w").write("x")
            os.utime(p, (1000, 1000))
        custom._MODULE_CACHE[py] = (None, 1000)
        custom._MODULE_DEPENDS[py] = set([py, cf])
        a = custom.need_reload(py)
        os.utime(py, (1005, 1005))
        b = custom.need_reload(py)
        os.utime(py, (1000, 1000))
        os.utime(cf, (1005, 1005))
        c = custom.need_reload(py)
    finally:
        custom._MODULE_CACHE.pop(py, None)
        custom._MODULE_DEPENDS.pop(py, None)
        shutil.rmtree(d, ignore_errors=True)
    return (a, b, c) != (False, True, True), {"call": "need_reload: nothing newer / module newer / C source newer",
                                              "real": [a, b, c], "spec": [False, True, True]}


def coherence_lemma(reg):
    """Monotone clock + the two reload rules => the text used is the current text."""
    fn = "ghost: file system history"
    # one file: text_cached is the text as of m_cached (invariant); an edit after that sets mtime' > every mtime
    # seen before, in particular > m_cached; no edit => same mtime and same text
    m_c, m_now = z3.Real("m_cached"), z3.Real("m_now")
    t_c, t_now = z3.String("t_cached"), z3.String("t_now")
    edited = z3.Bool("edited_since_cached")
    world = [z3.Implies(edited, m_now > m_c), z3.Implies(z3.Not(edited), z3.And(m_now == m_c, t_now == t_c))]
    used = z3.If(m_now > m_c, t_now, t_c)
    reg.prove("%s.lemma.template_text_used_is_current" % PROP, world, used == t_now, function=fn,
              describe="load_template's rule under 'an edit advances the mtime beyond the cached one'")
    # several dependencies: recorded time T = max of their mtimes at load; an edit to any of them sets its mtime > T
    n = 3
    T = z3.Real("T_recorded")
    ms = [z3.Real("m_dep%d" % k) for k in range(n)]
    ed = [z3.Bool("edited_dep%d" % k) for k in range(n)]
    world = []
    for k in range(n):
        world += [z3.Implies(ed[k], ms[k] > T), z3.Implies(z3.Not(ed[k]), ms[k] <= T)]
    reload_ = z3.Or(*[T < m for m in ms])
    reg.prove("%s.lemma.module_is_reloaded_iff_some_dependency_was_edited" % PROP, world, reload_ == z3.Or(*ed),
              function=fn, describe="need_reload's rule under the monotone clock assumption (3 dependencies; the rule is "
                                    "symmetric in the dependencies)")
    reg.assume("monotone clock: every edit sets the file's mtime later than every mtime recorded before it (the property's "
               "'each edit advancing the file's modification time'); files with modification times in the future are "
               "excluded (documented TODO in custom.need_reload)")


# --------------------------------------------------------------------------
# bounded: a real edit/load/evaluate history in one process and in fresh ones
# --------------------------------------------------------------------------

HISTORY = r'''
import os, sys, json, tempfile, shutil, subprocess
work = sys.argv[1]
os.environ["SAS_DLL_PATH"] = os.path.join(work, "cache"); os.environ["SAS_OPENCL"] = "none"
import numpy as np
from sasmodels.core import load_model
from sasmodels.direct_model import call_kernel
PY, CF = os.path.join(work, "verifhist.py"), os.path.join(work, "verifhist_lib.c")
Q = np.array([0.02, 0.2, 0.6])
clock = [1600000000]
def write(path, text):
    open(path, "w").write(text); clock[0] += 2; os.utime(path, (clock[0], clock[0]))
def c_text(K): return "double amp(double q, double b) { return %r*exp(-b*q*q); }\n" % K
def py_text(M, b):
    return ('name = "verifhist"\ntitle = "t"\ndescription = "d"\ncategory = "shape-independent"\n'
            'parameters = [["b", "", %r, [0, 10], "", "decay"]]\nsource = ["verifhist_lib.c"]\n'
            'Iq = """\n    return %r*amp(q, b);\n"""\n' % (b, M))
def here(dtype):
    m = load_model(PY, dtype=dtype)
    return [float(v) for v in call_kernel(m.make_kernel([Q]), {})], os.path.basename(m.dllpath)
CHILD = "import sys,json,os;import numpy as np;from sasmodels.core import load_model;from sasmodels.direct_model import call_kernel;" \
        "m=load_model(sys.argv[1],dtype=sys.argv[2]);print(json.dumps([[float(v) for v in call_kernel(m.make_kernel([np.array(%r)]),{})],os.path.basename(m.dllpath)]))" % (list(Q),)
def fresh(dtype):
    out = subprocess.check_output([sys.executable, "-c", CHILD, PY, dtype], env=dict(os.environ)).decode().strip().splitlines()[-1]
    return json.loads(out)
steps = [("init", 1.5, 3.0, 2.0, "double!"), ("py const", 2.5, 3.0, 2.0, "double!"), ("py default", 2.5, 3.0, 0.7, "double!"),
         ("c const", 2.5, 4.25, 0.7, "double!"), ("precision", 2.5, 4.25, 0.7, "single!"), ("py const", 0.5, 4.25, 0.7, "double!"),
         ("revert", 1.5, 3.0, 2.0, "double!")]
log, prev = [], None
libs = {}
for label, M, K, b, dtype in steps:
    if prev is None or prev[1] != K: write(CF, c_text(K))
    if prev is None or (prev[0], prev[2]) != (M, b): write(PY, py_text(M, b))
    prev = (M, K, b)
    want = (M*K*np.exp(-b*Q*Q) + 0.001).tolist()
    a, la = here(dtype); f, lf = fresh(dtype)
    libs.setdefault((M, K, dtype), set()).update([la, lf])
    log.append({"step": label, "want": want, "same_process": a, "fresh_process": f, "libs": [la, lf]})
print("HISTORY" + json.dumps({"log": log, "libs": {repr(k): sorted(v) for k, v in libs.items()}}))
'''


def bounded_history(reg):
    import os
    import sys
    import json
    import shutil
    import tempfile
    import subprocess
    import numpy as np
    where = "sasmodels/core.py:load_model (plugin with an included C file)"
    work = tempfile.mkdtemp(prefix="verif_c17_")
    try:
        script = os.path.join(work, "history.py")
        open(script, "w").write(HISTORY)
        os.makedirs(os.path.join(work, "cache"))
        r = subprocess.run([sys.executable, script, work], capture_output=True, text=True, timeout=900,
                           env=dict(os.environ))
        line = [l for l in r.stdout.splitlines() if l.startswith("HISTORY")]
    finally:
        shutil.rmtree(work, ignore_errors=True)
    oid = "%s.history.edit_load_evaluate_same_and_fresh_process" % PROP
    if not line:
        reg.fail(oid, {"call": "7-step edit/load/evaluate history", "real": (r.stderr or r.stdout)[-600:],
                       "spec": "history runs"}, function=where, engine="runtime-contract", kind="bounded")
        return
    data = json.loads(line[0][len("HISTORY"):])
    bad = []
    for st in data["log"]:
        tol = 1e-5 if "single" in repr(st) else 1e-12
        for who in ("same_process", "fresh_process"):
            got, want = np.array(st[who]), np.array(st["want"])
            if not np.allclose(got, want, rtol=1e-5 if st["step"] == "precision" else 1e-12):
                bad.append({"step": st["step"], "where": who, "real": st[who], "spec": st["want"]})
        if st["libs"][0] != st["libs"][1]:
            bad.append({"step": st["step"], "libs": st["libs"]})
    names = {}
    for k, v in data["libs"].items():
        for lib in v:
            names.setdefault(lib, set()).add(k)
    shared = {lib: sorted(ks) for lib, ks in names.items() if len(ks) > 1}
    multi = {k: v for k, v in data["libs"].items() if len(v) > 1}
    if bad or shared or multi:
        reg.fail(oid, {"call": "7-step history: edits of the .py constant, the parameter default, the included .c, the "
                               "precision, and a revert; loads in the same and in fresh processes",
                       "real": {"wrong": bad[:4], "libraries_shared_by_different_sources": shared,
                                "one_source_several_libraries": multi},
                       "spec": "current sources evaluated at every step; one library per (generated source, precision)"},
                 function=where, engine="runtime-contract", kind="bounded")
    else:
        reg.passed(oid, function=where, engine="runtime-contract", kind="bounded", backend="cpython",
                   bound="one 7-step history (plugin + included C file), same-process and fresh-process loads")


def check(reg, tier):
    buildsys.dll_name_contract(reg, PROP)
    buildsys.make_dll_dtype_contract(reg, PROP)
    tag_source_contract(reg)
    assembly_contracts(reg)
    load_template_contract(reg)
    need_reload_contract(reg)
    load_custom_contract(reg)
    coherence_lemma(reg)
    # the SasView wrapper's class registry follows the module cache (contract shared with C11)
    from vp.core import adopt
    from contracts import c11
    adopt(reg, c11._load_custom_model, "C11", only="load_custom_model")
    make_source_markers(reg, tier)
    bounded_history(reg)
    reg.assume("cache invariant: a library under a cache name was produced by make_dll for the (id, tag, precision) of that "
               "name (make_dll is the only writer; C18 proves it only publishes complete files); files in the cache "
               "directory are not modified by anything else")
    reg.assume("load_custom_kernel_module (module import, dependency bookkeeping) is covered by the need_reload contract, "
               "the lemma and the bounded history only; direct_model's documented _model_cache is outside the property")


def load_custom_contract(reg):
    """load_custom_kernel_module: reloads iff need_reload, records the module file plus the
    C sources that exist as dependencies and the newest of their mtimes as the load time."""
    import os
    import os.path
    fn = "sasmodels.custom.load_custom_kernel_module"
    for reload_ in (True, False):
        def body(it, reload_=reload_):
            import sasmodels.custom as live
            path = "/plugins/verif_model.py"
            csrc = "/plugins/verif_lib.c"
            it.models[os.path.getmtime] = lambda it_, a, k: Sym(MTIME(str_expr(a[0])))
            it.models[os.path.expanduser] = lambda it_, a, k: a[0]
            c_exists = z3.Bool("c_source_exists")
            it.models[live.exists] = lambda it_, a, k: Sym(c_exists) if a[0] == csrc else False
            loaded = []
            new_module = it.new_obj(None, {"source": it.new_list(["verif_lib.c"])}, "fresh_module")
            old_module = it.new_obj(None, {}, "cached_module")

            def load(it_, a, k):
                loaded.append(a)
                return new_module
            it.summaries["sasmodels.custom.load_module_from_path"] = Summary(load, "load_module_from_path (import)")
            it.summaries["sasmodels.custom.need_reload"] = Summary(
                lambda it_, a, k: reload_, "need_reload (contract above)", contract=False)
            t_old = z3.Real("time_recorded_at_load")
            cache = it.new_dict({path: (True, (old_module, Sym(t_old)))})
            dep0 = it.new_list([path])
            dep0.is_set = True
            depends = it.new_dict({path: (True, dep0)})
            stack = it.new_list([])
            it.global_overrides = {("sasmodels.custom", "_MODULE_CACHE"): cache,
                                   ("sasmodels.custom", "_MODULE_DEPENDS"): depends,
                                   ("sasmodels.custom", "_MODULE_DEPENDS_STACK"): stack}
            f = it.get_func("sasmodels.custom", "load_custom_kernel_module")
            out = it.call(f, [path])
            tag = "reload" if reload_ else "cached"
            ent = cache.entries[path][1]
            dep = depends.entries[path][1]
            dep_items = set(dep.items) if hasattr(dep, "items") and not isinstance(dep, (set, dict)) else set(dep)
            if reload_:
                reg.prove("%s.load_custom_kernel_module.reload_returns_the_freshly_imported_module" % PROP, it.pc,
                          z3.BoolVal(out is new_module and len(loaded) == 1 and loaded[0][1] == path and ent[0] is new_module),
                          function=fn)
                m_py, m_c = MTIME(z3.StringVal(path)), MTIME(z3.StringVal(csrc))
                want_t = z3.If(c_exists, z3.If(m_c > m_py, m_c, m_py), m_py)
                got_t = ent[1].e if isinstance(ent[1], Sym) else z3.RealVal(ent[1])
                reg.prove("%s.load_custom_kernel_module.records_newest_dependency_mtime" % PROP, it.pc, got_t == want_t,
                          function=fn)
                reg.prove("%s.load_custom_kernel_module.dependencies_are_module_file_and_existing_c_sources" % PROP, it.pc,
                          z3.If(c_exists, z3.BoolVal(dep_items == {path, csrc}), z3.BoolVal(dep_items == {path})), function=fn)
            else:
                reg.prove("%s.load_custom_kernel_module.no_reload_returns_the_cached_module_unchanged" % PROP, it.pc,
                          z3.BoolVal(out is old_module and not loaded and ent[0] is old_module
                                     and isinstance(ent[1], Sym) and z3.eq(ent[1].e, t_old)), function=fn)
            reg.prove("%s.load_custom_kernel_module.dependency_stack_is_balanced.%s" % (PROP, tag), it.pc,
                      z3.BoolVal(len(stack.items) == 0), function=fn)
        it = Interp(reg)
        it.poison_one_arm = False
        try:
            it.run_paths(body)
        except OutsideSubset as exc:
            reg.undecided("%s.load_custom_kernel_module.engine.%s" % (PROP, "reload" if reload_ else "cached"),
                          "outside subset: %s" % exc, function=fn)
