"""
C06 -- polarised magnetic scattering is the weighted sum of the four spin channels.

Functions under contract (C, generated source of a magnetic model as clang
expands it): set_spin_weights, mag_sld (with clip, SET_VEC, ORTH_VEC,
SCALAR_VEC inlined); Python: details.convert_magnetism (through its numpy
model).  The per-q channel loop of <model>_Imagnetic, the magnetic slot layout
and the kernel selection by the magnetic flag are obligations of the kernel
contract (contracts/kernel_c.py) and of C11.DllKernel._call_kernel.

Spec (property statement, doc/guide/magnetism/magnetism.rst):
  i, f = clip(up_frac_i, 0, 1), clip(up_frac_f, 0, 1)
  (w_dd, w_du, w_ud, w_uu) = ((1-i)(1-f), (1-i) f, i (1-f), i f) / max(f, 1-f)
  qhat = (qx, qy, 0)/|q|,  Mperp = M - qhat (qhat . M)
  P  = (sin t cos p, sin t sin p, cos t)            (polarisation axis)
  e1 = (-sin p, cos p, 0), e2 = (-cos t cos p, -cos t sin p, sin t)
  effective SLD:  dd: rho - P.Mperp   uu: rho + P.Mperp
                  du, ud (real part): e1.Mperp     (imaginary part): -/+ e2.Mperp
  {P, e1, e2} is an orthonormal frame.
"""
import z3

from vp import cvc
from vp.cvc import CExec, Cell, Ptr, CArr, uf
from vp.core import z3val

PROP = "C06"
MODEL = "sphere"


def check(reg, tier):
    tu = cvc.model_tu(MODEL)
    for f in ("set_spin_weights", "mag_sld"):
        fn = tu.functions[f]
        reg.function_under_contract("kernel_iq.c:%s [%s]" % (f, MODEL), "sasmodels/kernel_iq.c",
                                    fn["loc"].get("presumedLine", 0), 0, tu.func_text(fn))
    _spin_weights(reg, tu)
    _mag_sld(reg, tu)
    from contracts import kernel_c
    kernel_c.magnetic_clauses(reg, PROP, tier)
    _convert_magnetism(reg)
    reg.assume("sin/cos of the polarisation angles enter mag_sld as the four arguments "
               "cos_mtheta, sin_mtheta, cos_mphi, sin_mphi with s^2+c^2=1; sqrt(x)^2 = x for x > 0")
    # I(-rho) = I(rho), used to write the spin-flip term as (w_du + w_ud) [I(e1.M) + I(e2.M)]: per model
    from contracts import parity
    parity.sld_parity(reg, PROP)
    reg.assume(parity.ASSUMPTION)


def _spin_weights(reg, tu):
    ex = CExec(tu, reg)
    i_in, f_in = z3.Real("up_frac_i"), z3.Real("up_frac_f")
    fw = z3.Function("w_uninit", z3.IntSort(), z3.RealSort())
    w = CArr(lambda j: fw(j), "real", "weight", 6)
    ex.call_function("set_spin_weights", [i_in, f_in, Ptr(w, 0)])

    def clip(x):
        return z3.If(x < 0, z3.RealVal(0), z3.If(x > 1, z3.RealVal(1), x))
    i, f = clip(i_in), clip(f_in)
    norm = z3.If(f >= 1 - f, f, 1 - f)
    spec = [(1 - i) * (1 - f) / norm, (1 - i) * f / norm, i * (1 - f) / norm, i * f / norm]
    spec += [spec[1], spec[2]]

    def replay(m):
        import numpy as np
        from contracts import cshim
        lib = cshim.build(MODEL)
        bad = []
        for a, b in [(z3val(m, i_in, 0.3), z3val(m, f_in, 0.8)), (0.3, 0.8), (0.0, 0.5), (1.0, 0.2),
                     (-0.5, 1.7), (0.5, 0.5)]:
            got = lib.spin_weights(a, b)
            ci, cf = min(max(a, 0.0), 1.0), min(max(b, 0.0), 1.0)
            n = max(cf, 1 - cf)
            exp = np.array([(1 - ci) * (1 - cf), (1 - ci) * cf, ci * (1 - cf), ci * cf]) / n
            exp = np.hstack((exp, [exp[1], exp[2]]))
            if not np.allclose(got, exp, rtol=1e-13, atol=1e-15):
                bad.append({"up_frac_i": a, "up_frac_f": b, "real": got.tolist(), "spec": exp.tolist()})
        return bool(bad), {"call": "set_spin_weights", "mismatches": bad[:3]}
    for k, name in enumerate(["dd", "du", "ud", "uu", "du_imag", "ud_imag"]):
        reg.prove("%s.set_spin_weights.w_%s" % (PROP, name), [], w.at(k) == spec[k],
                  function="kernel_iq.c:set_spin_weights", engine="cvc", nl=True, replay=replay)
    # the four channel weights add up to 1/max(f, 1-f) (normalisation clause)
    reg.prove("%s.set_spin_weights.sum_is_one_over_max" % PROP, [],
              (w.at(0) + w.at(1) + w.at(2) + w.at(3)) * norm == 1,
              function="kernel_iq.c:set_spin_weights", engine="cvc", nl=True, replay=replay)


def _mag_sld(reg, tu):
    qx, qy = z3.Real("qx"), z3.Real("qy")
    ct, st_, cp, sp = z3.Real("cos_mtheta"), z3.Real("sin_mtheta"), z3.Real("cos_mphi"), z3.Real("sin_mphi")
    sld, mx, my, mz = z3.Real("sld"), z3.Real("mx"), z3.Real("my"), z3.Real("mz")
    sq = uf("sqrt", 1)
    q2 = qx * qx + qy * qy
    r = sq(q2)
    axioms = [ct * ct + st_ * st_ == 1, cp * cp + sp * sp == 1, q2 > 0, r > 0, r * r == q2]
    qh = [qx / r, qy / r, z3.RealVal(0)]
    M = [mx, my, mz]
    qM = sum(a * b for a, b in zip(qh, M))
    Mp = [M[k] - qh[k] * qM for k in range(3)]
    P = [st_ * cp, st_ * sp, ct]
    e1 = [-sp, cp, z3.RealVal(0)]
    e2 = [-ct * cp, -ct * sp, st_]

    def dot(a, b):
        return sum(x * y for x, y in zip(a, b))
    spec = {0: sld - dot(P, Mp), 1: dot(e1, Mp), 2: dot(e1, Mp), 3: sld + dot(P, Mp),
            4: -dot(e2, Mp), 5: dot(e2, Mp)}
    names = {0: "dd", 1: "du_real", 2: "ud_real", 3: "uu", 4: "du_imag", 5: "ud_imag"}

    def replay(m):
        import numpy as np
        from contracts import cshim
        lib = cshim.build(MODEL)
        rng = np.random.RandomState(3)
        bad = []
        for _ in range(6):
            x, y = rng.uniform(-0.1, 0.1, 2)
            t, p = rng.uniform(0, np.pi), rng.uniform(-np.pi, np.pi)
            s0, m0 = rng.uniform(1, 5), rng.uniform(-2, 2, 3)
            qn = np.array([x, y, 0]) / np.hypot(x, y)
            mp = m0 - qn * np.dot(qn, m0)
            Pn = np.array([np.sin(t) * np.cos(p), np.sin(t) * np.sin(p), np.cos(t)])
            e1n = np.array([-np.sin(p), np.cos(p), 0])
            e2n = np.array([-np.cos(t) * np.cos(p), -np.cos(t) * np.sin(p), np.sin(t)])
            exp = [s0 - Pn @ mp, e1n @ mp, e1n @ mp, s0 + Pn @ mp, -(e2n @ mp), e2n @ mp]
            for xs in range(6):
                got = lib.mag_sld(xs, x, y, np.cos(t), np.sin(t), np.cos(p), np.sin(p), s0, *m0)
                if abs(got - exp[xs]) > 1e-10 * max(1, abs(exp[xs])):
                    bad.append({"xs": xs, "qx": x, "qy": y, "up_theta": t, "up_phi": p,
                                "real": got, "spec": float(exp[xs])})
        return bool(bad), {"call": "mag_sld", "mismatches": bad[:4]}
    for xs in range(6):
        ex = CExec(tu, reg)
        ret, _ = ex.call_function("mag_sld", [z3.IntVal(xs), qx, qy, ct, st_, cp, sp, sld, mx, my, mz])
        reg.prove("%s.mag_sld.channel_%s" % (PROP, names[xs]), axioms, ret == spec[xs],
                  function="kernel_iq.c:mag_sld", engine="cvc", nl=True, replay=replay,
                  timeout_ms=60000)
    # orthonormal frame {P, e1, e2}
    ortho = z3.And(dot(P, P) == 1, dot(e1, e1) == 1, dot(e2, e2) == 1,
                   dot(P, e1) == 0, dot(P, e2) == 0, dot(e1, e2) == 0)
    reg.prove("%s.lemma.P_e1_e2_orthonormal" % PROP, axioms, ortho,
              function="spec lemma over mag_sld", engine="cvc", nl=True,
              poly=[(st_, ct), (sp, cp)])
    # Mperp is perpendicular to q
    reg.prove("%s.lemma.Mperp_orthogonal_to_q" % PROP, axioms, dot(Mp, qh) * r * r * r == 0,
              function="spec lemma over mag_sld", engine="cvc", nl=True, timeout_ms=60000)


def _convert_magnetism(reg):
    """details.convert_magnetism: (M0, theta, phi) -> M0 (sin t cos p, sin t sin p, cos t)
    per SLD, in place on the (fresh) value vector; returns True iff some M0 != 0."""
    # the function reshapes to 2-D and uses column slicing: outside the 1-D array
    # model of pyvc -> bounded run-time contract on the real function
    import time
    import numpy as np
    from sasmodels import details
    t0 = time.time()

    class PT(object):
        def __init__(self, nmag, nvalues):
            self.nmagnetic, self.nvalues = nmag, nvalues
    rng = np.random.RandomState(11)
    bad = []
    ncases = 0
    for nmag in (1, 2, 3, 10):
        for zero_pattern in ("none", "all", "some"):
            nvalues = 2 + 7 + 4 + 3 * nmag
            v = rng.uniform(-3, 3, nvalues + 5)
            base = nvalues - 3 * nmag
            if zero_pattern == "all":
                v[base:nvalues:3] = 0.0
            elif zero_pattern == "some":
                v[base] = 0.0
                v[base + 3 * (nmag - 1)] = -1.5
            before = v.copy()
            flag = details.convert_magnetism(PT(nmag, nvalues), v)
            ncases += 1
            exp = before.copy()
            anym = bool(np.any(before[base:nvalues:3] != 0))
            if anym:
                for k in range(nmag):
                    m0, t, p = before[base + 3 * k:base + 3 * k + 3]
                    t, p = np.radians(t), np.radians(p)
                    exp[base + 3 * k:base + 3 * k + 3] = [m0 * np.sin(t) * np.cos(p),
                                                          m0 * np.sin(t) * np.sin(p), m0 * np.cos(t)]
            if flag != anym or not np.allclose(v, exp, rtol=1e-13, atol=1e-15):
                bad.append({"nmag": nmag, "pattern": zero_pattern, "flag": bool(flag), "expected_flag": anym})
    oid = "%s.convert_magnetism.polar_to_cartesian_and_flag" % PROP
    if bad:
        reg.fail(oid, {"mismatches": bad[:3]}, function="sasmodels.details.convert_magnetism",
                 kind="bounded")
    else:
        reg.passed(oid, function="sasmodels.details.convert_magnetism", kind="bounded",
                   backend="run-time contract", seconds=time.time() - t0,
                   bound="%d seeded cases: nmagnetic in {1,2,3,10} x zero patterns (incl. negative M0)" % ncases)
