"""
Reference C99 preprocessing tokenizer and the token-level specification of the
precision conversion (C15): written from the C99 grammar (6.4), independent of
the regular expressions in generate.py.

tokens(text) -> list of (kind, text) with kinds
   id, num, str, chr, punct, directive-hash ('#' first on a line), header
comments and white space are dropped (they are not tokens).

spec_convert(tokens, type_name, flag): every unsuffixed floating constant
(decimal or hexadecimal) gets the suffix, the type keywords double, cdouble,
doubleN, cdoubleN (N in 2,4,8,16) have 'double' replaced by the type name,
every other token is unchanged.
"""
import re

PUNCT = ["%:%:", "...", "<<=", ">>=", "->", "++", "--", "<<", ">>", "<=", ">=", "==", "!=", "&&", "||",
         "*=", "/=", "%=", "+=", "-=", "&=", "^=", "|=", "##", "<:", ":>", "<%", "%>", "%:"]

ID_RE = re.compile(r"[A-Za-z_][A-Za-z_0-9]*")
PPNUM_RE = re.compile(r"\.?[0-9](?:[eEpP][+-]|[0-9A-Za-z_.])*")
STR_RE = re.compile(r'L?"(?:[^"\\\n]|\\.)*"')
CHR_RE = re.compile(r"L?'(?:[^'\\\n]|\\.)*'")

# C99 6.4.4.2 floating constants, without suffix
DEC_FLOAT = re.compile(r"(?:(?:[0-9]*\.[0-9]+|[0-9]+\.)(?:[eE][+-]?[0-9]+)?|[0-9]+[eE][+-]?[0-9]+)\Z")
HEX_FLOAT = re.compile(r"0[xX](?:[0-9a-fA-F]*\.[0-9a-fA-F]+|[0-9a-fA-F]+\.?)[pP][+-]?[0-9]+\Z")
TYPE_KW = re.compile(r"(c?)double((?:2|4|8|16)?)\Z")


def tokens(text):
    out, i, n = [], 0, len(text)
    line_start = True
    while i < n:
        ch = text[i]
        if ch == "\\" and text[i:i + 2] == "\\\n":
            i += 2
            continue
        if ch in " \t\r\f\v":
            i += 1
            continue
        if ch == "\n":
            i += 1
            line_start = True
            continue
        if text.startswith("/*", i):
            j = text.find("*/", i + 2)
            i = n if j < 0 else j + 2
            continue
        if text.startswith("//", i):
            j = text.find("\n", i)
            i = n if j < 0 else j
            continue
        m = STR_RE.match(text, i) or CHR_RE.match(text, i)
        if m:
            out.append(("str" if '"' in m.group(0)[:2] else "chr", m.group(0)))
            i = m.end()
            line_start = False
            continue
        m = ID_RE.match(text, i)
        if m:
            out.append(("id", m.group(0)))
            i = m.end()
            line_start = False
            continue
        m = PPNUM_RE.match(text, i)
        if m:
            out.append(("num", m.group(0)))
            i = m.end()
            line_start = False
            continue
        for p in PUNCT:
            if text.startswith(p, i):
                out.append(("punct", p))
                i += len(p)
                break
        else:
            out.append(("hash" if (ch == "#" and line_start) else "punct", ch))
            i += 1
        line_start = False
    return out


def is_unsuffixed_float(tok):
    return bool(DEC_FLOAT.match(tok) or HEX_FLOAT.match(tok))


def spec_convert(toks, type_name, flag):
    out = []
    for kind, t in toks:
        if kind == "num" and is_unsuffixed_float(t):
            out.append((kind, t + flag))
        elif kind == "id" and TYPE_KW.match(t):
            m = TYPE_KW.match(t)
            # 'long double' is two tokens
            for k, part in enumerate((m.group(1) + type_name).split(" ")):
                out.append(("id", part + (m.group(2) if k == len(type_name.split(" ")) - 1 else "")))
        else:
            out.append((kind, t))
    return out


def first_difference(a, b):
    for k, (x, y) in enumerate(zip(a, b)):
        if x != y:
            return k, x, y
    if len(a) != len(b):
        k = min(len(a), len(b))
        return k, (a[k] if k < len(a) else None), (b[k] if k < len(b) else None)
    return None
