"""
C01 -- dispersity-averaged I(q) is the documented volume-normalised weighted mean.

C half: contracts/kernel_c.py (generated kernels <model>_Iq/_Iqxy).
Python half: contracts/pykernel.py (chunked invocation, normalisation),
details.make_details (below).
"""
PROP = "C01"


def check(reg, tier):
    from contracts import pykernel, kernel_c
    pykernel.dll_call_kernel(reg, PROP)
    pykernel.kernel_Fq_Iq(reg, PROP)
    kernel_c.kernel_contracts(reg, PROP, tier)
    from contracts import details_rt, details_sym
    details_sym.make_details_contract(reg, PROP, tier)
    details_sym.make_kernel_args_contract(reg, PROP, tier)
    details_rt.run(reg, PROP)
    reg.extra["bounded_note"] = ("make_details and make_kernel_args (1..3 non-magnetic parameters): proved symbolically (contracts/details_sym.py); additionally a bounded run-time contract over every "
                                 "(builtin model, dispersible parameter) x {several, single, empty} mesh; "
                                 "never counted as proved")
