"""C01 (Python half for now): chunked kernel invocation and normalisation."""
PROP = "C01"


def check(reg, tier):
    from contracts import pykernel
    pykernel.dll_call_kernel(reg, PROP)
    pykernel.kernel_Fq_Iq(reg, PROP)
