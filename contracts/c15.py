"""
C15 -- precision conversion changes only floating types and literals.

  * generate.convert_type: symbolic execution (z3 strings) against
    '#define FLOAT_SIZE n' + convert(promote(source))           (contracts/buildsys.py)
  * the three regular expressions: language lemmas over all strings (contracts/c15_regex.py)
  * core.parse_dtype: every spelling x platform with symbolic model flags / GPU availability
  * kerneldll.dll_path: injective in (tag, precision)
  * bounded: token-level differential of convert_type against the reference tokenizer
    (contracts/ctok.py) on the generated source of every compiled builtin model and on
    fragments; compiled float32 / long double kernels against the double kernel
"""
PROP = "C15"

FRAGMENTS = [
    "double f(double x, double y) { return 1e3*x + x1e3 + 3.f + .5 + 12.e-3 - 0.25E+2; }",
    "struct s { double a; } v; double g(void) { return v.a + struct3.e3 + a3.e2 - 0.; }",
    "double h(double2 p, cdouble z, xdouble q, doubled r) { return (double)p.x * sizeof(double); }",
    "double k(double,double); double m(double *p,double*q); /* 1.0.8 and 03.05.67 double */ int n = 37;",
    "double t(double x) { return pow(10, x) + sqrt(2)*exp(-1) + fmax(x, 0) + atan2(1, x) + 4*atan(1); }",
    "#define TWO 2.0\n#if FLOAT_SIZE > 4\nconstant double c[] = {1., 2.5e-3, .125};\n#endif\n",
    "double u(int i) { return i/2 + 1.5L + 2.5f + 0x10 + 017 + 1e+5 - 1.e-5 + 10u + 5l; }",
]

# inputs on which the unchanged tree breaks the property (recorded findings, one obligation each)
REGIONS = {
    "string_literal_contents_are_rewritten": 'const char *s = "1.5 double"; double x = 1.5;',
    "constant_directly_after_a_keyword": "double f(void) { return.5; }",
}


def _model_job(sub, name):
    from sasmodels import core, generate
    from contracts import ctok
    info = core.load_model_info(name)
    src = generate.make_source(info)["dll"]
    d64 = ctok.tokens(generate.convert_type(src, generate.F64))
    where = "sasmodels/generate.py:convert_type"
    for dt, tn, fl, nb in ((generate.F32, "float", "f", "4"), (generate.F128, "long double", "L", "16")):
        got = ctok.tokens(generate.convert_type(src, dt))
        want = ctok.spec_convert(d64, tn, fl)
        want[3] = ("num", nb)
        d = ctok.first_difference(got, want)
        oid = "%s.tokens.builtin_model_source.%s.%s" % (PROP, name, tn.replace(" ", "_"))
        if d is None:
            sub.passed(oid, function=where, engine="runtime-contract", kind="bounded", backend="cpython",
                       bound="generated source of builtin model %s (%d tokens)" % (name, len(got)))
        else:
            sub.fail(oid, {"call": "generate.convert_type(make_source(<%s>)['dll'], %s)" % (name, tn),
                           "first_difference_at_token": d[0], "real": d[1], "spec": d[2],
                           "context": got[max(0, d[0] - 4):d[0] + 4]},
                     function=where, engine="runtime-contract", kind="bounded")


def token_differential(reg, tier):
    from sasmodels import core
    from vp.core import run_parallel
    from contracts import c15_regex
    names = [n for n in core.list_models() if not callable(core.load_model_info(n).Iq)]
    run_parallel(reg, _model_job, names)
    where = "sasmodels/generate.py:convert_type"
    for k, frag in enumerate(FRAGMENTS):
        bad, info = c15_regex.replay_fragment(frag)
        oid = "%s.tokens.fragment.%d" % (PROP, k)
        if bad:
            reg.fail(oid, info, function=where, engine="runtime-contract", kind="bounded")
        else:
            reg.passed(oid, function=where, engine="runtime-contract", kind="bounded", backend="cpython",
                       bound="fragment %r" % frag)
    for name, frag in REGIONS.items():
        bad, info = c15_regex.replay_fragment(frag)
        oid = "%s.tokens.region.%s" % (PROP, name)
        if bad:
            reg.fail(oid, info, function=where, engine="runtime-contract", kind="bounded")
        else:
            reg.passed(oid, function=where, engine="runtime-contract", kind="bounded", backend="cpython",
                       bound="fragment %r" % frag)
    reg.extra["programs"] = len(names) + len(FRAGMENTS) + len(REGIONS)


def _build_job(sub, name):
    """float32 and long double kernels build and agree with the double kernel."""
    import numpy as np
    from sasmodels import core
    from sasmodels.direct_model import call_kernel
    info = core.load_model_info(name)
    q = np.logspace(-3, -0.5, 12)
    where = "sasmodels/kerneldll.py:load_dll"
    ref = None
    # single: only for models declared single-safe; quad: the double kernel is the less precise
    # side of the comparison, so agreement is limited by the double result's own rounding
    for spelling, rtol in (("double!", 0.0), ("single!", 5e-3), ("quad!", 1e-6)):
        if spelling == "single!" and not info.single:
            continue
        oid = "%s.build.%s.%s_agrees_with_double" % (PROP, name, spelling.rstrip("!"))
        try:
            model = core.build_model(info, dtype=spelling)
            y = np.asarray(call_kernel(model.make_kernel([q]), {}), dtype="d")
        except Exception as exc:       # noqa
            sub.fail(oid, {"call": "build_model(<%s>, dtype=%r)" % (name, spelling), "real": repr(exc)[:300],
                           "spec": "builds and evaluates"}, function=where, engine="runtime-contract", kind="bounded")
            continue
        if ref is None:
            ref = y
            continue
        err = float(np.max(np.abs(y - ref) / np.maximum(np.abs(ref), 1e-300)))
        if np.all(np.isfinite(y)) and err <= rtol:
            sub.passed(oid, function=where, engine="runtime-contract", kind="bounded", backend="cpython",
                       bound="default parameters, 12 q values, max rel err %.2g <= %g" % (err, rtol))
        else:
            sub.fail(oid, {"call": "build_model(<%s>, dtype=%r) default parameters, q=logspace(-3,-0.5,12)" % (name, spelling),
                           "real": y.tolist(), "spec": ref.tolist(), "max_rel_err": err, "tolerance": rtol},
                     function=where, engine="runtime-contract", kind="bounded")


def build_agreement(reg, tier):
    from sasmodels import core
    from vp.core import run_parallel
    if tier == "thorough":
        names = []
        for n in core.list_models():
            info = core.load_model_info(n)
            if not callable(info.Iq) and info.single:
                names.append(n)
    else:
        names = ["sphere", "cylinder", "core_shell_sphere", "fcc_paracrystal"]
    run_parallel(reg, _build_job, names)


def check(reg, tier):
    from contracts import buildsys, c15_regex
    buildsys.convert_type_contract(reg, PROP)
    buildsys.dll_name_contract(reg, PROP)
    buildsys.parse_dtype_contract(reg, PROP)
    buildsys.make_dll_dtype_contract(reg, PROP)
    buildsys.load_dll_types_contract(reg, PROP)
    buildsys.load_dll_dtype_contract(reg, PROP)
    c15_regex.run(reg)
    token_differential(reg, tier)
    build_agreement(reg, tier)
    reg.assume("the numpy buffers of the requested dtype handed to the kernel (PyInput, result arrays) are not under "
               "contract (only exercised by the bounded build/agreement runs)")
