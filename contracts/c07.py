"""
C07 -- P@S interaction models combine form and structure factor as documented.

Functions under contract (sasmodels/product.py, bodies from the AST of the
current tree): ProductKernel.__init__, ProductKernel.Iq, _intermediates.

Abstract view of the combined value vector (product.py module docstring,
ParameterTable): [scale, background] ++ P[p_npars] ++ [S.radius_effective]
++ [S.volfraction unless P owns volfraction] ++ S[2:s_npars]
++ [structure_factor_mode]? ++ [radius_effective_mode]?
++ ([4 spin-state slots] ++ [3 per SLD of P])? ++ dispersity values ++ weights.

All sizes (p_npars, s_npars, nmagnetic of P, position of volfraction inside P,
number of weights, nq) are symbolic; the four flag combinations
(have_Fq, has radius_effective modes) x (volfraction in P or not) x (1d, 2d)
are enumerated.

Postconditions (from the property statement):
  P is called once through Fq with [1, 0] ++ P block ++ magnetic block ++
    weights (padded to 32), P's slice of the dispersity table, the selected
    effective-radius mode (0 when the model has none), cutoff and magnetic flag;
  S is called once with [1, 0, R, volfraction * V_form/V_shell] ++ rest of S
    ++ weights where R is P's R_eff iff mode > 0, else the user's value; the
    slots of R (when injected) and of volfraction hold a single point of weight 1;
  result = scale * (volfraction unless P owns it) / V_shell *
           (F2*S | F2 + F^2 (S-1) with beta) + background;
  results() returns the very F, F2, S, volumes and radius that were used;
  the caller's values and dispersity table are not modified.
"""
import z3

from vp.pyvc import (Interp, Sym, SArr, SObj, SDict, Summary, IRaise, DType, fresh, num_expr,
                     bool_expr, int_expr)
from vp.pymodels import freeze
from vp.core import OutsideSubset, z3val

PROP = "C07"
MOD = "sasmodels.product"


def check(reg, tier):
    from contracts import c07_replay
    jobs = []
    for have_beta in (False, True):
        for have_er in (False, True):
            for vip in (False, True):
                for dim in ("1d", "2d"):
                    jobs.append((have_beta, have_er, vip, dim))
    from vp.core import run_parallel
    run_parallel(reg, _job, jobs)
    _layout_bounded(reg)
    reg.assume("callee contracts: P.Fq returns (F|None, F2, R_eff, V_shell, V_form/V_shell), "
               "S.Iq returns an array of nq reals (Kernel contracts, C01/C14); make_details replaced by its contract")
    reg.assume("ProductKernel.__init__: the linear search for the volfraction parameter is summarised "
               "by its result (index of the parameter named 'volfraction' in the combined table)")
    reg.assume("precondition (established by make_kernel_args): every dispersity slot has "
               "0 <= offset, 1 <= length, offset+length <= num_weights; non-dispersible volfraction has length 1")


def _job(sub, job):
    from contracts import c07_replay
    _check_one(sub, c07_replay, *job)


def _check_one(reg, c07_replay, have_beta, have_er, vip, dim):
    tag = "%s%s%s.%s" % ("beta." if have_beta else "nobeta.", "er." if have_er else "noer.",
                         "vfP" if vip else "vfS", dim)
    fn = MOD + ".ProductKernel.Iq"

    def body(it):
        I = z3.Int
        p_npars, s_npars, nmag, NW, nq, pad = (I("p_npars"), I("s_npars"), I("nmagP"), I("NW"),
                                               I("nq"), I("pad"))
        VF = I("volfrac_index")
        it.assume(z3.And(p_npars >= (1 if vip else 0), s_npars >= 2, nmag >= 0, nmag <= p_npars,
                         NW >= 1, nq >= 0, pad >= 0))
        hb, he, vp = int(have_beta), int(have_er), int(vip)
        NP = p_npars + s_npars - vp + hb + he
        NV = z3.If(nmag > 0, 2 + NP + 4 + 3 * nmag, 2 + NP)
        if vip:
            it.assume(z3.And(VF >= 2, VF < 2 + p_npars))
        else:
            it.assume(VF == 2 + p_npars + 1)
        total = NV + 2 * NW + pad
        values = it.new_array("V", total, "real")
        length = it.new_array("length", NP, "int")
        offset = it.new_array("offset", NP, "int")
        i = z3.Int("i!wf")
        it.assume(z3.ForAll([i], z3.Implies(z3.And(i >= 0, i < NP),
                                            z3.And(offset.at(i) >= 0, length.at(i) >= 1,
                                                   offset.at(i) + length.at(i) <= NW))))
        if not vip:
            it.assume(length.at(p_npars + 1) == 1)
        details = it.new_obj(None, {"length": length, "offset": offset, "num_weights": Sym(NW)},
                             "call_details")
        p_pars = it.new_obj(None, {"npars": Sym(p_npars), "nmagnetic": Sym(nmag)}, "p_parameters")
        s_pars = it.new_obj(None, {"npars": Sym(s_npars), "nmagnetic": 0}, "s_parameters")
        p_info = it.new_obj(None, {"parameters": p_pars, "have_Fq": have_beta,
                                   "radius_effective_modes": (["mode1", "mode2"] if have_er else None),
                                   "name": "P"}, "p_info")
        s_info = it.new_obj(None, {"parameters": s_pars, "name": "S"}, "s_info")
        c_pars = it.new_obj(None, {"npars": Sym(NP), "nvalues": Sym(NV),
                                   "call_parameters": it.new_list([])}, "parameters")
        info = it.new_obj(None, {"parameters": c_pars, "name": "P@S",
                                 "composition": ("product", it.new_list([p_info, s_info]))}, "info")
        calls = {}
        F2f = z3.Function("F2", z3.IntSort(), z3.RealSort())
        F1f = z3.Function("F1", z3.IntSort(), z3.RealSort())
        Sf = z3.Function("S", z3.IntSort(), z3.RealSort())
        Reff, Vs, Vr = z3.Real("R_eff_P"), z3.Real("V_shell"), z3.Real("V_ratio")
        it.assume(Vs != 0)

        def p_Fq(it_, args, kw):
            if "P" in calls:
                calls["P2"] = True
            pd, pv, cutoff, magnetic = args[:4]
            mode = args[4] if len(args) > 4 else kw.get("radius_effective_mode", 0)
            calls["P"] = dict(details=pd, values=pv, n=pv.n, at=freeze(pv), cutoff=cutoff,
                              magnetic=magnetic, mode=mode)
            F2 = it_.array_from_fn(lambda j: F2f(j), nq, "real", "F2")
            F1 = it_.array_from_fn(lambda j: F1f(j), nq, "real", "F1") if have_beta else None
            return (F1, F2, Sym(Reff), Sym(Vs), Sym(Vr))

        def s_Iq(it_, args, kw):
            if "S" in calls:
                calls["S2"] = True
            sd, sv, cutoff, magnetic = args
            calls["S"] = dict(details=sd, values=sv, n=sv.n, at=freeze(sv), cutoff=cutoff,
                              magnetic=magnetic)
            return it_.array_from_fn(lambda j: Sf(j), nq, "real", "S")
        p_results = Summary(lambda it_, a, k: "P-intermediates", "P.results")
        p_kernel = it.new_obj(None, {"Fq": Summary(p_Fq, "P.Fq"), "dtype": DType("f8"), "dim": dim,
                                     "info": p_info, "results": p_results}, "p_kernel")
        s_kernel = it.new_obj(None, {"Iq": Summary(s_Iq, "S.Iq"), "dtype": DType("f8"), "dim": dim,
                                     "info": s_info}, "s_kernel")

        def make_details_summary(it_, args, kw):
            minfo, ln, off, nw = args
            return it_.new_obj(None, {"info": minfo, "length_n": ln.n, "length_at": freeze(ln),
                                      "offset_n": off.n, "offset_at": freeze(off),
                                      "num_weights": nw}, "details")
        it.summaries["sasmodels.details.make_details"] = Summary(make_details_summary, "make_details")

        # loop 0 of __init__: linear search for the volfraction parameter
        def search_summary(it_, stmt, frame, itv):
            it_.setattr(frame.vars["self"], "_volfrac_index", Sym(VF))
        it.loop_specs[(MOD + ".ProductKernel.__init__", 0)] = search_summary

        import sasmodels.product as live
        pk = it.new_obj(live.ProductKernel, name="ProductKernel")
        init = it.get_func(MOD, "ProductKernel.__init__")
        it.get_func(MOD, "_intermediates")
        qvec = (it.new_array("q", nq, "real"),)
        it.call(init, [pk, info, p_kernel, s_kernel, qvec])
        iq = it.get_func(MOD, "ProductKernel.Iq")
        cutoff = fresh("cutoff")
        magnetic = fresh("magnetic", "bool")
        v0 = values.buf.get
        len0, off0 = length.buf.get, offset.buf.get
        V = lambda j: v0(z3.IntVal(j) if isinstance(j, int) else j)
        # spec-side layout ---------------------------------------------------
        last_p = 2 + p_npars
        er_index = last_p
        first_s = last_p + 2 - vp
        last_s = first_s + s_npars - 2
        beta_idx = last_s
        er_mode_idx = last_s + hb
        first_mag = last_s + hb + he
        n_mag = z3.If(nmag > 0, 4 + 3 * nmag, 0)
        sym = dict(p_npars=p_npars, s_npars=s_npars, nmag=nmag, NW=NW, nq=nq, VF=VF, NV=NV,
                   V=values.buf.base_fn, have_beta=have_beta, have_er=have_er, vip=vip, dim=dim,
                   F2=F2f, F1=F1f, S=Sf, Reff=Reff, Vs=Vs, Vr=Vr, er_mode_idx=er_mode_idx,
                   beta_idx=beta_idx)
        rp = c07_replay.make(sym)
        er_raw = V(er_mode_idx)
        er_mode = z3.If(er_raw >= 0, z3.ToInt(er_raw), -z3.ToInt(-er_raw)) if have_er else z3.IntVal(0)
        beta = (V(beta_idx) > 0) if have_beta else z3.BoolVal(False)
        try:
            out = it.call(iq, [pk, details, values, cutoff, magnetic])
        except IRaise as exc:
            # the only documented refusal: beta approximation on 2-D data
            ok = isinstance(exc.value, NotImplementedError) and dim == "2d" and have_beta
            if ok:
                reg.prove("%s.Iq.raises_only_for_beta_2d.%s" % (PROP, tag), it.pc, beta, function=fn)
            else:
                reg.prove("%s.Iq.no_exception.%s" % (PROP, tag), it.pc, False, function=fn,
                          replay=rp, describe=lambda m: {"raised": repr(exc.value)})
            return
        pc = list(it.pc)
        if dim == "2d" and have_beta:
            reg.prove("%s.Iq.beta_2d_refused.%s" % (PROP, tag), pc, z3.Not(beta), function=fn)
        it.discharge_sides(reg, "%s.Iq.%s" % (PROP, tag), function=fn, replay=rp)
        once = "P" in calls and "S" in calls and "P2" not in calls and "S2" not in calls
        reg.prove("%s.Iq.calls_P_and_S_once.%s" % (PROP, tag), pc, z3.BoolVal(once), function=fn)
        if not once:
            return
        j = z3.Int("j")
        # ---- P call -------------------------------------------------------
        P = calls["P"]
        n_data = 2 + p_npars + n_mag + 2 * NW

        def p_spec(j):
            return z3.If(j == 0, z3.RealVal(1), z3.If(j == 1, z3.RealVal(0),
                   z3.If(j < 2 + p_npars, V(j),
                   z3.If(j < 2 + p_npars + n_mag, V(first_mag + (j - 2 - p_npars)),
                   z3.If(j < n_data, V(NV + (j - 2 - p_npars - n_mag)), z3.RealVal(0))))))
        plen = P["n"] if not isinstance(P["n"], int) else z3.IntVal(P["n"])
        reg.prove("%s.P_call.values.%s" % (PROP, tag), pc + [j >= 0, j < plen],
                  z3.And(plen % 32 == 0, plen >= n_data, plen < n_data + 32, P["at"](j) == p_spec(j)),
                  function=fn, replay=rp)
        pd = P["details"]
        reg.prove("%s.P_call.details.%s" % (PROP, tag), pc + [j >= 0, j < p_npars],
                  z3.And(pd.attrs["length_n"] == p_npars, pd.attrs["offset_n"] == p_npars,
                         pd.attrs["length_at"](j) == len0(j), pd.attrs["offset_at"](j) == off0(j),
                         num_expr(pd.attrs["num_weights"]) == NW,
                         z3.BoolVal(pd.attrs["info"] is p_info)), function=fn, replay=rp)
        reg.prove("%s.P_call.mode_cutoff_magnetic.%s" % (PROP, tag), pc,
                  z3.And(int_expr(P["mode"]) == er_mode, num_expr(P["cutoff"]) == num_expr(cutoff),
                         bool_expr(P["magnetic"]) == magnetic.e), function=fn, replay=rp)
        # ---- S call -------------------------------------------------------
        S = calls["S"]
        sd = S["details"]
        inject = er_mode > 0
        R_used = z3.If(inject, Reff, V(er_index))
        vf_used = V(VF) * Vr
        # offsets of the two special slots in the dispersity vector
        off_er = off0(p_npars)
        off_vf = off0(VF - 2) if vip else off0(p_npars + 1)
        s_data = 2 + s_npars + 2 * NW
        wbase = 2 + s_npars

        def s_weights(k):            # element k of the value/weight block given to S
            w = V(NV + k)
            w = z3.If(z3.And(inject, k == off_er), Reff, w)
            w = z3.If(z3.And(inject, k == off_er + NW), z3.RealVal(1), w)
            w = z3.If(k == off_vf, vf_used, w)
            w = z3.If(k == off_vf + NW, z3.RealVal(1), w)
            return w

        def s_spec(j):
            return z3.If(j == 0, z3.RealVal(1), z3.If(j == 1, z3.RealVal(0),
                   z3.If(j == 2, R_used, z3.If(j == 3, vf_used,
                   z3.If(j < wbase, V(first_s + (j - 4)),
                   z3.If(j < s_data, s_weights(j - wbase), z3.RealVal(0)))))))
        slen = S["n"] if not isinstance(S["n"], int) else z3.IntVal(S["n"])
        # the two injected slots must not collide (distinct dispersity slots)
        distinct = z3.Implies(inject, z3.And(off_er != off_vf, off_er != off_vf + NW,
                                             off_er + NW != off_vf))
        reg.prove("%s.S_call.values.%s" % (PROP, tag), pc + [j >= 0, j < slen, distinct],
                  z3.And(slen % 32 == 0, slen >= s_data, slen < s_data + 32, S["at"](j) == s_spec(j)),
                  function=fn, replay=rp)

        def s_len_spec(j):
            src = z3.If(j == 0, len0(p_npars),
                        (z3.If(j == 1, z3.IntVal(1), len0(p_npars + j - 1)) if vip
                         else len0(p_npars + j)))
            return z3.If(z3.And(j == 0, inject), z3.IntVal(1), src)

        def s_off_spec(j):
            if vip:
                return z3.If(j == 0, off0(p_npars), z3.If(j == 1, off_vf, off0(p_npars + j - 1)))
            return off0(p_npars + j)
        reg.prove("%s.S_call.details.%s" % (PROP, tag), pc + [j >= 0, j < s_npars],
                  z3.And(sd.attrs["length_n"] == s_npars, sd.attrs["offset_n"] == s_npars,
                         sd.attrs["length_at"](j) == s_len_spec(j),
                         sd.attrs["offset_at"](j) == s_off_spec(j),
                         num_expr(sd.attrs["num_weights"]) == NW,
                         z3.BoolVal(sd.attrs["info"] is s_info)), function=fn, replay=rp)
        reg.prove("%s.S_call.cutoff_nonmagnetic.%s" % (PROP, tag), pc,
                  z3.And(num_expr(S["cutoff"]) == num_expr(cutoff),
                         z3.BoolVal(S["magnetic"] is False)), function=fn, replay=rp)
        # ---- combination ---------------------------------------------------
        jq = z3.Int("jq")
        scale, bkg = V(0), V(1)
        PS = z3.If(beta, F2f(jq) + F1f(jq) * F1f(jq) * (Sf(jq) - 1), F2f(jq) * Sf(jq)) \
            if have_beta else F2f(jq) * Sf(jq)
        comb = scale / Vs * (z3.RealVal(1) if vip else V(VF))
        if isinstance(out, SArr):
            olen = out.n if not isinstance(out.n, int) else z3.IntVal(out.n)
            reg.prove("%s.Iq.post.formula.%s" % (PROP, tag), pc + [jq >= 0, jq < nq],
                      z3.And(olen == nq, out.at(jq) == comb * PS + bkg), function=fn, replay=rp, nl=True)
        else:
            reg.prove("%s.Iq.post.returns_array.%s" % (PROP, tag), pc, False, function=fn, replay=rp)
        # ---- reported intermediates are the values used ---------------------
        res_fn = pk.attrs.get("results")
        try:
            parts = it.call(res_fn, [])
            goals = []
            ent = parts.entries

            def arr_eq(a, f):
                return z3.And((a.n if not isinstance(a.n, int) else z3.IntVal(a.n)) == nq,
                              a.at(jq) == f)
            goals.append(arr_eq(ent["P(Q)"][1][1], comb * F2f(jq)))
            goals.append(arr_eq(ent["S(Q)"][1][1], Sf(jq)))
            goals.append(num_expr(ent["volume"][1]) == Vs)
            goals.append(num_expr(ent["volume_ratio"][1]) == Vr)
            goals.append(num_expr(ent["radius_effective"][1]) == Reff)
            goals.append(z3.BoolVal(ent["P(Q) parts"][1] == "P-intermediates"))
            from contracts import c07_replay as _rp
            reg.prove("%s.results.are_the_values_used.%s" % (PROP, tag), pc + [jq >= 0, jq < nq],
                      z3.And(*goals), function=MOD + "._intermediates", nl=True, replay=_rp.replay_results)
            if have_beta:
                # beta(Q) is reported exactly when beta mode is on
                pres = ent["beta(Q)"][0] if "beta(Q)" in ent else False
                pres = z3.BoolVal(pres) if isinstance(pres, bool) else pres
                reg.prove("%s.results.beta_entries_iff_beta_mode.%s" % (PROP, tag), list(it.pc),
                          pres == beta, function=MOD + "._intermediates")
        except (IRaise, OutsideSubset, KeyError, AttributeError, TypeError) as exc:
            reg.undecided("%s.results.are_the_values_used.%s" % (PROP, tag),
                          "intermediates outside subset: %r" % (exc,), function=MOD + "._intermediates")
        # ---- frame (C11) ----------------------------------------------------
        jf = z3.Int("jf")
        reg.prove("%s.Iq.frame.values_unmodified.%s" % (PROP, tag), pc,
                  values.buf.get(jf) == v0(jf), function=fn, replay=rp)
        reg.prove("%s.Iq.frame.call_details_unmodified.%s" % (PROP, tag), pc,
                  z3.And(length.buf.get(jf) == len0(jf), offset.buf.get(jf) == off0(jf)),
                  function=fn, replay=c07_replay.make_frame(sym))
        s_ = z3.Solver(); s_.add(*pc)
        if s_.check() == z3.unsat:
            reg.errors.append("vacuous precondition in %s" % tag)

    it = Interp(reg)
    it.run_paths(body)


def _layout_bounded(reg):
    """Bounded stand-in (run-time contract over the enumerated builtin (P,S)
    pairs): the combined table built by the real make_product_info +
    ParameterTable has exactly the abstract layout that ProductKernel's
    contract takes as its precondition."""
    import time
    from sasmodels import core, product
    t0 = time.time()
    names = core.list_models()
    infos = {}
    for n in names:
        try:
            infos[n] = core.load_model_info(n)
        except Exception:
            pass
    S = [n for n, i in infos.items() if i.structure_factor]
    P = [n for n, i in infos.items() if not i.structure_factor
         and "radius_effective" not in i.parameters]
    bad, npairs = [], 0
    for p in P:
        for s in S:
            pi, si = infos[p], infos[s]
            try:
                info = product.make_product_info(pi, si)
            except Exception as exc:
                bad.append((p, s, repr(exc)))
                continue
            npairs += 1
            ids = [q.id for q in info.parameters.call_parameters]
            p_ids = [q.id for q in pi.parameters.call_parameters[2:2 + pi.parameters.npars]]
            vip = "volfraction" in p_ids
            s_call = [q.id for q in si.parameters.call_parameters[2:2 + si.parameters.npars]]
            s_ids = [("%s_S" % x if x in set(q.id for q in pi.parameters.kernel_parameters) else x)
                     for x in s_call if not (x == "volfraction" and vip)]
            expect = ["scale", "background"] + p_ids + s_ids
            if pi.have_Fq:
                expect.append("structure_factor_mode")
            if pi.radius_effective_modes is not None:
                expect.append("radius_effective_mode")
            nmag = pi.parameters.nmagnetic
            if nmag:
                expect += ["up_frac_i", "up_frac_f", "up_theta", "up_phi"]
                slds = [q.id for q in pi.parameters.call_parameters if q.type == "sld"]
                for x in slds:
                    expect += [x + "_M0", x + "_mtheta", x + "_mphi"]
            ok = (ids == expect and info.parameters.npars == len(p_ids) + len(s_ids)
                  + int(pi.have_Fq) + int(pi.radius_effective_modes is not None)
                  and info.parameters.nvalues == len(expect)
                  and s_ids[0] == "radius_effective"
                  and (vip or s_ids[1] == "volfraction"))
            if not ok:
                bad.append((p, s, {"ids": ids, "expected": expect}))
    oid = "C07.make_product_info.layout_is_the_documented_one"
    if bad:
        reg.fail(oid, {"pairs_checked": npairs, "first_mismatches": bad[:3]},
                 function="sasmodels.product.make_product_info", kind="bounded")
    else:
        reg.passed(oid, function="sasmodels.product.make_product_info", kind="bounded",
                   backend="run-time contract", seconds=time.time() - t0,
                   bound="all %d builtin (P,S) pairs" % npairs,
                   sample={"obligation": oid, "pairs": npairs})
    reg.extra["bounded_note"] = ("make_product_info/ParameterTable layout: run-time contract on "
                                 "all builtin (P,S) pairs (bounded, not counted as proved)")
