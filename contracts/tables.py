"""
Ground facts about the parameter tables of the builtin models that C02 and C10 rely on (the flags are computed by
sasmodels/modelinfo.py from the declaration in the model file; the contracts of get_mesh / _pop_par_weights take them
from the live table, so they are checked against the declaration here, for every call parameter of every builtin model,
expanded vector elements included):

  relative width   p.relative_pd  <=>  the parameter is declared with type "volume"          (C02: width relative to the
                   centre for size parameters, absolute and centred on zero for angles)
  dispersible      p.polydisperse <=>  declared type is "volume" or "orientation" and the parameter is not the length
                   control of a vector parameter                                              (C10: a dispersity suffix on
                   any other parameter is an unknown name)
The declaration is read from the model module's own `parameters` list (name[control], units, default, limits, type, ...),
not from the table.  Exhaustive over the builtin models (78); replayed on get_mesh / get_weights of the real code.
"""
import re

WHERE = "sasmodels/modelinfo.py:ParameterTable (call parameters)"


def _declared(name):
    """{parameter id: (declared type, is a length control)} from the model module, vector elements expanded."""
    from sasmodels import generate, core
    info = core.load_model_info(name)
    mod = generate.load_kernel_module(name) if "@" not in name and "+" not in name and "*" not in name else None
    if mod is None:
        return info, None
    controls = set()
    decl = {}
    for row in mod.parameters:
        m = re.match(r"^([A-Za-z_][A-Za-z0-9_]*)(?:\[(.*)\])?$", row[0].strip())
        base, length = m.group(1), m.group(2)
        ptype = row[4]
        if length is not None and not length.strip().isdigit():
            controls.add(length.strip())
        decl[base] = (ptype, length)
    return info, (decl, controls)


def check(reg, prop, which):
    from sasmodels import core
    bad_rel, bad_pd, n = [], [], 0
    for name in core.list_models():
        info, d = _declared(name)
        if d is None:
            continue
        decl, controls = d
        for p in info.parameters.call_parameters:
            if p.name in ("scale", "background") or p.type == "magnetic" or p.name.startswith("up_"):
                continue
            base = p.name if p.name in decl else re.sub(r"\d+$", "", p.name)
            if base not in decl:
                continue
            ptype = decl[base][0]
            n += 1
            want_rel = ptype == "volume"
            want_pd = ptype in ("volume", "orientation") and p.name not in controls
            if bool(p.relative_pd) != want_rel:
                bad_rel.append("%s.%s: declared type %r, relative_pd=%r" % (name, p.name, ptype, p.relative_pd))
            if bool(p.polydisperse) != want_pd:
                bad_pd.append("%s.%s: declared type %r%s, polydisperse=%r" % (
                    name, p.name, ptype, " (length control)" if p.name in controls else "", p.polydisperse))
    backend = "exhaustive over the builtin parameter tables (%d call parameters)" % n
    if which == "relative":
        oid = "%s.table.width_is_relative_exactly_for_declared_size_parameters" % prop
        if not bad_rel:
            reg.passed(oid, function=WHERE, engine="runtime-contract", backend=backend)
        else:
            rep, info_ = replay_relative(bad_rel)
            reg.fail(oid, {"tables": bad_rel[:10], "replay": info_}, function=WHERE, engine="runtime-contract",
                     reproduced=rep)
    else:
        oid = "%s.table.dispersible_exactly_for_declared_size_or_angle_parameters_that_are_not_length_controls" % prop
        if not bad_pd:
            reg.passed(oid, function=WHERE, engine="runtime-contract", backend=backend)
        else:
            rep, info_ = replay_dispersible(bad_pd)
            reg.fail(oid, {"tables": bad_pd[:10], "replay": info_}, function=WHERE, engine="runtime-contract",
                     reproduced=rep)


def replay_relative(bad):
    """The distribution the real interface builds for the first offending parameter."""
    import numpy as np
    from sasmodels import core
    from sasmodels.direct_model import get_mesh
    model, par = bad[0].split(":")[0].split(".", 1)
    info = core.load_model_info(model)
    p = [q for q in info.parameters.call_parameters if q.name == par][0]
    centre = 40.0
    pars = {par: centre, par + "_pd": 0.1, par + "_pd_n": 9, par + "_pd_nsigma": 3.0}
    if p.length_control if hasattr(p, "length_control") else False:
        pass
    mesh = get_mesh(info, pars, dim="2d")
    idx = [q.name for q in info.parameters.call_parameters].index(par)
    values = np.asarray(mesh[idx][1], dtype=float)
    declared_size = "declared type 'volume'" in bad[0]
    centred_on_value = abs(values.mean() - centre) < 0.5 * centre
    return (declared_size != centred_on_value), {
        "call": "get_mesh(%s, {%s: 40, %s_pd: 0.1, %s_pd_n: 9})" % (model, par, par, par),
        "real": {"values": values.tolist()},
        "spec": "values centred on 40 with relative width 0.1" if declared_size else "absolute width, centred on 0"}


def replay_dispersible(bad):
    from sasmodels import core
    from sasmodels.direct_model import get_mesh
    model, par = bad[0].split(":")[0].split(".", 1)
    info = core.load_model_info(model)
    should_refuse = "polydisperse=True" in bad[0]
    try:
        get_mesh(info, {par + "_pd": 0.3, par + "_pd_n": 5}, dim="1d")
        got = "accepted"
    except TypeError as exc:
        got = "TypeError: %s" % exc
    return (should_refuse == (got == "accepted")), {
        "call": "get_mesh(%s, {%s_pd: 0.3, %s_pd_n: 5})" % (model, par, par), "real": got,
        "spec": "TypeError (not a dispersible parameter)" if should_refuse else "accepted"}
