"""
Contracts on the Python side of a kernel evaluation, shared by C01, C11, C14:

  kerneldll.DllKernel._call_kernel   chunked invocation of the compiled kernel
  kernel.Kernel.Fq / Kernel.Iq       normalisation, scale and background

Ghost spec: Sig(j, a, b) = contribution of mesh steps a <= s < b to result
slot j (slots [0, nout*nq) hold sum w F^2 (and sum w F interleaved when
nout == 2), the last four hold sum w, sum w V_form, sum w V_shell, sum w R_eff;
every sum is over the steps with weight > cutoff that the model declares
valid -- this is the postcondition proved for the C kernel itself, C01/cvc).
Lemmas used as instances: Sig(j,a,a) = 0, Sig(j,a,c) = Sig(j,a,b) + Sig(j,b,c).

Contract of the compiled kernel (callee):  requires 0 <= start < stop <= num_eval
   ensures for all j < nout*nq+4:
      result'[j] = (start == 0 ? 0 : result[j]) + Sig(j, start, stop)
"""
import z3

from vp.pyvc import (Interp, Sym, SArr, SObj, Summary, IRaise, DType, RangeInvariant, fresh,
                     num_expr, bool_expr, int_expr)
from vp.core import OutsideSubset, z3val

Sig = z3.Function("Sig", z3.IntSort(), z3.IntSort(), z3.IntSort(), z3.RealSort())


def dll_call_kernel(reg, prop):
    """DllKernel._call_kernel: result = Sig(., 0, num_eval) for every slot,
    whatever the previous contents of the reused buffer (C11), including the
    mesh with no point (C01: all sums zero)."""
    MOD = "sasmodels.kerneldll"
    fn = MOD + ".DllKernel._call_kernel"
    for have_Fq in (False, True):
      for magnetic in (False, True):
        for empty in (False, True):
            tag = "%s.%s" % ("Fq" if have_Fq else "Iq", "mag" if magnetic else "nomag")

            def body(it, have_Fq=have_Fq, magnetic=magnetic, tag=tag, empty=empty):
                import sasmodels.kerneldll as live
                nq = z3.Int("nq")
                # the region "mesh with no point" is run with num_eval = 0 (quantifier free)
                N = z3.IntVal(0) if empty else z3.Int("num_eval")
                it.assume(z3.And(nq >= 0, N >= 0))
                nout = 2 if have_Fq else 1
                nres = nout * nq + 4
                result = it.new_array("stale_result", nres, "real")     # np.empty / previous call
                values = it.new_array("values", z3.Int("nvalues"), "real")
                qarr = it.new_array("q", nq, "real")
                dbuf = it.new_array("details_buffer", z3.Int("ndetails"), "int")
                calls = []

                def mk_kernel(which):
                    def kernel(it_, args, kw):
                        knq, start, stop, pdet, pval, pq, pres, cutoff, mode = args
                        calls.append(which)
                        s, e = int_expr(start), int_expr(stop)
                        it_.side_obligation("kernel precondition 0 <= start < stop <= num_eval",
                                            z3.And(s >= 0, s < e, e <= N))
                        ok = (pdet == ("ctypes-pointer", None) or True)
                        it_.side_obligation("kernel receives nq, details, values, q, result",
                                            z3.And(int_expr(knq) == nq,
                                                   z3.BoolVal(pdet[1].buf is dbuf.buf),
                                                   z3.BoolVal(pval[1].buf is values.buf),
                                                   z3.BoolVal(pq[1].buf is qarr.buf),
                                                   z3.BoolVal(pres[1].buf is result.buf)))
                        old = result.buf.get
                        result.buf.store_range(z3.IntVal(0), nres,
                                               lambda j, old=old, s=s, e=e:
                                               z3.If(s == 0, z3.RealVal(0), old(j)) + Sig(j, s, e))
                        log.update(cutoff=cutoff, mode=mode)
                        return None
                    return Summary(kernel, "compiled kernel %d (contract C01/cvc)" % which)
                log = {}
                q_input = it.new_obj(None, {"nq": Sym(nq), "q": qarr}, "q_input")
                info = it.new_obj(None, {"have_Fq": have_Fq}, "info")
                details = it.new_obj(None, {"buffer": dbuf, "num_eval": 0 if empty else Sym(N)},
                                     "call_details")
                selfo = it.new_obj(live.DllKernel,
                                   {"kernel": it.new_list([mk_kernel(0), mk_kernel(1)]),
                                    "q_input": q_input, "result": result, "info": info,
                                    "_as_dtype": Summary(lambda it_, a, k: a[0], "dtype cast", contract=False)},
                                   "DllKernel")
                stale = result.buf.get
                v0, d0 = values.buf.get, dbuf.buf.get
                jj = z3.Int("j")

                def inv(it_, frame, k):
                    return z3.Or(k == 0, z3.ForAll([jj], z3.Implies(
                        z3.And(jj >= 0, jj < nres), result.buf.get(jj) == Sig(jj, 0, k))))
                k = z3.Int("k!lemma")
                lemmas = [z3.ForAll([jj, k], Sig(jj, 0, k + 100) == Sig(jj, 0, k) + Sig(jj, k, k + 100)),
                          z3.ForAll([jj, k], z3.Implies(k < N, Sig(jj, 0, N) == Sig(jj, 0, k) + Sig(jj, k, N))),
                          z3.ForAll([jj], Sig(jj, 0, 0) == 0)]
                spec = RangeInvariant("%s.DllKernel._call_kernel.chunks.%s" % (prop, tag), inv,
                                      lambda it_, frame: [result.buf], function=fn, lemmas=lemmas)
                if not empty:
                    it.loop_specs[(MOD + ".DllKernel._call_kernel", 0)] = spec
                f = it.get_func(MOD, "DllKernel._call_kernel")
                cutoff, mode = fresh("cutoff"), fresh("mode", "int")
                # lemma instances (sum_split) at the chunk boundaries
                it.call(f, [selfo, details, values, cutoff, magnetic, mode])
                pc = list(it.pc)
                if empty:
                    j0 = z3.Int("j0")
                    reg.prove("%s.DllKernel._call_kernel.post.region_empty_mesh_gives_zero_sums.%s"
                              % (prop, tag), pc + [j0 >= 0, j0 < nres], result.buf.get(j0) == 0,
                              function=fn, replay=replay_empty_mesh)
                    return
                it.discharge_sides(reg, "%s.DllKernel._call_kernel.%s" % (prop, tag), function=fn)
                j0 = z3.Int("j0")
                rng = [j0 >= 0, j0 < nres]
                reg.prove("%s.DllKernel._call_kernel.post.result_is_full_mesh_sum.%s" % (prop, tag),
                          pc + lemmas + rng + [N > 0], result.buf.get(j0) == Sig(j0, 0, N), function=fn,
                          replay=replay_empty_mesh)
                kernel_ok = all(c == (1 if magnetic else 0) for c in calls) and len(calls) >= 1
                reg.prove("%s.DllKernel._call_kernel.magnetic_flag_selects_kernel.%s" % (prop, tag),
                          pc, z3.BoolVal(kernel_ok), function=fn)
                reg.prove("%s.DllKernel._call_kernel.forwards_cutoff_mode.%s" % (prop, tag), pc,
                          z3.BoolVal(log.get("cutoff") is cutoff and log.get("mode") is mode),
                          function=fn)
                reg.prove("%s.DllKernel._call_kernel.frame.values_details_unmodified.%s" % (prop, tag),
                          pc, z3.And(values.buf.get(j0) == v0(j0), dbuf.buf.get(j0) == d0(j0)),
                          function=fn)
            it = Interp(reg)
            it.run_paths(body)
    reg.assume("compiled kernel replaced by its contract: result' = (start==0 ? 0 : result) + Sig(start, stop) "
               "(the C01 postcondition of <model>_Iq/_Iqxy/_Imagnetic)")


def replay_empty_mesh(model):
    """A call_details with num_eval == 0 (every dispersity slot empty) through
    the public kernel interface, after an ordinary evaluation on the same
    kernel: the result must be the background."""
    import numpy as np
    from sasmodels.core import load_model
    from sasmodels.details import make_details
    from sasmodels.direct_model import call_kernel
    m = load_model("sphere")
    q = np.array([0.01, 0.05, 0.1])
    k = m.make_kernel([q])
    first = call_kernel(k, dict(radius=50.0, background=0.25))
    npars = k.info.parameters.npars
    cd = make_details(k.info, np.zeros(npars, "i4"), np.zeros(npars, "i4"), 0)
    values = np.zeros(32)
    values[0], values[1] = 1.0, 0.25
    out = k.Iq(cd, values, 0.0, False)
    bad = not np.allclose(out, 0.25)
    return bad, {"call": "sphere kernel.Iq(call_details with num_eval=%d, scale=1, background=0.25) "
                         "after an ordinary call" % cd.num_eval,
                 "returned": np.asarray(out).tolist(), "expected": [0.25, 0.25, 0.25],
                 "previous_call_returned": np.asarray(first).tolist()}


def kernel_Fq_Iq(reg, prop):
    """Kernel.Fq and Kernel.Iq against the volume-normalised weighted mean."""
    MOD = "sasmodels.kernel"
    for have_Fq in (False, True):
        for dim in ("1d", "2d"):
            tag = "%s.%s" % ("Fq" if have_Fq else "Iq", dim)

            def body(it, have_Fq=have_Fq, dim=dim, tag=tag):
                import sasmodels.kernel as live
                nq, N = z3.Int("nq"), z3.Int("num_eval")
                it.assume(z3.And(nq >= 0, N >= 0))
                nout = 2 if (have_Fq and dim == "1d") else 1
                # note: DllKernel sizes the buffer with have_Fq alone; the
                # contract of _call_kernel covers nout_buf*nq+4 slots
                nres = nout * nq + 4
                result = it.new_array("stale_result", nres, "real")
                values = it.new_array("values", z3.Int("nvalues"), "real")
                it.assume(z3.Int("nvalues") >= 2)
                log = {}

                def call_kernel(it_, args, kw):
                    selfo_, cd, vals, cutoff, magnetic, mode = args
                    log.update(cd=cd, vals=vals, cutoff=cutoff, magnetic=magnetic, mode=mode)
                    result.buf.store_range(z3.IntVal(0), nres, lambda j: Sig(j, 0, N))
                    return None
                q_input = it.new_obj(None, {"nq": Sym(nq)}, "q_input")
                info = it.new_obj(None, {"have_Fq": have_Fq}, "info")
                selfo = it.new_obj(live.Kernel, {"q_input": q_input, "result": result, "info": info,
                                                 "dim": dim}, "Kernel")
                selfo.attrs["_call_kernel"] = Summary(
                    lambda it_, a, k: call_kernel(it_, [selfo] + a, k),
                    "_call_kernel (contract: result = Sig(., 0, num_eval))")
                details = it.new_obj(None, {"num_eval": Sym(N)}, "call_details")
                cutoff, magnetic = fresh("cutoff"), fresh("magnetic", "bool")
                mode = fresh("mode", "int")
                v0 = values.buf.get
                W = Sig(nout * nq, 0, N)
                tw = z3.If(W == 0, z3.RealVal(1), W)
                form = Sig(nout * nq + 1, 0, N) / tw
                shell0 = Sig(nout * nq + 2, 0, N) / tw
                shell = z3.If(shell0 == 0, z3.RealVal(1), shell0)
                reff = Sig(nout * nq + 3, 0, N) / tw
                i = z3.Int("i")
                rng = [i >= 0, i < nq]
                fq = it.get_func(MOD, "Kernel.Fq")
                F1, F2, R, Vs, Vr = it.call(fq, [selfo, details, values, cutoff, magnetic],
                                            {"radius_effective_mode": mode})
                pc = list(it.pc)
                it.discharge_sides(reg, "%s.Kernel.Fq.%s" % (prop, tag), function=MOD + ".Kernel.Fq")
                goals = [num_expr(R) == reff, num_expr(Vs) == shell, num_expr(Vr) == form / shell]
                if isinstance(F2, SArr):
                    goals += [(F2.n if not isinstance(F2.n, int) else z3.IntVal(F2.n)) == nq,
                              F2.at(i) == Sig(nout * i, 0, N) / tw]
                else:
                    goals.append(z3.BoolVal(False))
                if nout == 2:
                    goals += [z3.BoolVal(isinstance(F1, SArr))]
                    if isinstance(F1, SArr):
                        goals += [(F1.n if not isinstance(F1.n, int) else z3.IntVal(F1.n)) == nq,
                                  F1.at(i) == Sig(nout * i + 1, 0, N) / tw]
                else:
                    goals.append(z3.BoolVal(F1 is None))
                reg.prove("%s.Kernel.Fq.post.weighted_means.%s" % (prop, tag), pc + rng,
                          z3.And(*goals), function=MOD + ".Kernel.Fq", nl=True, replay=lambda mdl=None: replay_means())
                reg.prove("%s.Kernel.Fq.forwards_arguments.%s" % (prop, tag), pc,
                          z3.BoolVal(log.get("cd") is details and log.get("vals") is values
                                     and log.get("cutoff") is cutoff and log.get("magnetic") is magnetic
                                     and log.get("mode") is mode), function=MOD + ".Kernel.Fq")
                # history independence: what is returned does not alias the reused buffer
                alias = any(isinstance(x, SArr) and x.buf is result.buf for x in (F1, F2))
                reg.prove("%s.Kernel.Fq.returned_arrays_do_not_alias_result_buffer.%s" % (prop, tag),
                          pc, z3.BoolVal(not alias), function=MOD + ".Kernel.Fq", replay=lambda mdl=None: replay_alias())
                # Iq
                iq = it.get_func(MOD, "Kernel.Iq")
                out = it.call(iq, [selfo, details, values, cutoff, magnetic])
                pc = list(it.pc)
                g = z3.BoolVal(False)
                if isinstance(out, SArr):
                    g = z3.And((out.n if not isinstance(out.n, int) else z3.IntVal(out.n)) == nq,
                               out.at(i) == v0(0) / shell * (Sig(nout * i, 0, N) / tw) + v0(1))
                reg.prove("%s.Kernel.Iq.post.scale_mean_over_volume_plus_background.%s" % (prop, tag),
                          pc + rng, g, function=MOD + ".Kernel.Iq", nl=True)
                # no qualifying point: all sums zero => background
                zero = z3.And(W == 0, Sig(nout * nq + 2, 0, N) == 0, Sig(nout * i, 0, N) == 0)
                if isinstance(out, SArr):
                    reg.prove("%s.Kernel.Iq.post.no_point_gives_background.%s" % (prop, tag),
                              pc + rng + [zero], out.at(i) == v0(1), function=MOD + ".Kernel.Iq", nl=True)
                reg.prove("%s.Kernel.Iq.mode_zero_and_flags.%s" % (prop, tag), pc,
                          z3.BoolVal(log.get("mode") == 0 and log.get("magnetic") is magnetic),
                          function=MOD + ".Kernel.Iq")
                reg.prove("%s.Kernel.Iq.frame.values_unmodified.%s" % (prop, tag), pc,
                          values.buf.get(i) == v0(i), function=MOD + ".Kernel.Iq")
            it = Interp(reg)
            it.poison_one_arm = False     # fork rather than poison: aliasing may differ between branches
            it.run_paths(body)



def replay_alias():
    """Real kernels: the arrays returned by call_Fq must not change when the same kernel is evaluated again
    (monodisperse, unit-weight and dispersed calls)."""
    import numpy as np
    from sasmodels import core
    from sasmodels.direct_model import call_Fq
    bad, out = False, []
    q = np.array([0.01, 0.05, 0.2])
    for name in ("sphere", "vesicle"):
        k = core.load_model(name).make_kernel([q])
        for first in ({"radius": 40.0}, {"radius": 40.0, "radius_pd": 0.2, "radius_pd_n": 8}):
            r1 = call_Fq(k, dict(first))
            keep = [None if a is None else np.array(a, copy=True) for a in r1[:2]]
            call_Fq(k, {"radius": 75.0})
            same = all((a is None and b is None) or (a is not None and np.array_equal(np.asarray(a), b))
                       for a, b in zip(r1[:2], keep))
            if not same:
                bad = True
                out.append({"model": name, "first_call": first,
                            "F2_then": keep[1].tolist(), "F2_after_second_call": np.asarray(r1[1]).tolist()})
    return bool(bad), {"call": "call_Fq(kernel, p1) ; call_Fq(kernel, p2) ; inspect the arrays returned by the first call",
                       "real": out, "spec": "unchanged by the second evaluation"}



def replay_means():
    """Real kernels with a cutoff that drops part of the mesh: I(q) and the reported volumes against the defining
    weighted means over the kept points (monodisperse evaluations of the same kernel)."""
    import itertools
    import numpy as np
    from sasmodels import core
    from sasmodels.direct_model import call_kernel, call_Fq, get_mesh
    q = np.array([0.01, 0.05, 0.2])
    m = core.load_model("cylinder")
    k = m.make_kernel([q])
    pars = dict(radius=20.0, radius_pd=0.3, radius_pd_n=9, length=200.0, length_pd=0.25, length_pd_n=7,
                scale=1.7, background=0.03)
    cutoff = 1.3e-2
    got = np.asarray(call_kernel(k, pars, cutoff=cutoff))
    mesh = get_mesh(m.info, pars, dim="1d")
    names = [p.name for p in m.info.parameters.call_parameters]
    r_v, r_w = np.atleast_1d(mesh[names.index("radius")][1]), np.atleast_1d(mesh[names.index("radius")][2])
    l_v, l_w = np.atleast_1d(mesh[names.index("length")][1]), np.atleast_1d(mesh[names.index("length")][2])
    sw = sf = sv = 0.0
    for (r, wr), (l, wl) in itertools.product(zip(r_v, r_w), zip(l_v, l_w)):
        w = wr * wl
        if w <= cutoff:
            continue
        F1, F2, R, Vs, ratio = call_Fq(k, dict(radius=float(r), length=float(l)), cutoff=0.0)
        sw += w
        sf = sf + w * np.asarray(F2)
        sv += w * Vs
    want = 1.7 * (sf / sw) / (sv / sw) + 0.03
    bad = not np.allclose(got, want, rtol=1e-10)
    return bool(bad), {"call": "call_kernel(cylinder, radius_pd=0.3 (9 pts), length_pd=0.25 (7 pts), cutoff=1.3e-2)",
                       "real": got.tolist(), "spec": np.asarray(want).tolist(), "kept_weight": float(sw)}
