"""
C16 -- a reparameterised model equals its base model at the translated parameters.

The generated kernel of ``core.reparameterize(base, parameters, translation)``
is proved against the C01 kernel postcondition with every model-function
argument replaced by T(P(s)): the base parameter computed from the mesh point
P(s) in the *new* parameters by an independent reading of the translation text
(contracts/kernel_c.TableSpec.translate).  The proof is the C01 nest proof
(contracts/kernel_c.KernelProof) on the AST of the generated source, so the
TRANSLATION_VARS / VALID / CALL_* macro expansions produced by
generate._build_translation are what is verified; nothing of generate.py is
trusted for them.

Python side: modelinfo.derive_table (name, order, limits of untouched
parameters; placement of the new ones; theta_offset is the slot of theta) as a
per-program run-time contract (bounded: the enumerated program family), and the
shared DllKernel/Kernel contracts (contracts/pykernel).
"""
import z3

from vp.core import OutsideSubset, run_parallel
from contracts import kernel_c

PROP = "C16"

INF = float("inf")

# ---- the program family ---------------------------------------------------
# (tag, base model, new parameters, translation, insert_after, kernels)

ELLIPSOID_PARS = [
    ["volume", "Ang^3", 1e5, [0, INF], "volume", "ellipsoid volume"],
    ["eccentricity", "", 1, [0, INF], "volume", "polar:equatorial radius"],
]
ELLIPSOID_TR = """
    Re = cbrt(volume/eccentricity/M_4PI_3)
    radius_polar = eccentricity*Re
    radius_equatorial = Re
    """

HOLLOW_PARS = [
    ["radius_outer", "Ang", 50, [0, INF], "volume", "outer radius"],
    ["wall_fraction", "", 0.2, [0, 1], "volume", "wall thickness as a fraction of outer radius"],
]
HOLLOW_TR = """
    wall = wall_fraction*radius_outer
    thickness = wall
    radius = radius_outer - wall
    """

PPD_PARS = [
    ["base_len", "Ang", 40, [0, INF], "volume", "shortest side"],
    ["aspect", "", 1.5, [0, INF], "volume", "ratio of successive sides"],
]
PPD_TR = """
    mid = aspect*base_len
    length_a = base_len
    length_b = mid
    length_c = aspect*mid + 2.5
    """

SPHERE_PARS = [["r_half", "Ang", 20, [0, INF], "volume", "half radius"]]
SPHERE_TR = "radius = 2*r_half + 1.5"

CYL_PARS = [
    ["vol", "Ang^3", 1e5, [0, INF], "volume", "cylinder volume"],
    ["ratio", "", 4, [0, INF], "volume", "length:radius"],
]
CYL_TR = """
    rcube = vol/(M_PI*ratio)
    radius = cbrt(rcube)
    length = ratio*cbrt(rcube)
    """

CSS_PARS = [
    ["total_radius", "Ang", 70, [0, INF], "volume", "outer radius"],
    ["shell_fraction", "", 0.15, [0, 1], "volume", "shell:total"],
    ["contrast", "1e-6/Ang^2", 2, [-INF, INF], "sld", "core-solvent contrast"],
]
CSS_TR = """
    tshell = shell_fraction*total_radius
    radius = total_radius - tshell
    thickness = tshell
    sld_core = sld_solvent + contrast
    """

FRACTAL_PARS = [["dim_excess", "", 1.0, [0, 5], "", "fractal dimension above one"]]
FRACTAL_TR = "fractal_dim = 1.0 + dim_excess"

BARBELL_PARS = [["bell_excess", "Ang", 20, [0, INF], "volume", "bell radius beyond the bar radius"]]
BARBELL_TR = "radius_bell = radius + bell_excess"

PEARL_PARS = [["string_fraction", "", 0.1, [0, 1], "volume", "string thickness:pearl radius"]]
PEARL_TR = """
    thick_string = string_fraction*radius
    """

LAMELLAR_PARS = [["half_thickness", "Ang", 25, [0, INF], "volume", "half of the bilayer thickness"]]
LAMELLAR_TR = "thickness = half_thickness + half_thickness"


# a base model written for the family: a validity expression in which the parameter is an operand of '*'
CUSTOM_CAPPED = dict(
    name="verif_capped", title="capped decay", description="test base for reparameterisation",
    category="shape-independent",
    parameters=[["radius", "Ang", 20.0, [0, INF], "volume", "size"],
                ["cap", "Ang", 100.0, [0, INF], "", "upper limit of twice the size"],
                ["contrast", "", 1.0, [-INF, INF], "", "amplitude"]],
    Iq="return contrast*exp(-q*radius);",
    form_volume="return radius*radius*radius;",
    valid="2.0*radius <= cap && cap - radius >= -radius",
)
CAPPED_PARS = [["r_in", "Ang", 10.0, [0, INF], "volume", "inner size"],
               ["gap", "Ang", 5.0, [0, INF], "volume", "size increment"]]
CAPPED_TR = "radius = r_in + gap"

# every base volume parameter replaced by a parameter that is NOT of type volume
SPHERE_VOL_PARS = [["vol", "Ang^3", 33510.0, [0, INF], "", "sphere volume (plain parameter, no dispersity type)"]]
SPHERE_VOL_TR = "radius = cbrt(vol/M_4PI_3)"


# a base parameter whose name is a single character (as in core_multi_shell, guinier_porod, teubner_strey, ...),
# assigned on a line indented with a tab
CUSTOM_LETTER = dict(
    name="verif_letter", title="single-letter decay", description="test base for reparameterisation",
    category="shape-independent",
    parameters=[["a", "Ang", 20.0, [0, INF], "volume", "size"],
                ["k", "", 1.0, [-INF, INF], "", "amplitude"]],
    Iq="return k*exp(-q*a);",
    form_volume="return a*a*a;",
)
LETTER_PARS = [["half", "Ang", 10.0, [0, INF], "volume", "half size"]]
LETTER_TR = "\ta = 2.0*half"


def custom_base(spec):
    """ModelInfo of a base model defined here (module-like object through the library's own make_model_info)."""
    import types
    from sasmodels import modelinfo
    mod = types.ModuleType("verif_custom_" + spec["name"])
    mod.__file__ = "verif_custom_%s.py" % spec["name"]
    for k, v in spec.items():
        setattr(mod, k, v)
    return modelinfo.make_model_info(mod)


QUICK_PROGRAMS = [
    ("ellipsoid_vol_ecc", "ellipsoid", ELLIPSOID_PARS, ELLIPSOID_TR, None, ["Iq", "Iqxy"]),
    ("ellipsoid_after_phi", "ellipsoid", ELLIPSOID_PARS, ELLIPSOID_TR, {"phi": "volume,eccentricity"}, ["Iqxy"]),
    ("hollow_cylinder_outer", "hollow_cylinder", HOLLOW_PARS, HOLLOW_TR, None, ["Iq"]),
    ("parallelepiped_aspect_after_psi", "parallelepiped", PPD_PARS, PPD_TR, {"psi": "base_len", "": "aspect"},
     ["Iqxy"]),
    ("sphere_affine", "sphere", SPHERE_PARS, SPHERE_TR, None, ["Iq"]),
    ("cylinder_valid", "cylinder", CYL_PARS, CYL_TR, {"sld_solvent": "vol,ratio"}, ["Iq", "Iqxy"]),
    ("lamellar_half", "lamellar", LAMELLAR_PARS, LAMELLAR_TR, None, ["Iq"]),
    ("custom_valid_with_product", CUSTOM_CAPPED, CAPPED_PARS, CAPPED_TR, None, ["Iq"]),
    ("sphere_volume_as_plain_parameter", "sphere", SPHERE_VOL_PARS, SPHERE_VOL_TR, None, ["Iq"]),
    ("single_letter_base_parameter", CUSTOM_LETTER, LETTER_PARS, LETTER_TR, None, ["Iq"]),
]

THOROUGH_PROGRAMS = QUICK_PROGRAMS + [
    ("ellipsoid_split", "ellipsoid", ELLIPSOID_PARS, ELLIPSOID_TR, {"sld": "volume", "phi": "eccentricity"},
     ["Iq", "Iqxy"]),
    ("hollow_cylinder_outer_2d", "hollow_cylinder", HOLLOW_PARS, HOLLOW_TR, {"phi": "wall_fraction,radius_outer"},
     ["Iqxy"]),
    ("parallelepiped_aspect", "parallelepiped", PPD_PARS, PPD_TR, None, ["Iq", "Iqxy"]),
    ("core_shell_sphere_contrast", "core_shell_sphere", CSS_PARS, CSS_TR, None, ["Iq", "Iqxy"]),
    ("core_shell_sphere_front", "core_shell_sphere", CSS_PARS, CSS_TR,
     {"": "total_radius,shell_fraction,contrast"}, ["Iq"]),
    ("fractal_dim", "fractal", FRACTAL_PARS, FRACTAL_TR, None, ["Iq", "Iqxy"]),
    ("barbell_excess", "barbell", BARBELL_PARS, BARBELL_TR, {"phi": "bell_excess"}, ["Iq", "Iqxy"]),
    ("pearl_necklace_fraction", "pearl_necklace", PEARL_PARS, PEARL_TR, None, ["Iq"]),
    ("lamellar_half_front", "lamellar", LAMELLAR_PARS, LAMELLAR_TR, {"sld_solvent": "half_thickness"}, ["Iq"]),
    ("sphere_affine_2d", "sphere", SPHERE_PARS, SPHERE_TR, {"": "r_half"}, ["Iqxy"]),
]


def build(program):
    from sasmodels import core
    tag, base, pars, translation, insert_after, kinds = program
    base_info = custom_base(base) if isinstance(base, dict) else core.load_model_info(base)
    info = core.reparameterize(base_info, [list(p) for p in pars], translation,
                               filename="verif_%s.py" % tag, insert_after=insert_after)
    return base_info, info


class ReparamProof(kernel_c.KernelProof):
    program = None

    def replay(self, model):
        from contracts import c16_replay
        return c16_replay.replay(self.program, self.kind)


def _kernel_job(sub, job):
    program, kind = job
    tag = program[0]
    try:
        base_info, info = build(program)
        proof = ReparamProof(sub, PROP, "verif_" + tag, kind, info=info, tag="%s.%s" % (tag, kind))
        proof.program = program
        proof.run()
    except OutsideSubset as exc:
        if getattr(exc, "reported", False):
            return
        sub.undecided("%s.kernel.%s.%s.engine" % (PROP, tag, kind), "outside subset: %s" % exc,
                      function="generated:%s_%s" % (tag, kind), engine="cvc")


# ---- derived parameter table (run-time contract over the family) -------------

ATTRS = ("id", "name", "units", "default", "limits", "type", "description", "length", "length_control",
         "is_control", "polydisperse", "relative_pd", "choices")


def expected_order(old_ids, new_ids, removed, insert_after):
    """The order the documentation of reparameterize prescribes."""
    if insert_after is None:
        out, placed = [], False
        for p in old_ids:
            if p in removed:
                if not placed:
                    out += new_ids
                    placed = True
            else:
                out.append(p)
        if not placed:
            out += new_ids
        return out
    out = []
    for name in [s.strip() for s in insert_after.get("", "").split(",") if s.strip()]:
        out.append(name)
    for p in old_ids:
        if p not in removed:
            out.append(p)
        for name in [s.strip() for s in insert_after.get(p, "").split(",") if s.strip()]:
            out.append(name)
    return out


def table_contract(reg, program):
    import re
    tag, base, pars, translation, insert_after, kinds = program
    where = "sasmodels/modelinfo.py:derive_table"
    try:
        base_info, info = build(program)
    except Exception as exc:        # noqa
        reg.fail("%s.table.%s.builds" % (PROP, tag), {"program": tag, "detail": "reparameterize raised %r" % (exc,)},
                 function=where, engine="runtime-contract", kind="bounded")
        return
    old = base_info.parameters.kernel_parameters
    new = info.parameters.kernel_parameters
    old_ids = [p.id for p in old]
    lhs = [m.group(1) for m in re.finditer(r"^\s*([A-Za-z_][A-Za-z0-9_]*)\s*=", translation, flags=re.M)]
    removed = [v for v in lhs if v in old_ids]
    new_ids = [p[0] for p in pars]
    bound = "the enumerated reparameterisation programs (%d quick / %d thorough)" % (
        len(QUICK_PROGRAMS), len(THOROUGH_PROGRAMS))

    def ob(name, ok, detail):
        oid = "%s.table.%s.%s" % (PROP, tag, name)
        if ok:
            reg.passed(oid, function=where, engine="runtime-contract", kind="bounded", backend="cpython", bound=bound)
        else:
            reg.fail(oid, {"program": tag, "detail": detail, "call": "core.reparameterize(%r, %r, ..., insert_after=%r)"
                           % (base, new_ids, insert_after)},
                     function=where, engine="runtime-contract", kind="bounded")
    got_ids = [p.id for p in new]
    ob("order", got_ids == expected_order(old_ids, new_ids, removed, insert_after),
       "kernel parameter order %s, documented placement gives %s" % (
           got_ids, expected_order(old_ids, new_ids, removed, insert_after)))
    byid = {p.id: p for p in new}
    bad = []
    for p in old:
        if p.id in removed:
            if p.id in byid:
                bad.append("%s replaced by the translation but still in the table" % p.id)
            continue
        q = byid.get(p.id)
        if q is None:
            bad.append("%s missing" % p.id)
            continue
        for a in ATTRS:
            if getattr(p, a, None) != getattr(q, a, None):
                bad.append("%s.%s changed: %r -> %r" % (p.id, a, getattr(p, a, None), getattr(q, a, None)))
    ob("untouched_parameters_unchanged", not bad, "; ".join(bad))
    bad = []
    for spec in pars:
        q = byid.get(spec[0])
        if q is None:
            bad.append("%s missing" % spec[0])
            continue
        if q.units != spec[1] or q.default != spec[2] or tuple(q.limits) != tuple(spec[3]) or q.type != spec[4]:
            bad.append("%s: units/default/limits/type %r" % (spec[0], (q.units, q.default, q.limits, q.type)))
    ob("new_parameters_as_given", not bad, "; ".join(bad))
    # the slot the kernel reads the view angles from
    pos, slot = 0, -1
    for p in new:
        if p.id == "theta":
            slot = pos
        pos += p.length
    if slot >= 0:
        ob("theta_offset_is_slot_of_theta", info.parameters.theta_offset == slot,
           "theta_offset=%d but theta is value slot %d" % (info.parameters.theta_offset, slot))
    nmag = sum(p.length for p in new if p.type == "sld")
    nvalues = 2 + pos + (4 + 3 * nmag if nmag else 0)
    ob("npars_nvalues", info.parameters.npars == pos and info.parameters.nvalues == nvalues,
       "npars=%d nvalues=%d for %d kernel values, %d magnetic" % (
           info.parameters.npars, info.parameters.nvalues, pos, nmag))
    ob("base_table_kept", info.base is base_info.parameters and base_info.parameters.kernel_parameters == old
       and base_info.translation is None,
       "the base table is not the base model's table, or the base info was modified")


def check(reg, tier):
    from contracts import pykernel
    programs = THOROUGH_PROGRAMS if tier == "thorough" else QUICK_PROGRAMS
    jobs = [(p, k) for p in programs for k in p[5]]
    run_parallel(reg, _kernel_job, jobs)
    for p in programs:
        table_contract(reg, p)
    pykernel.dll_call_kernel(reg, PROP)
    pykernel.kernel_Fq_Iq(reg, PROP)
    reg.assume("model functions Iq/Fq/Iqac/Iqabc/form_volume/shell_volume/radius_effective and the C math "
               "functions used by translations (cbrt, pow, ...) are uninterpreted functions; the spec reads the "
               "translation text with its own parser (python ast over + - * / calls), so C-only syntax "
               "(?:, casts) in a translation is outside the subset")
    reg.assume("the family of reparameterisations is the enumerated list in contracts/c16.py; each kernel proof "
               "is for all parameter values, meshes, q and chunk boundaries of that program")
    reg.extra["programs"] = len(programs)
    reg.extra["program_names"] = [p[0] for p in programs]
