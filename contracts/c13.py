"""
C13 -- particle models are dimensionally consistent with their declared units.

Functions under contract: every C function reachable from Iq/Fq/Iqac/Iqabc/
form_volume/shell_volume/radius_effective of each model of category shape:*
whose parameters carry only length-type, SLD, angle or dimensionless units
(the generated source of the model as clang parses it).

Contract (homogeneity, proved by the grading of vp/symcheck.py):
  arguments get the degree vector (d_lambda, d_mu) of their declared unit
     Ang^k -> (k, 0)   1/Ang^k -> (-k, 0)   q -> (-1, 0)
     1e-6/Ang^2 (SLD) -> (0, 1)   degrees, '', None -> (0, 0)
  results:  F^2 (Iq, Fq second output, Iqac, Iqabc) (6, 2)   F (Fq first output) (3, 1)
            form_volume, shell_volume (3, 0)        radius_effective (1, 0)
  (models without volume parameters: Iq has degree (3, 2))
With the kernel contract (C01: I = scale * sum w F^2 / sum w V + background, the
arguments taken from the table) this gives (I - background) -> lambda^3, mu^2.
The binding unit -> argument is the table order (C01 obligation on CALL_*).
Also checked on the tables (data facts): expanded vector parameters inherit
units, type and relative-width flag of their base parameter.
"""
from fractions import Fraction
import re
import z3

from vp import cvc, symcheck
from vp.symcheck import Grader, Inhomogeneous, deg, fmt
from vp.core import OutsideSubset, run_parallel

PROP = "C13"

UNIT_DEG = {"Ang": (1, 0), "Ang^2": (2, 0), "Ang^3": (3, 0), "1/Ang": (-1, 0), "1/Ang^2": (-2, 0),
            "1/Ang^3": (-3, 0), "1e-6/Ang^2": (0, 1), "degrees": (0, 0), "degree": (0, 0), "": (0, 0),
            "None": (0, 0), None: (0, 0)}


def eligible_models():
    from sasmodels import core
    out = []
    for name in core.list_models():
        info = core.load_model_info(name)
        if not (info.category or "").startswith("shape:"):
            continue
        if callable(info.Iq):
            continue
        if all(p.units in UNIT_DEG for p in info.parameters.kernel_parameters):
            out.append(name)
    return out


def check(reg, tier):
    models = eligible_models()
    reg.extra["models"] = models
    run_parallel(reg, _job, models)
    _table_facts(reg)
    reg.assume("reals for doubles; special functions (sin, cos, exp, Bessel, Si, gamma...) graded by signature: "
               "dimensionless argument, dimensionless result")
    reg.assume("thresholds that compare a dimensional quantity with a non-zero constant are violations of the "
               "grading (reported only when the numeric replay confirms a scaling defect)")


def _job(sub, name):
    _model(sub, name)


def arg_degrees(info, pars):
    out = []
    for p in pars:
        d = deg(*UNIT_DEG[p.units])
        out.append(d)
    return out


def _model(reg, name):
    tu = cvc.model_tu(name)
    info = tu.info
    pt = info.parameters
    q = deg(-1, 0)
    has_vol = bool(pt.form_volume_parameters) and "form_volume" in tu.functions
    iq = arg_degrees(info, pt.iq_parameters)
    vol = arg_degrees(info, pt.form_volume_parameters)
    graded, problems = {}, {}

    def grade(fname, args):
        fn = tu.functions[fname]
        reg.function_under_contract("generated[%s]:%s" % (name, fname), "sasmodels/models/%s.c" % name,
                                    fn["loc"].get("presumedLine", 0), 0, tu.func_text(fn))
        g = Grader(tu)
        try:
            graded[fname] = g.grade_function(fname, args)
            graded[fname + ".visited"] = sorted(g.visited)
        except Inhomogeneous as exc:
            problems[fname] = "%s [%s]" % (exc, _locate(tu, exc.node))
        except OutsideSubset as exc:
            problems[fname] = "outside the graded subset: %s" % exc
    if "Fq" in tu.functions and info.have_Fq:
        grade("Fq", [q, symcheck.ANY, symcheck.ANY] + iq)
    elif "Iq" in tu.functions:
        grade("Iq", [q] + iq)
    if "Iqac" in tu.functions:
        grade("Iqac", [q, q] + iq)
    if "Iqabc" in tu.functions:
        grade("Iqabc", [q, q, q] + iq)
    if has_vol:
        grade("form_volume", vol)
        if "shell_volume" in tu.functions:
            grade("shell_volume", vol)
        if "radius_effective" in tu.functions:
            grade("radius_effective", [deg(0, 0)] + vol)
    # ---- clauses -----------------------------------------------------------
    clauses = []       # (obligation name, ok | None, message)

    def degof(fname, out=None):
        if fname in problems:
            return "problem"
        r = graded.get(fname)
        if r is None:
            return None
        return r[0] if out is None else r[1][out]
    vshell = degof("shell_volume") if "shell_volume" in graded or "shell_volume" in problems else degof("form_volume")
    if not has_vol:
        vshell = deg(0, 0)
    for f2name, f2 in (("Fq", degof("Fq", 1) if "Fq" in graded or "Fq" in problems else None),
                       ("Iq", degof("Iq")), ("Iqac", degof("Iqac")), ("Iqabc", degof("Iqabc"))):
        if f2 is None:
            continue
        cname = "intensity_scales_lambda3_mu2.%s" % f2name
        if f2 == "problem" or vshell == "problem":
            clauses.append((cname, False, problems.get(f2name) or problems.get("shell_volume")
                            or problems.get("form_volume")))
        elif f2 is symcheck.ANY or vshell is symcheck.ANY:
            clauses.append((cname, True, ""))
        else:
            d = tuple(a - b for a, b in zip(f2, vshell))
            clauses.append((cname, d == deg(3, 2), "deg(F^2) - deg(V_shell) = %s, contract (3, 2)" % fmt(d)))
    if "Fq" in graded:
        f1, f2 = graded["Fq"][1]
        if f1 is not symcheck.ANY and f2 is not symcheck.ANY:
            clauses.append(("amplitude_is_half_degree.Fq", tuple(2 * x for x in f1) == f2,
                            "deg(F) = %s, deg(F^2) = %s" % (fmt(f1), fmt(f2))))
    for vn in ("form_volume", "shell_volume"):
        dv = degof(vn)
        if dv is None:
            continue
        clauses.append(("volume_scales_lambda3.%s" % vn,
                        dv != "problem" and (dv is symcheck.ANY or dv == deg(3, 0)),
                        problems.get(vn) or "deg = %s, contract (3, 0)" % fmt(dv)))
    dr = degof("radius_effective")
    if dr is not None:
        clauses.append(("radius_effective_scales_lambda.radius_effective",
                        dr != "problem" and (dr is symcheck.ANY or dr == deg(1, 0)),
                        problems.get("radius_effective") or "deg = %s, contract (1, 0)" % fmt(dr)))
    bad = [c for c in clauses if not c[1]]
    replayed = None
    for cname, ok, msg in clauses:
        oid = "%s.%s.%s" % (PROP, cname.rsplit(".", 1)[0], name) + "." + cname.rsplit(".", 1)[1]
        where = "models/%s: %s" % (name, cname.rsplit(".", 1)[1])
        if ok:
            reg.passed(oid, function=where, engine="symcheck", backend="degree grading",
                       sample={"obligation": oid, "functions_graded":
                               graded.get(cname.rsplit(".", 1)[1] + ".visited", [])[:10]})
            continue
        if replayed is None:
            replayed = replay_scaling(name)
        reproduced, info_r = replayed
        which = cname.split(".")[0]
        hit = info_r.get("deviations", {}).get({"intensity_scales_lambda3_mu2": "intensity",
                                                "amplitude_is_half_degree": "intensity",
                                                "volume_scales_lambda3": "volume",
                                                "radius_effective_scales_lambda": "radius"}[which], 0.0)
        if hit > 1e-6:
            reg.fail(oid, {"grading": msg, "replay": info_r}, function=where, engine="symcheck")
        else:
            # not proved by the grading; the seeded numeric scaling test on the compiled
            # model stands in (bounded, never counted as proved)
            reg.passed(oid + ".numeric_stand_in", function=where, engine="symcheck", kind="bounded",
                       backend="numeric scaling test",
                       bound="grading fails: %s; %s" % (msg, info_r.get("summary")))
            reg.extra.setdefault("not_proved_by_grading", []).append({"model": name, "clause": cname,
                                                                      "reason": msg})


def _locate(tu, node):
    if not node:
        return "?"
    r = node.get("range", {}).get("begin", {})
    line = r.get("line") or r.get("spellingLoc", {}).get("line") or r.get("expansionLoc", {}).get("line")
    if line and 0 < line <= len(tu.lines):
        return "generated line %d: %s" % (line, tu.lines[line - 1].strip()[:120])
    return "?"


def replay_scaling(name, seed=1):
    """(I - bkg), volumes and R_eff at lambda/mu-scaled parameters on the real model,
    for the default parameters and for sets from the model's own random generator."""
    import numpy as np
    from sasmodels import core
    from sasmodels.direct_model import call_kernel, call_Fq
    m = core.load_model(name)
    info = m.info
    names = [p.name for p in info.parameters.call_parameters[2:2 + info.parameters.npars]]
    plist = {p.name: p for p in info.parameters.call_parameters}
    sets = [{n: plist[n].default for n in names}]
    for s_ in range(3):
        np.random.seed(seed + s_)
        try:
            r = info.random()
            sets.append({n: r.get(n, plist[n].default) for n in names})
        except Exception:
            pass
    # parameters whose default is zero switch a term off: also evaluate with the term switched on
    for n in names:
        p_ = plist[n]
        if p_.default == 0 and p_.type != "orientation" and not p_.is_control and not p_.choices:
            for v in (4.0, 0.3):
                if p_.limits[0] <= v <= p_.limits[1]:
                    sets.append(dict(sets[0], **{n: v}))
                    break
    # the replay runs only after the grading has failed, i.e. when a failing input is wanted: every length-like
    # parameter is also taken at a tenth and at ten times its default (thresholds that compare a length with a pure
    # number switch branches there), and two extreme scalings are added below
    for n in names:
        p_ = plist[n]
        if UNIT_DEG.get(p_.units, (0, 0))[0] != 0 and not p_.is_control and not p_.choices and p_.default:
            for f in (0.1, 10.0):
                v = p_.default * f
                if p_.limits[0] <= v <= p_.limits[1]:
                    sets.append(dict(sets[0], **{n: v}))
    ctl = [p.name for p in info.parameters.kernel_parameters if p.is_control]
    dev = {"intensity": 0.0, "volume": 0.0, "radius": 0.0}
    worst_case = {}
    nmodes = len(info.radius_effective_modes or [])
    for pars in sets:
        for lam, mu in ((1.7, 1.0), (0.45, 1.0), (1.0, 2.3), (0.02, 1.0), (40.0, 1.0)):
            q = np.array([0.004, 0.02, 0.07, 0.15])
            p2 = {}
            for n in names:
                dl, dm = UNIT_DEG.get(plist[n].units, (0, 0))
                p2[n] = pars[n] if n in ctl else pars[n] * lam ** dl * mu ** dm
            try:
                k1, k2 = m.make_kernel([q]), m.make_kernel([q / lam])
                i1 = call_kernel(k1, dict(pars, background=0.0))
                i2 = call_kernel(k2, dict(p2, background=0.0))
                ok = np.isfinite(i1) & np.isfinite(i2) & (np.abs(i1) > 1e-300)
                if ok.any():
                    e = float(np.max(np.abs(i2[ok] / (i1[ok] * lam ** 3 * mu ** 2) - 1)))
                    if e > dev["intensity"]:
                        dev["intensity"], worst_case["intensity"] = e, dict(pars=pars, lam=lam, mu=mu)
                if info.parameters.has_2d and any(p.type == "orientation" for p in info.parameters.kernel_parameters):
                    qx, qy = np.array([0.01, 0.05, -0.03, 0.11]), np.array([0.02, -0.04, 0.07, 0.05])
                    k3, k4 = m.make_kernel([qx, qy]), m.make_kernel([qx / lam, qy / lam])
                    ang = dict(theta=33.0, phi=57.0)
                    if "psi" in plist:
                        ang["psi"] = 21.0
                    j1 = call_kernel(k3, dict(pars, background=0.0, **ang))
                    j2 = call_kernel(k4, dict(p2, background=0.0, **ang))
                    ok2 = np.isfinite(j1) & np.isfinite(j2) & (np.abs(j1) > 1e-300)
                    if ok2.any():
                        e2 = float(np.max(np.abs(j2[ok2] / (j1[ok2] * lam ** 3 * mu ** 2) - 1)))
                        if e2 > dev["intensity"]:
                            dev["intensity"], worst_case["intensity"] = e2, dict(pars=pars, lam=lam, mu=mu, dim="2d")
                for mode in range(1, max(nmodes, 1) + 1):
                    f1 = call_Fq(k1, dict(pars, radius_effective_mode=mode))
                    f2 = call_Fq(k2, dict(p2, radius_effective_mode=mode))
                    if info.parameters.form_volume_parameters and f1[3] not in (0, 1.0):
                        dev["volume"] = max(dev["volume"], float(abs(f2[3] / (f1[3] * lam ** 3) - 1)))
                    if nmodes and f1[2]:
                        dev["radius"] = max(dev["radius"], float(abs(f2[2] / (f1[2] * lam) - 1)))
            except Exception as exc:
                continue
    worst = max(dev.values())
    return worst > 1e-6, {"summary": "max relative deviations %s over %d parameter sets" % (
        {k: float("%.3g" % v) for k, v in dev.items()}, len(sets)), "deviations": dev,
        "worst_case": worst_case,
        "call": "call_kernel/call_Fq(%s) at parameters p and at lambda/mu-scaled p" % name}


def _table_facts(reg):
    """Expanded vector parameters inherit units/type/relative-width of their base."""
    from sasmodels import core
    bad = []
    n = 0
    for name in core.list_models():
        info = core.load_model_info(name)
        pt = info.parameters
        for p in pt.kernel_parameters:
            if p.length > 1:
                for k in range(1, p.length + 1):
                    pk = [c for c in pt.call_parameters if c.id == "%s%d" % (p.id, k)]
                    n += 1
                    if len(pk) != 1 or pk[0].units != p.units or pk[0].type != p.type \
                            or pk[0].relative_pd != p.relative_pd or pk[0].polydisperse != p.polydisperse \
                            or tuple(pk[0].limits) != tuple(p.limits):
                        bad.append((name, p.id, k))
    oid = "%s.table.vector_elements_inherit_unit_type_relative_width" % PROP
    fn = "sasmodels.modelinfo.ParameterTable._get_call_parameters"
    if bad:
        reg.fail(oid, {"first": bad[:5], "count": len(bad),
                       "call": "ParameterTable of %s: element %s%d differs from its base parameter" % bad[0]},
                 function=fn, kind="bounded")
    else:
        reg.passed(oid, function=fn, kind="bounded", backend="run-time contract",
                   bound="%d expanded vector elements over all builtin tables" % n)
