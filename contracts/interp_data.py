"""
DataMixin._interpret_data (sasmodels/direct_model.py), 1-D branch -- shared by C03 and C10.

Contract (for every length n of the data arrays, all values symbolic):
  selection   index[j] <=> qmin <= x[j] <= qmax  and  mask[j] == 0 (when a mask is given)
                           and  not isnan(y[j]) (when y is given)                        (C10)
  data        Iq = y[index], dIq = dy[index]  (order-preserving selection by that index)    (C10)
  resolution  dx given:   Pinhole1D(x[index], dx[index]) iff SOME selected point has dx > 0,
                          otherwise Perfect1D(x[index]);
              dxl or dxw: Slit1D(x[index], q_length = dxl[index] | None, q_width = dxw[index] | None);
              neither:    Perfect1D(x[index])                                                (C03)
The resolution constructors are replaced by recording summaries (their own contracts are C03's); the data object
is a record with exactly the attributes the function reads.
Replay: the real DataMixin._interpret_data on Data1D objects with mixed zero / positive widths, masks, NaN.
"""
import z3

from vp.pyvc import Interp, Sym, SArr, Summary, IRaise, is_sym
from vp.core import OutsideSubset

MOD = "sasmodels.direct_model"
FN = MOD + ".DataMixin._interpret_data"


def contract(reg, prop, clauses):
    """clauses: subset of {"selection", "resolution"}."""
    for case in ("dx", "slit_lw", "slit_l", "slit_w", "none"):
        for with_y in (True, False):
            for with_mask in (True, False):
                tag = "%s.%s.%s" % (case, "y" if with_y else "noy", "mask" if with_mask else "nomask")

                def body(it, case=case, with_y=with_y, with_mask=with_mask, tag=tag):
                    _body(reg, prop, clauses, it, case, with_y, with_mask, tag)
                it = Interp(reg)
                try:
                    it.run_paths(body)
                except OutsideSubset as exc:
                    reg.undecided("%s._interpret_data.engine.%s" % (prop, tag), "outside subset: %s" % exc, function=FN)


def _body(reg, prop, clauses, it, case, with_y, with_mask, tag):
    import sasmodels.direct_model as live
    n = z3.Int("n")
    it.assume(n >= 0)
    X = z3.Function("x", z3.IntSort(), z3.RealSort())
    Y = z3.Function("y", z3.IntSort(), z3.RealSort())
    YNAN = z3.Function("y_is_nan", z3.IntSort(), z3.BoolSort())
    DY = z3.Function("dy", z3.IntSort(), z3.RealSort())
    DX = z3.Function("dx", z3.IntSort(), z3.RealSort())
    DXL = z3.Function("dxl", z3.IntSort(), z3.RealSort())
    DXW = z3.Function("dxw", z3.IntSort(), z3.RealSort())
    M = z3.Function("mask", z3.IntSort(), z3.IntSort())
    qmin, qmax = z3.Real("qmin"), z3.Real("qmax")
    arrs = {"x": it.array_from_fn(lambda j: X(j), n, "real", "x")}
    y = it.array_from_fn(lambda j: Y(j), n, "real", "y") if with_y else None
    if y is not None:
        y.nan_el = lambda j: YNAN(j)
    dy = it.array_from_fn(lambda j: DY(j), n, "real", "dy") if with_y else None
    attrs = {"x": arrs["x"], "y": y, "dy": dy, "qmin": Sym(qmin), "qmax": Sym(qmax),
             "dx": None, "dxl": None, "dxw": None}
    if with_mask:
        attrs["mask"] = it.array_from_fn(lambda j: M(j), n, "int", "mask")
    if case == "dx":
        attrs["dx"] = it.array_from_fn(lambda j: DX(j), n, "real", "dx")
    if case in ("slit_lw", "slit_l"):
        attrs["dxl"] = it.array_from_fn(lambda j: DXL(j), n, "real", "dxl")
    if case in ("slit_lw", "slit_w"):
        attrs["dxw"] = it.array_from_fn(lambda j: DXW(j), n, "real", "dxw")
    data = it.new_obj(None, attrs, "Data1D")
    record = {}

    def ctor(name):
        def f(it_, args, kw):
            # the call is recorded in the object it returns (both arms of a branch may be executed tentatively)
            o = it_.new_obj(None, {"kind": name}, name)
            record[id(o)] = (name, list(args), dict(kw))
            return o
        return Summary(f, "resolution.%s (constructor recorded; contract C03)" % name, contract=False)
    for name in ("Pinhole1D", "Perfect1D", "Slit1D"):
        it.summaries["sasmodels.resolution.%s" % name] = ctor(name)
    selfo = it.new_obj(live.DataMixin, {}, "self")
    model = it.new_obj(None, {}, "model")
    f = it.get_func(MOD, "DataMixin._interpret_data")
    it.call(f, [selfo, data, model])
    pc = list(it.pc)
    rp = lambda mdl=None: replay()
    index = it.getattr(selfo, "index")
    j = z3.Int("j")
    want = z3.And(X(j) >= qmin, X(j) <= qmax)
    if with_mask:
        want = z3.And(want, M(j) == 0)
    if with_y:
        want = z3.And(want, z3.Not(YNAN(j)))
    ok_index = isinstance(index, SArr) and index.kind == "bool"
    if "selection" in clauses:
        reg.prove("%s._interpret_data.index_is_exactly_limits_mask_and_not_nan.%s" % (prop, tag),
                  pc + [j >= 0, j < n], z3.And(index.at(j) == want, (index.n if not isinstance(index.n, int) else z3.IntVal(index.n)) == n)
                  if ok_index else z3.BoolVal(False),
                  function=FN, replay=rp)
        Iq, dIq = it.getattr(selfo, "Iq"), it.getattr(selfo, "dIq")
        if with_y:
            good = all(isinstance(a, SArr) and getattr(a, "sel", None) is not None and a.sel[3] is src and a.sel[4] is index
                       for a, src in ((Iq, y), (dIq, dy)))
        else:
            good = Iq is None and dIq is None
        reg.prove("%s._interpret_data.Iq_dIq_are_the_selected_data.%s" % (prop, tag), pc, z3.BoolVal(bool(good)),
                  function=FN, replay=rp)
    if "resolution" in clauses:
        def selected(a, src):
            return isinstance(a, SArr) and getattr(a, "sel", None) is not None and a.sel[3] is src and a.sel[4] is index
        res = it.getattr(selfo, "resolution")
        name, args, kw = record.get(id(res), (None, [], {}))
        oid = "%s._interpret_data.resolution_object_follows_the_widths.%s" % (prop, tag)
        if case == "dx":
            some = z3.Exists([j], z3.And(j >= 0, j < n, want, DX(j) > 0))
            shape_ok = (name == "Pinhole1D" and len(args) == 2 and selected(args[0], arrs["x"])
                        and selected(args[1], attrs["dx"])) or \
                       (name == "Perfect1D" and len(args) == 1 and selected(args[0], arrs["x"]))
            ax = list(getattr(it, "axioms", []))
            desc = "Pinhole1D(x[index], dx[index]) iff some selected point has dx > 0, else Perfect1D(x[index])"
            if name == "Pinhole1D":
                # the branch condition gives a selected position with positive width: its source index is the witness
                reg.prove(oid, pc + ax, z3.And(z3.BoolVal(bool(shape_ok)), some), function=FN, replay=rp,
                          timeout_ms=60000, describe=desc)
            else:
                # no selected position has positive width: for an arbitrary source index j that is selected, the
                # inverse index map (instantiated at j explicitly) gives its position, where the width is <= 0
                inst = []
                for sch in getattr(it, "axiom_schemas", []):
                    inst.append(z3.Implies(z3.And(j >= 0, j < sch.n, sch.mask(j)),
                                           z3.And(sch.inv(j) >= 0, sch.inv(j) < sch.m, sch.sel(sch.inv(j)) == j)))
                reg.prove(oid, pc + ax + inst + [j >= 0, j < n, want],
                          z3.And(z3.BoolVal(bool(shape_ok)), DX(j) <= 0), function=FN, replay=rp, timeout_ms=60000,
                          describe=desc)
        elif case.startswith("slit"):
            ql, qw = kw.get("q_length"), kw.get("q_width")
            shape_ok = (name == "Slit1D" and len(args) == 1 and selected(args[0], arrs["x"])
                        and (selected(ql, attrs["dxl"]) if attrs["dxl"] is not None else ql is None)
                        and (selected(qw, attrs["dxw"]) if attrs["dxw"] is not None else qw is None))
            reg.prove(oid, pc, z3.BoolVal(bool(shape_ok)), function=FN, replay=rp)
        else:
            shape_ok = name == "Perfect1D" and len(args) == 1 and selected(args[0], arrs["x"])
            reg.prove(oid, pc, z3.BoolVal(bool(shape_ok)), function=FN, replay=rp)


def contract_2d(reg, prop):
    """Iqxy branch: index[j] <=> mask[j] == 0 and qmin <= sqrt(qx[j]^2 + qy[j]^2) <= qmax and not isnan(data[j]);
    Iq = data[index], dIq = err_data[index]; the resolution is Pinhole2D(data=data, index=index, nsigma=3.0,
    accuracy=data.accuracy)."""
    import sasmodels.direct_model as live
    for with_data in (True, False):
        tag = "Iqxy.%s" % ("data" if with_data else "nodata")

        def body(it, with_data=with_data, tag=tag):
            n = z3.Int("n")
            it.assume(n >= 0)
            QX = z3.Function("qx", z3.IntSort(), z3.RealSort())
            QY = z3.Function("qy", z3.IntSort(), z3.RealSort())
            D = z3.Function("data", z3.IntSort(), z3.RealSort())
            DNAN = z3.Function("data_is_nan", z3.IntSort(), z3.BoolSort())
            E = z3.Function("err", z3.IntSort(), z3.RealSort())
            M = z3.Function("mask", z3.IntSort(), z3.IntSort())
            qmin, qmax = z3.Real("qmin"), z3.Real("qmax")
            dat = it.array_from_fn(lambda j: D(j), n, "real", "data") if with_data else None
            if dat is not None:
                dat.nan_el = lambda j: DNAN(j)
            err = it.array_from_fn(lambda j: E(j), n, "real", "err") if with_data else None
            data = it.new_obj(None, {"qx_data": it.array_from_fn(lambda j: QX(j), n, "real", "qx"),
                                     "qy_data": it.array_from_fn(lambda j: QY(j), n, "real", "qy"),
                                     "data": dat, "err_data": err, "qmin": Sym(qmin), "qmax": Sym(qmax),
                                     "accuracy": "High",
                                     "mask": it.array_from_fn(lambda j: M(j), n, "int", "mask")}, "Data2D")
            record = {}

            def pinhole2d(it_, args, kw):
                o = it_.new_obj(None, {"kind": "Pinhole2D"}, "Pinhole2D")
                record[id(o)] = (list(args), dict(kw))
                return o
            it.summaries["sasmodels.resolution2d.Pinhole2D"] = Summary(pinhole2d, "resolution2d.Pinhole2D (recorded)",
                                                                       contract=False)
            selfo = it.new_obj(live.DataMixin, {}, "self")
            f = it.get_func(MOD, "DataMixin._interpret_data")
            it.call(f, [selfo, data, it.new_obj(None, {}, "model")])
            pc = list(it.pc) + list(getattr(it, "axioms", []))
            index = it.getattr(selfo, "index")
            j = z3.Int("j")
            from vp.cvc import uf
            r2 = QX(j) * QX(j) + QY(j) * QY(j)
            ok_index = isinstance(index, SArr) and index.kind == "bool"
            goal = z3.BoolVal(False)
            if ok_index:
                # |q| is whatever the engine's sqrt of qx^2 + qy^2 is: compare through the squares (|q| >= 0)
                got = index.at(j)
                s = z3.Real("absq")
                want = z3.And(M(j) == 0, s >= qmin, s <= qmax)
                if with_data:
                    want = z3.And(want, z3.Not(DNAN(j)))
                goal = (got, want, s, r2)
            rp = lambda mdl=None: replay_2d()
            if ok_index:
                got, want, s, r2 = goal
                qj = _abs_q_term(got)
                hyp = [j >= 0, j < n]
                if qj is not None:
                    hyp += [s == qj]
                reg.prove("%s._interpret_data.index_is_exactly_mask_limits_and_not_nan.%s" % (prop, tag), pc + hyp,
                          z3.And(got == want, z3.BoolVal(qj is not None and _is_sqrt_of(qj, r2))), function=FN, replay=rp)
            else:
                reg.prove("%s._interpret_data.index_is_exactly_mask_limits_and_not_nan.%s" % (prop, tag), pc,
                          z3.BoolVal(False), function=FN, replay=rp)
            res = it.getattr(selfo, "resolution")
            args, kw = record.get(id(res), ([], {}))
            acc = kw.get("accuracy")
            good = (not args and kw.get("data") is data and kw.get("index") is index and acc == "High"
                    and not is_sym(kw.get("nsigma")) and kw.get("nsigma") == 3.0)
            Iq, dIq = it.getattr(selfo, "Iq"), it.getattr(selfo, "dIq")
            if with_data:
                good = good and all(isinstance(a, SArr) and getattr(a, "sel", None) is not None and a.sel[3] is src
                                    and a.sel[4] is index for a, src in ((Iq, dat), (dIq, err)))
            else:
                good = good and Iq is None and dIq is None
            reg.prove("%s._interpret_data.pinhole2d_gets_the_data_and_this_index.%s" % (prop, tag), pc,
                      z3.BoolVal(bool(good)), function=FN, replay=rp)
        it = Interp(reg)
        try:
            it.run_paths(body)
        except OutsideSubset as exc:
            reg.undecided("%s._interpret_data.engine.%s" % (prop, tag), "outside subset: %s" % exc, function=FN)


def contract_oriented(reg, prop):
    """'Iq-oriented' branch (1-D data of an oriented sample, data.oriented = True, slit widths given): the branch must
    build its resolution object, i.e. the call it makes must bind to the signature of resolution2d.Slit2D (a
    constructor call that cannot bind raises TypeError for every such data set)."""
    import inspect
    import sasmodels.direct_model as live
    from sasmodels import resolution2d
    oid = "%s._interpret_data.oriented_branch_call_binds_to_the_Slit2D_constructor" % prop

    def body(it):
        n = z3.Int("n")
        it.assume(n >= 0)
        mk = lambda nm: it.array_from_fn(lambda j, f=z3.Function(nm, z3.IntSort(), z3.RealSort()): f(j), n, "real", nm)
        y = mk("y")
        y.nan_el = lambda j, f=z3.Function("y_is_nan", z3.IntSort(), z3.BoolSort()): f(j)
        data = it.new_obj(None, {"x": mk("x"), "y": y, "dy": mk("dy"), "dxl": mk("dxl"), "dxw": mk("dxw"), "dx": None,
                                 "oriented": True, "qmin": Sym(z3.Real("qmin")), "qmax": Sym(z3.Real("qmax"))}, "Data1D")
        record = {}

        def slit2d(it_, args, kw):
            o = it_.new_obj(None, {"kind": "Slit2D"}, "Slit2D")
            record[id(o)] = (list(args), dict(kw))
            return o
        it.summaries["sasmodels.resolution2d.Slit2D"] = Summary(slit2d, "resolution2d.Slit2D (recorded)", contract=False)
        selfo = it.new_obj(live.DataMixin, {}, "self")
        f = it.get_func(MOD, "DataMixin._interpret_data")
        it.call(f, [selfo, data, it.new_obj(None, {}, "model")])
        res = it.getattr(selfo, "resolution")
        args, kw = record.get(id(res), (None, None))
        ok, why = False, "no Slit2D was built"
        if args is not None:
            try:
                inspect.signature(resolution2d.Slit2D.__init__).bind(None, *args, **kw)
                ok, why = True, ""
            except TypeError as exc:
                why = "Slit2D(%d positional, %s) does not bind: %s" % (len(args), sorted(kw), exc)
        reg.prove(oid, list(it.pc), z3.BoolVal(ok), function=FN, replay=lambda mdl=None: replay_oriented(),
                  describe="the oriented branch calls Slit2D with arguments its constructor accepts (%s)" % why)
    it = Interp(reg)
    try:
        it.run_paths(body)
    except OutsideSubset as exc:
        reg.undecided(oid + ".engine", "outside subset: %s" % exc, function=FN)


def replay_oriented():
    import numpy as np
    from sasmodels import data as sdata
    from sasmodels.direct_model import DataMixin
    x = np.linspace(0.01, 0.1, 6)
    d = sdata.Data1D(x=x, y=np.ones(6), dy=0.1 * np.ones(6))
    d.dxl, d.dxw, d.oriented = np.full(6, 0.05), np.full(6, 0.002), True
    d.qmin, d.qmax = 0.0, 1.0
    try:
        DataMixin()._interpret_data(d, None)
        return False, {"call": "DataMixin()._interpret_data(Data1D(oriented=True, dxl, dxw), None)", "real": "constructed"}
    except TypeError as exc:
        return True, {"call": "DataMixin()._interpret_data(Data1D(oriented=True, dxl, dxw), None)",
                      "real": "TypeError: %s" % exc, "spec": "a Slit2D resolution object"}


def _abs_q_term(e):
    """The sqrt(...) application inside the index expression (None if there is none or more than one)."""
    found, seen, stack = {}, set(), [e]
    while stack:
        t = stack.pop()
        if t.get_id() in seen:
            continue
        seen.add(t.get_id())
        if z3.is_app(t):
            if t.decl().name().lower().startswith("sqrt") and t.num_args() == 1:
                found[t.get_id()] = t
            stack.extend(t.children())
    return list(found.values())[0] if len(found) == 1 else None


def _is_sqrt_of(term, radicand):
    return z3.is_app(term) and term.num_args() == 1 and z3.simplify(term.arg(0) - radicand).eq(z3.RealVal(0)) \
        or z3.is_app(term) and term.num_args() == 1 and _unsat(term.arg(0) != radicand)


def _unsat(f):
    s = z3.Solver()
    s.set("timeout", 5000)
    s.add(f)
    return s.check() == z3.unsat


def replay_2d():
    import numpy as np
    from sasmodels import data as sdata, resolution2d
    from sasmodels.direct_model import DataMixin
    # includes points with |q| exactly on the limits (0.005 and 0.125 = sqrt(0.075^2 + 0.1^2), both exact in binary
    # up to the rounding of the real code's own sqrt, which the expected index uses too)
    qx = np.array([0.01, 0.02, -0.03, 0.05, 0.0, 0.2, 0.005, 0.075])
    qy = np.array([0.0, 0.02, 0.04, -0.05, 0.001, 0.2, 0.0, 0.1])
    z = np.array([1.0, np.nan, 3.0, 4.0, 5.0, 6.0, 7.0, 8.0])
    d = sdata.Data2D(x=qx, y=qy, z=z.copy(), dx=0.1 * np.abs(qx) + 1e-3, dy=0.1 * np.abs(qy) + 1e-3, dz=0.1 * np.ones(8))
    d.mask = np.array([0, 0, 0, 1, 0, 0, 0, 0])
    d.qmin, d.qmax = 0.005, float(np.sqrt(0.075 ** 2 + 0.1 ** 2))
    m = DataMixin()
    m._interpret_data(d, None)
    q = np.sqrt(qx ** 2 + qy ** 2)
    want = (d.mask == 0) & (q >= d.qmin) & (q <= d.qmax) & ~np.isnan(z)
    ok = np.array_equal(np.asarray(m.index), want) and isinstance(m.resolution, resolution2d.Pinhole2D) \
        and np.array_equal(m.Iq, z[want]) and np.array_equal(m.resolution.qx_data, qx[want])
    return (not ok), {"call": "DataMixin()._interpret_data(Data2D(...), None)", "real": {"index": np.asarray(m.index).tolist()},
                      "spec": {"index": want.tolist()}}


def replay():
    """Real DataMixin._interpret_data on Data1D records."""
    import numpy as np
    from sasmodels import data as sdata, resolution
    from sasmodels.direct_model import DataMixin
    bad, out = False, []
    x = np.array([0.01, 0.015, 0.02, 0.03, 0.05, 0.08, 0.09, 0.1])       # 0.015 and 0.09 are the limits
    y = np.array([5.0, 4.5, np.nan, 3.0, 2.0, 1.0, 0.7, 0.5])
    for label, kw in (
            ("one zero width among positive ones", dict(dx=np.array([0.002, 0.002, 0.002, 0.0, 0.004, 0.005, 0.005, 0.006]))),
            ("only the unselected points have positive width", dict(dx=np.array([0.3, 0.0, 0.3, 0.0, 0.2, 0.0, 0.0, 0.2]))),
            ("all widths zero", dict(dx=np.zeros(8))),
            ("slit length only", dict(dxl=np.full(8, 0.1))),
            ("slit width only", dict(dxw=np.full(8, 0.01))),
            ("no resolution", dict())):
        d = sdata.Data1D(x=x.copy(), y=y.copy(), dy=0.1 * np.ones(8), dx=kw.get("dx"))
        d.dxl, d.dxw = kw.get("dxl"), kw.get("dxw")
        d.qmin, d.qmax = 0.015, 0.09
        d.mask = np.array([0, 0, 0, 0, 1, 0, 0, 0])
        m = DataMixin()
        m._interpret_data(d, None)
        want_index = (x >= 0.015) & (x <= 0.09) & (d.mask == 0) & ~np.isnan(y)
        res = m.resolution
        if "dx" in kw:
            want_cls = resolution.Pinhole1D if (kw["dx"][want_index] > 0).any() else resolution.Perfect1D
        elif "dxl" in kw or "dxw" in kw:
            want_cls = resolution.Slit1D
        else:
            want_cls = resolution.Perfect1D
        ok = (np.array_equal(np.asarray(m.index), want_index) and type(res) is want_cls
              and np.array_equal(m.Iq, y[want_index]) and np.array_equal(np.asarray(res.q).ravel(), x[want_index]))
        if type(res) is resolution.Pinhole1D and ok:
            ok = np.array_equal(np.asarray(res.q_width).ravel(), kw["dx"][want_index])
        bad = bad or not ok
        out.append({"case": label, "index": np.asarray(m.index).tolist(), "want_index": want_index.tolist(),
                    "resolution": type(res).__name__, "want": want_cls.__name__})
    return bad, {"call": "DataMixin()._interpret_data(Data1D(x, y, dy, dx | dxl, dxw; qmin, qmax, mask), None)", "real": out,
                 "spec": "index = limits & mask == 0 & ~isnan(y); Pinhole1D iff some selected dx > 0"}
