"""CLI: python -m vp.main <property> [--tier quick|thorough] [--replay FILE]"""
import argparse
import atexit
import importlib
import json
import os
import shutil
import sys
import tempfile
import traceback

from . import core


def main():
    ap = argparse.ArgumentParser()
    ap.add_argument("prop")
    ap.add_argument("--tier", default=os.environ.get("VERIF_TIER", "quick"),
                    choices=["quick", "thorough"])
    ap.add_argument("--replay", default=None)
    args = ap.parse_args()
    prop = args.prop.upper()
    # scratch DLL cache outside /repo and /verif, removed at exit
    scratch = tempfile.mkdtemp(prefix="sasverif_%s_" % prop)
    atexit.register(shutil.rmtree, scratch, True)
    os.environ["SAS_DLL_PATH"] = os.path.join(scratch, "dll")
    os.environ["VERIF_SCRATCH"] = scratch
    # temporary files of the library under test (make_dll writes its C source with tempfile.mkstemp) and of the
    # scripted builders that are killed half way go to the scratch directory too, so that nothing is left in /tmp
    os.environ["TMPDIR"] = scratch
    tempfile.tempdir = None
    os.environ.setdefault("HOME", scratch)
    if args.replay:
        data = json.load(open(args.replay))
        print(json.dumps(data, indent=1)[:20000])
        mod = importlib.import_module("contracts.%s" % prop.lower())
        if hasattr(mod, "replay_file"):
            sys.exit(mod.replay_file(data))
        sys.exit(1 if data.get("reproduced_on_real_code") in (True, None) else 2)
    reg = core.Registry(prop, args.tier)
    try:
        mod = importlib.import_module("contracts.%s" % prop.lower())
        mod.check(reg, args.tier)
    except core.OutsideSubset as exc:
        traceback.print_exc()
        reg.undecided("%s.engine.subset" % prop, "code left the modelled subset: %s" % exc)
    except Exception as exc:
        traceback.print_exc()
        reg.errors.append("checker crashed: %r" % (exc,))
    code = reg.finish(level=getattr(mod, "LEVEL", "proof") if "mod" in dir() else "proof")
    sys.exit(code)


if __name__ == "__main__":
    main()
