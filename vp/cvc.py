"""
cvc -- verification-condition generator for the generated C kernels.

The translation unit is the text the repository's own generator produces for
a model (`generate.make_source(info)['dll']`, from the current tree), parsed
by clang (`-Xclang -ast-dump=json`); clang does all macro expansion, so the
AST *is* the code the DLL is compiled from.  This module executes function
bodies of that AST over symbolic values (z3 Real for double, Int for
int32_t) in guarded-command style: every statement runs under a z3 path guard
and assignments become ite-updates, so an execution is a single pass with no
path explosion.

Subset (DESIGN.md 2.1): scalar locals, constant arrays, the ParameterBlock
union (one slot array; table.<field> aliases vector[slot(field)]), structs of
doubles, pointer parameters used as out-parameters or arrays, if / ?: /
for / while / do / switch / break / return, calls.  Loops are handled by
(a) complete unrolling when the trip count is a small constant, (b) sidecar
contracts (`loop_contracts`: map-loop summary, invariant + postcondition),
otherwise the function is outside the subset.  Calls: callee with an entry in
`contracts` is replaced by it; functions listed in `uninterpreted` become
uninterpreted z3 functions of their arguments (model functions, libm);
anything else defined in the translation unit is inlined.
"""
from __future__ import annotations

import json
import os
import subprocess
import hashlib
import z3

from .core import OutsideSubset, REPO

R = z3.RealSort()
I = z3.IntSort()

LIBM_UNARY = ["sin", "cos", "tan", "exp", "log", "log10", "sqrt", "cbrt", "fabs", "atan", "asin",
              "acos", "tanh", "sinh", "cosh", "expm1", "log1p", "erf", "erfc", "tgamma", "lgamma",
              "floor", "ceil", "trunc", "round", "log2", "exp2"]
LIBM_BINARY = ["pow", "fmax", "fmin", "atan2", "fmod", "hypot", "copysign"]

UF = {}


def uf(name, nargs, out=R, argsorts=None):
    key = (name, nargs, out.name(), tuple(s.name() for s in (argsorts or [])))
    if key not in UF:
        sorts = list(argsorts) if argsorts else [R] * nargs
        UF[key] = z3.Function(name, *(sorts + [out]))
    return UF[key]


PI = z3.Real("M_PI")


def cfloat(x):
    """Rational value of a decimal constant (literal text or Python float repr)."""
    from fractions import Fraction
    if isinstance(x, float):
        x = repr(x)
    txt = str(x).strip()
    if txt.startswith(".") or txt.startswith("-.") or txt.endswith("."):
        txt = txt.replace("-.", "-0.") if txt.startswith("-.") else txt
        if txt.startswith("."):
            txt = "0" + txt
        if txt.endswith("."):
            txt = txt + "0"
    txt = txt.replace(".e", ".0e").replace(".E", ".0E")
    fr = Fraction(txt)
    return z3.Q(fr.numerator, fr.denominator) if fr.denominator != 1 else z3.RealVal(fr.numerator)


def to_real(e):
    if isinstance(e, (int, float)):
        return z3.RealVal(e)
    if z3.is_int(e):
        return z3.ToReal(e)
    if z3.is_bool(e):
        return z3.If(e, z3.RealVal(1), z3.RealVal(0))
    return e


def to_int(e):
    if isinstance(e, int):
        return z3.IntVal(e)
    if z3.is_bool(e):
        return z3.If(e, z3.IntVal(1), z3.IntVal(0))
    if z3.is_real(e):
        # C truncation toward zero
        return z3.If(e >= 0, z3.ToInt(e), -z3.ToInt(-e))
    return e


def to_bool(e):
    if z3.is_bool(e):
        return e
    return e != 0


def ite(c, a, b):
    if a is b:
        return a
    if isinstance(a, CArr) or isinstance(b, CArr):
        if a.ident == b.ident:
            return a
        raise OutsideSubset("merge of different arrays")
    if z3.is_bool(a) or z3.is_bool(b):
        return z3.If(c, to_bool(a), to_bool(b))
    if z3.is_real(a) or z3.is_real(b):
        return z3.If(c, to_real(a), to_real(b))
    return z3.If(c, a, b)


# --------------------------------------------------------------------------
# memory
# --------------------------------------------------------------------------

class CArr(object):
    """Mutable array object: total function index -> term."""
    _n = [0]

    def __init__(self, get, kind="real", name=None, length=None):
        self.get = get
        self.kind = kind
        self.name = name
        self.length = length
        CArr._n[0] += 1
        self.ident = CArr._n[0]
        self.written = False

    def at(self, i):
        i = z3.IntVal(i) if isinstance(i, int) else i
        log = getattr(self, "read_log", None)
        if log is not None:
            log.append(i)
        return self.get(z3.simplify(i))

    def store(self, i, v, guard=None):
        i = z3.IntVal(i) if isinstance(i, int) else i
        old = self.get
        v = to_real(v) if self.kind == "real" else to_int(v)
        self.written = True
        slog = getattr(self, "store_log", None)
        if slog is not None:
            slog.append(i)
        if guard is None or z3.is_true(guard):
            self.get = lambda j, old=old, i=i, v=v: z3.If(j == i, v, old(j))
        else:
            self.get = lambda j, old=old, i=i, v=v, g=guard: z3.If(z3.And(g, j == i), v, old(j))

    def snapshot(self):
        return self.get

    def restore(self, g):
        self.get = g


class Cell(object):
    """A scalar variable (or struct/array holder)."""

    def __init__(self, value=None, ctype="double", name=None):
        self.value = value
        self.ctype = ctype
        self.name = name


class CStruct(object):
    def __init__(self, fields, name=None):
        self.fields = fields       # name -> Cell | CArr | CStruct | UnionView
        self.name = name


class UnionTable(object):
    """ParameterBlock.table: fields alias slots of the vector array."""

    def __init__(self, vector, slots):
        self.vector = vector
        self.slots = slots         # field -> (slot, length)


class Ptr(object):
    def __init__(self, target, offset=0):
        self.target = target       # Cell | CArr | CStruct
        self.offset = offset       # int or z3 Int (arrays only)


class LV(object):
    """An lvalue: something that can be read and written."""

    def __init__(self, kind, obj, index=None):
        self.kind = kind           # 'cell' | 'elem'
        self.obj = obj
        self.index = index


# --------------------------------------------------------------------------
# translation unit
# --------------------------------------------------------------------------

class TU(object):
    """Clang JSON AST of one generated model source."""

    def __init__(self, source, name="model"):
        self.source = source
        self.name = name
        self.sha = hashlib.sha256(source.encode()).hexdigest()[:16]
        scratch = os.environ.get("VERIF_SCRATCH") or "/tmp"
        path = os.path.join(scratch, "cvc_%s_%d.c" % (name, os.getpid()))
        with open(path, "w") as fd:
            fd.write(source)
        try:
            out = subprocess.run(["clang", "-std=c99", "-fsyntax-only", "-w", "-Xclang",
                                  "-ast-dump=json", path], capture_output=True, text=True)
        finally:
            os.unlink(path)
        if out.returncode != 0 and not out.stdout:
            raise OutsideSubset("clang failed on generated source of %s: %s" % (name, out.stderr[:500]))
        self.ast = json.loads(out.stdout)
        # front-end diagnostics: an ill-formed source still yields a (recovered) AST
        self.errors = [l for l in out.stderr.splitlines() if " error: " in l or " fatal error: " in l]
        self.functions = {}
        self.records = {}          # id -> RecordDecl
        self.typedefs = {}
        self.globals = {}
        self.record_by_typedef = {}
        for n in self.ast.get("inner", []):
            k = n.get("kind")
            if k == "FunctionDecl":
                if any(c.get("kind") == "CompoundStmt" for c in n.get("inner", [])):
                    self.functions[n["name"]] = n
            elif k == "RecordDecl":
                self.records[n["id"]] = n
            elif k == "TypedefDecl":
                self.typedefs[n["name"]] = n
                inner = n.get("inner", [])
                for c in inner:
                    own = c.get("ownedTagDecl") or {}
                    if own.get("id"):
                        self.record_by_typedef[n["name"]] = own["id"]
                    for cc in c.get("inner", []) or []:
                        dd = cc.get("decl") or {}
                        if dd.get("id") in self.records:
                            self.record_by_typedef[n["name"]] = dd["id"]
            elif k == "VarDecl":
                self.globals[n["name"]] = n
        self.lines = source.splitlines()
        self.source_bytes = source.encode("utf-8")

    def record_fields(self, typename):
        typename = typename.replace("const ", "").replace("struct ", "").replace("union ", "").strip()
        rid = self.record_by_typedef.get(typename)
        if rid is None:
            raise OutsideSubset("unknown record type %s" % typename)
        rec = self.records[rid]
        out = []
        for c in rec.get("inner", []):
            if c.get("kind") == "FieldDecl":
                out.append((c["name"], c["type"]["qualType"]))
        return rec.get("tagUsed"), out

    def func_text(self, fn):
        r = fn["range"]
        b = r["begin"].get("line") or fn["loc"].get("line")
        e = r["end"].get("line")
        if b and e:
            return "\n".join(self.lines[b - 1:e])
        return fn["name"]


def array_len(qt):
    if "[" in qt:
        return int(qt[qt.index("[") + 1:qt.index("]")])
    return None


def base_type(qt):
    return qt.split("[")[0].replace("const ", "").replace("volatile ", "").strip()


def is_int_type(qt):
    b = base_type(qt).replace("unsigned ", "").replace("signed ", "")
    return b in ("int", "int32_t", "long", "short", "char", "size_t", "uint32_t", "unsigned",
                 "long long", "__int32_t", "unsigned int") or b.startswith("int") or b == "_Bool"


def is_float_type(qt):
    return base_type(qt) in ("double", "float", "long double")


class _Break(Exception):
    pass


# --------------------------------------------------------------------------
# executor
# --------------------------------------------------------------------------

class State(object):
    def __init__(self):
        self.env = {}              # decl id -> Cell | CArr | CStruct | Ptr
        self.guard = z3.BoolVal(True)
        self.returned = z3.BoolVal(False)
        self.retval = None
        self.broke = []            # stack of z3 Bool (per loop)
        self.continued = []
        self.facts = []            # assumptions gathered (axioms instances)

    def live(self):
        g = z3.And(self.guard, z3.Not(self.returned))
        for b in self.broke[-1:]:
            g = z3.And(g, z3.Not(b))
        for c in self.continued[-1:]:
            g = z3.And(g, z3.Not(c))
        return z3.simplify(g)


class CExec(object):
    def __init__(self, tu, reg=None):
        self.tu = tu
        self.reg = reg
        self.contracts = {}        # function name -> callable(ex, st, args) -> value
        self.uninterpreted = set()  # function names treated as UFs of their arguments
        self.loop_contracts = {}   # (function name, ordinal) -> handler
        self.max_unroll = 16
        self.depth = 0
        self.cur_fn = []
        self.obligations = []      # (name, assumptions, goal)
        self.used_axioms = set()
        self.calls_seen = []

    # -- calling a function of the TU ---------------------------------------
    def call_function(self, name, args, st_outer=None, facts=None):
        """Execute function `name` on argument values; returns (retval, state)."""
        fn = self.tu.functions.get(name)
        if fn is None:
            raise OutsideSubset("function %s not in translation unit" % name)
        st = State()
        if st_outer is not None:
            st.facts = st_outer.facts
        params = [c for c in fn.get("inner", []) if c.get("kind") == "ParmVarDecl"]
        body = [c for c in fn.get("inner", []) if c.get("kind") == "CompoundStmt"][0]
        if len(params) != len(args):
            raise OutsideSubset("arity mismatch calling %s" % name)
        for p, a in zip(params, args):
            qt = p["type"]["qualType"]
            if isinstance(a, (Ptr, CArr, CStruct)):
                st.env[p["id"]] = Cell(a, qt, p.get("name"))
            else:
                st.env[p["id"]] = Cell(to_int(a) if is_int_type(qt) and "*" not in qt else
                                       (to_real(a) if is_float_type(qt) else a), qt, p.get("name"))
        self.depth += 1
        if self.depth > 40:
            raise OutsideSubset("call depth")
        self.cur_fn.append(name)
        self.loop_ordinal = getattr(self, "loop_ordinal_stack", [])
        ord_save = getattr(self, "_ord", 0)
        self._ord = 0
        try:
            self.exec_stmt(body, st)
        finally:
            self.depth -= 1
            self.cur_fn.pop()
            self._ord = ord_save
        return st.retval, st

    # -- statements ---------------------------------------------------------
    def exec_stmt(self, s, st):
        k = s.get("kind")
        if k is None:
            return
        m = getattr(self, "s_" + k, None)
        if m is None:
            raise OutsideSubset("C statement %s in %s" % (k, self.cur_fn[-1] if self.cur_fn else "?"))
        return m(s, st)

    def s_CompoundStmt(self, s, st):
        items = s.get("inner", [])
        i = 0
        hook = getattr(self, "block_hook", None)
        while i < len(items):
            if hook is not None:
                j = hook(self, items, i, st)
                if j is not None:
                    i = j
                    continue
            self.exec_stmt(items[i], st)
            i += 1

    def s_NullStmt(self, s, st):
        pass

    def s_DeclStmt(self, s, st):
        for d in s.get("inner", []):
            if d.get("kind") == "VarDecl":
                self.declare(d, st)
            elif d.get("kind") in ("RecordDecl", "TypedefDecl"):
                pass
            else:
                raise OutsideSubset("declaration %s" % d.get("kind"))

    def declare(self, d, st):
        qt = d["type"]["qualType"]
        init = [c for c in d.get("inner", []) if c.get("kind")]
        name = d.get("name")
        n = array_len(qt)
        if "*" in qt:
            v = self.rvalue(init[0], st) if init else None
            st.env[d["id"]] = Cell(v, qt, name)
            return
        if n is not None:
            kind = "int" if is_int_type(qt) else "real"
            if init and init[0].get("kind") == "InitListExpr":
                items = [self.rvalue(x, st) for x in init[0].get("inner", [])]
                items = [to_int(x) if kind == "int" else to_real(x) for x in items]

                tabf = z3.Function("table!%s" % name, I, I if kind == "int" else R) if len(items) > 16 else None

                def get(j, items=items, kind=kind, tabf=tabf):
                    r = z3.IntVal(0) if kind == "int" else z3.RealVal(0)
                    sj = z3.simplify(j)
                    if z3.is_int_value(sj) and 0 <= sj.as_long() < len(items):
                        return items[sj.as_long()]
                    if tabf is not None:
                        # large constant table (quadrature nodes/weights) at a symbolic index
                        return tabf(j)
                    for k in reversed(range(len(items))):
                        r = z3.If(j == k, items[k], r)
                    return r
                arr = CArr(get, kind, name, n)
                arr.table_items = items
            else:
                f = z3.Function("uninit!%s!%d" % (name, CArr._n[0]), I, I if kind == "int" else R)
                arr = CArr(lambda j, f=f: f(j), kind, name, n)
            st.env[d["id"]] = arr
            return
        if is_int_type(qt) or is_float_type(qt):
            if init:
                v = self.rvalue(init[0], st)
                v = to_int(v) if is_int_type(qt) else to_real(v)
            else:
                v = (z3.Int if is_int_type(qt) else z3.Real)("uninit!%s!%d" % (name, CArr._n[0]))
                CArr._n[0] += 1
            st.env[d["id"]] = Cell(v, qt, name)
            return
        # struct / union locals
        st.env[d["id"]] = self.new_record(base_type(qt), name)

    def new_record(self, typename, name):
        tag, fields = self.tu.record_fields(typename)
        if tag == "union":
            # ParameterBlock: table + vector
            vec = [f for f in fields if "[" in f[1]]
            tab = [f for f in fields if "[" not in f[1]]
            if len(vec) != 1 or len(tab) != 1:
                raise OutsideSubset("union %s" % typename)
            f = z3.Function("uninit!%s!%d" % (name, CArr._n[0]), I, R)
            arr = CArr(lambda j, f=f: f(j), "real", name + "." + vec[0][0], array_len(vec[0][1]))
            _, tfields = self.tu.record_fields(tab[0][1])
            slots, pos = {}, 0
            for fname, fqt in tfields:
                ln = array_len(fqt) or 1
                slots[fname] = (pos, ln)
                pos += ln
            return CStruct({vec[0][0]: arr, tab[0][0]: UnionTable(arr, slots)}, name)
        out = {}
        for fname, fqt in fields:
            n = array_len(fqt)
            if n is not None:
                kind = "int" if is_int_type(fqt) else "real"
                f = z3.Function("uninit!%s.%s!%d" % (name, fname, CArr._n[0]), I, I if kind == "int" else R)
                out[fname] = CArr(lambda j, f=f: f(j), kind, "%s.%s" % (name, fname), n)
            elif is_int_type(fqt) or is_float_type(fqt):
                v = (z3.Int if is_int_type(fqt) else z3.Real)("uninit!%s.%s!%d" % (name, fname, CArr._n[0]))
                CArr._n[0] += 1
                out[fname] = Cell(v, fqt, "%s.%s" % (name, fname))
            else:
                out[fname] = self.new_record(base_type(fqt), "%s.%s" % (name, fname))
        return CStruct(out, name)

    def s_ReturnStmt(self, s, st):
        inner = [c for c in s.get("inner", []) if c.get("kind")]
        g = st.live()
        if inner:
            v = self.rvalue(inner[0], st)
            st.retval = v if st.retval is None else ite(g, v, st.retval)
        st.returned = z3.simplify(z3.Or(st.returned, g))

    def s_BreakStmt(self, s, st):
        if not st.broke:
            raise OutsideSubset("break outside loop")
        st.broke[-1] = z3.simplify(z3.Or(st.broke[-1], st.live()))

    def s_ContinueStmt(self, s, st):
        st.continued[-1] = z3.simplify(z3.Or(st.continued[-1], st.live()))

    def s_IfStmt(self, s, st):
        inner = [c for c in s.get("inner", [])]
        cond = to_bool(self.rvalue(inner[0], st))
        cond = z3.simplify(cond)
        g0 = st.guard
        if not z3.is_false(cond):
            st.guard = z3.simplify(z3.And(g0, cond))
            self.exec_stmt(inner[1], st)
        if len(inner) > 2 and not z3.is_true(cond):
            st.guard = z3.simplify(z3.And(g0, z3.Not(cond)))
            self.exec_stmt(inner[2], st)
        st.guard = g0

    def s_SwitchStmt(self, s, st):
        inner = s.get("inner", [])
        val = to_int(self.rvalue(inner[0], st))
        body = inner[1]
        # collect (labels, statements) groups with fallthrough semantics
        items = body.get("inner", [])
        g0 = st.guard
        st.broke.append(z3.BoolVal(False))
        matched = z3.BoolVal(False)     # some earlier label matched and no break yet
        case_vals = []

        def collect(n):
            if n.get("kind") == "CaseStmt":
                ci = n.get("inner", [])
                case_vals.append(to_int(self.rvalue(ci[0], st)))
                collect(ci[-1])
            elif n.get("kind") == "DefaultStmt":
                collect(n.get("inner", [])[-1])
        for it in items:
            collect(it)

        def run(n, matched):
            k = n.get("kind")
            if k == "CaseStmt":
                ci = n.get("inner", [])
                cv = to_int(self.rvalue(ci[0], st))
                matched = z3.Or(matched, val == cv)
                return run(ci[-1], matched)
            if k == "DefaultStmt":
                dflt = z3.And(*[val != c for c in case_vals]) if case_vals else z3.BoolVal(True)
                matched = z3.Or(matched, dflt)
                return run(n.get("inner", [])[-1], matched)
            st.guard = z3.simplify(z3.And(g0, matched))
            self.exec_stmt(n, st)
            return matched
        for it in items:
            matched = run(it, matched)
        st.broke.pop()
        st.guard = g0

    def s_DoStmt(self, s, st):
        inner = s.get("inner", [])
        body, cond = inner[0], inner[1]
        c = self.try_const(cond, st)
        if c is not None and not c:
            st.broke.append(z3.BoolVal(False))
            st.continued.append(z3.BoolVal(False))
            self.exec_stmt(body, st)
            st.broke.pop()
            st.continued.pop()
            return
        h = self.loop_contracts.get((self.cur_fn[-1] if self.cur_fn else "?", "do*"))
        if h is not None:
            return h(self, s, st, (self.cur_fn[-1] if self.cur_fn else "?", "do"))
        raise OutsideSubset("do-while with a non-constant condition")

    def try_const(self, e, st):
        try:
            v = self.rvalue(e, st)
        except OutsideSubset:
            return None
        v = z3.simplify(v) if not isinstance(v, (int, float)) else v
        if isinstance(v, (int, float)):
            return bool(v)
        if z3.is_int_value(v):
            return v.as_long() != 0
        if z3.is_true(v):
            return True
        if z3.is_false(v):
            return False
        return None

    def next_loop_key(self):
        self._ord = getattr(self, "_ord", 0) + 1
        return (self.cur_fn[-1] if self.cur_fn else "?", self._ord - 1)

    def s_ForStmt(self, s, st):
        key = self.next_loop_key()
        h = self.loop_contracts.get(key) or self.loop_contracts.get((key[0], "for*"))
        inner = s.get("inner", [])
        init, cond, inc, body = inner[0], inner[2], inner[3], inner[4]
        if h is not None:
            return h(self, s, st, key)
        # a loop variable declared in the for-init is local to the loop: its
        # updates need no guard (under a false guard the whole loop is dead code)
        local_var = init.get("kind") == "DeclStmt"
        if init.get("kind"):
            self.exec_stmt(init, st) if init.get("kind") in ("DeclStmt",) else self.rvalue(init, st)
        st.broke.append(z3.BoolVal(False))
        n = 0
        g0 = st.guard
        try:
            while True:
                c = z3.simplify(to_bool(self.rvalue(cond, st))) if cond.get("kind") else z3.BoolVal(True)
                if z3.is_false(c):
                    break
                if not z3.is_true(c):
                    raise OutsideSubset("loop %s has a symbolic trip count and no contract" % (key,))
                n += 1
                if n > self.max_unroll * 64:
                    raise OutsideSubset("loop %s: too many iterations to unroll" % (key,))
                st.continued.append(z3.BoolVal(False))
                self.exec_stmt(body, st)
                st.continued.pop()
                if inc.get("kind"):
                    if local_var:
                        saved = (st.guard, st.returned, list(st.broke), list(st.continued))
                        st.guard, st.returned = z3.BoolVal(True), z3.BoolVal(False)
                        st.broke = [z3.BoolVal(False)] * len(st.broke)
                        st.continued = [z3.BoolVal(False)] * len(st.continued)
                        self.rvalue(inc, st)
                        st.guard, st.returned, st.broke, st.continued = saved
                    else:
                        self.rvalue(inc, st)
        finally:
            st.broke.pop()
            st.guard = g0

    def s_WhileStmt(self, s, st):
        key = self.next_loop_key()
        h = self.loop_contracts.get(key) or self.loop_contracts.get((key[0], "while*"))
        if h is not None:
            return h(self, s, st, key)
        inner = s.get("inner", [])
        cond, body = inner[0], inner[1]
        st.broke.append(z3.BoolVal(False))
        n = 0
        g0 = st.guard
        try:
            while True:
                c = z3.simplify(to_bool(self.rvalue(cond, st)))
                if z3.is_false(c):
                    break
                if not z3.is_true(c):
                    raise OutsideSubset("while loop %s has a symbolic condition and no contract" % (key,))
                n += 1
                if n > 1024:
                    raise OutsideSubset("while loop %s does not terminate" % (key,))
                st.continued.append(z3.BoolVal(False))
                self.exec_stmt(body, st)
                st.continued.pop()
                if not z3.is_false(z3.simplify(st.broke[-1])):
                    if z3.is_true(z3.simplify(st.broke[-1])):
                        break
                    raise OutsideSubset("conditional break in an unrolled loop")
        finally:
            st.broke.pop()
            st.guard = g0

    # expression statements
    def s_BinaryOperator(self, s, st):
        self.rvalue(s, st)

    s_CompoundAssignOperator = s_BinaryOperator
    s_UnaryOperator = s_BinaryOperator
    s_CallExpr = s_BinaryOperator
    s_ParenExpr = s_BinaryOperator
    s_ConditionalOperator = s_BinaryOperator
    s_CStyleCastExpr = s_BinaryOperator
    s_ImplicitCastExpr = s_BinaryOperator

    # -- lvalues -------------------------------------------------------------
    def lvalue(self, e, st):
        k = e.get("kind")
        if k == "ParenExpr":
            return self.lvalue(e["inner"][0], st)
        if k == "DeclRefExpr":
            did = e["referencedDecl"]["id"]
            if did in st.env:
                obj = st.env[did]
            elif e["referencedDecl"]["name"] in self.tu.globals:
                obj = self.global_var(e["referencedDecl"]["name"], st)
            else:
                raise OutsideSubset("unknown variable %s" % e["referencedDecl"].get("name"))
            return obj
        if k == "MemberExpr":
            base = e["inner"][0]
            if e.get("isArrow"):
                p = self.rvalue(base, st)
                if not isinstance(p, Ptr):
                    raise OutsideSubset("-> on a non-pointer")
                obj = p.target
            else:
                obj = self.lvalue(base, st)
            if isinstance(obj, Cell) and isinstance(obj.value, (CStruct, UnionTable)):
                obj = obj.value
            name = e["name"]
            if isinstance(obj, CStruct):
                return obj.fields[name]
            if isinstance(obj, UnionTable):
                slot, ln = obj.slots[name]
                if "[" in e["type"]["qualType"]:
                    return ("subarray", obj.vector, slot)
                return LV("elem", obj.vector, z3.IntVal(slot))
            raise OutsideSubset("member access on %r" % (obj,))
        if k == "ArraySubscriptExpr":
            base, idx = e["inner"][0], e["inner"][1]
            b = self.rvalue(base, st)
            i = to_int(self.rvalue(idx, st))
            if isinstance(b, Ptr) and isinstance(b.target, CArr):
                off = b.offset if not isinstance(b.offset, int) else z3.IntVal(b.offset)
                return LV("elem", b.target, z3.simplify(off + i))
            if isinstance(b, CArr):
                return LV("elem", b, i)
            raise OutsideSubset("subscript on %r" % (b,))
        if k == "UnaryOperator" and e.get("opcode") == "*":
            p = self.rvalue(e["inner"][0], st)
            if isinstance(p, Ptr):
                if isinstance(p.target, CArr):
                    off = p.offset if not isinstance(p.offset, int) else z3.IntVal(p.offset)
                    return LV("elem", p.target, off)
                return p.target
            raise OutsideSubset("deref of %r" % (p,))
        if k == "ImplicitCastExpr":
            return self.lvalue(e["inner"][0], st)
        raise OutsideSubset("lvalue %s" % k)

    def global_var(self, name, st):
        cache = self.__dict__.setdefault("_globals", {})
        if name in cache:
            return cache[name]
        d = self.tu.globals[name]
        tmp = State()
        self.declare(d, tmp)
        cache[name] = tmp.env[d["id"]]
        return cache[name]

    def read(self, lv):
        if isinstance(lv, LV):
            return lv.obj.at(lv.index)
        if isinstance(lv, Cell):
            return lv.value
        if isinstance(lv, CArr):
            return Ptr(lv, 0)
        if isinstance(lv, tuple) and lv[0] == "subarray":
            return Ptr(lv[1], lv[2])
        if isinstance(lv, (CStruct, UnionTable)):
            return lv
        raise OutsideSubset("read of %r" % (lv,))

    def write(self, lv, v, st):
        g = st.live()
        if isinstance(lv, LV):
            lv.obj.store(lv.index, v, g)
            return
        if isinstance(lv, Cell):
            qt = lv.ctype
            if "*" in qt or isinstance(v, (Ptr, CArr, CStruct)):
                lv.value = v
                return
            v = to_int(v) if is_int_type(qt) else to_real(v)
            lv.value = v if (lv.value is None or z3.is_true(g)) else ite(g, v, lv.value)
            return
        raise OutsideSubset("write to %r" % (lv,))

    # -- rvalues --------------------------------------------------------------
    def rvalue(self, e, st):
        k = e.get("kind")
        m = getattr(self, "r_" + k, None)
        if m is None:
            raise OutsideSubset("C expression %s" % k)
        return m(e, st)

    def r_ParenExpr(self, e, st):
        return self.rvalue(e["inner"][0], st)

    def r_ConstantExpr(self, e, st):
        return self.rvalue(e["inner"][0], st)

    def r_IntegerLiteral(self, e, st):
        return z3.IntVal(int(e["value"]))

    def r_FloatingLiteral(self, e, st):
        # the literal's decimal text in the source (the intended constant); doubles
        # are reals, so 1e-2*1e-2 == 1e-4 holds exactly
        txt = None
        b = e.get("range", {}).get("begin", {})
        if "spellingLoc" in b:          # literal produced by a macro expansion
            b = b["spellingLoc"]
        off, ln = b.get("offset"), b.get("tokLen")
        if off is not None and ln:
            txt = self.tu.source_bytes[off:off + ln].decode("ascii", "ignore").rstrip("fFlL")
        try:
            return cfloat(txt if txt else e.get("value", "0"))
        except Exception:
            return cfloat(e.get("value", "0"))

    def r_CharacterLiteral(self, e, st):
        return z3.IntVal(int(e["value"]))

    def r_ImplicitCastExpr(self, e, st):
        ck = e.get("castKind")
        inner = e["inner"][0]
        if ck == "LValueToRValue":
            return self.read(self.lvalue(inner, st))
        if ck in ("ArrayToPointerDecay",):
            lv = self.lvalue(inner, st)
            return self.read(lv) if not isinstance(lv, CArr) else Ptr(lv, 0)
        if ck == "FunctionToPointerDecay":
            return ("function", inner["referencedDecl"]["name"])
        v = self.rvalue(inner, st)
        return self.cast(v, e["type"]["qualType"], ck)

    def r_CStyleCastExpr(self, e, st):
        v = self.rvalue(e["inner"][0], st)
        return self.cast(v, e["type"]["qualType"], e.get("castKind"))

    def cast(self, v, qt, ck):
        if isinstance(v, (Ptr, CArr, CStruct, tuple)):
            return v
        if ck in ("IntegralToFloating",) or (is_float_type(qt) and "*" not in qt):
            return to_real(v)
        if ck in ("FloatingToIntegral",):
            return to_int(v)
        if ck in ("IntegralCast", "NoOp", "FloatingCast", "BitCast", "NullToPointer"):
            if is_int_type(qt) and "*" not in qt:
                return to_int(v)
            return v
        if ck in ("IntegralToBoolean", "FloatingToBoolean"):
            return to_bool(v)
        if ck == "ToVoid":
            return v
        if is_int_type(qt) and "*" not in qt:
            return to_int(v)
        return v

    def r_DeclRefExpr(self, e, st):
        # reached for enum constants / functions
        rd = e["referencedDecl"]
        if rd.get("kind") == "FunctionDecl":
            return ("function", rd["name"])
        if rd.get("kind") == "EnumConstantDecl":
            raise OutsideSubset("enum constant")
        return self.read(self.lvalue(e, st))

    def r_MemberExpr(self, e, st):
        return self.read(self.lvalue(e, st))

    def r_ArraySubscriptExpr(self, e, st):
        return self.read(self.lvalue(e, st))

    def r_UnaryOperator(self, e, st):
        op = e["opcode"]
        sub = e["inner"][0]
        if op == "&":
            lv = self.lvalue(sub, st)
            if isinstance(lv, LV):
                return Ptr(lv.obj, lv.index)
            if isinstance(lv, (Cell, CStruct)):
                return Ptr(lv, 0)
            if isinstance(lv, CArr):
                return Ptr(lv, 0)
            raise OutsideSubset("address of %r" % (lv,))
        if op == "*":
            return self.read(self.lvalue(e, st))
        if op in ("++", "--"):
            lv = self.lvalue(sub, st)
            old = self.read(lv)
            new = old + 1 if op == "++" else old - 1
            self.write(lv, new, st)
            return old if e.get("isPostfix") else new
        v = self.rvalue(sub, st)
        if op == "-":
            return -v
        if op == "+":
            return v
        if op == "!":
            return z3.Not(to_bool(v))
        raise OutsideSubset("unary %s" % op)

    def r_ConditionalOperator(self, e, st):
        c, a, b = e["inner"]
        cv = z3.simplify(to_bool(self.rvalue(c, st)))
        if z3.is_true(cv):
            return self.rvalue(a, st)
        if z3.is_false(cv):
            return self.rvalue(b, st)
        g0 = st.guard
        st.guard = z3.simplify(z3.And(g0, cv))
        av = self.rvalue(a, st)
        st.guard = z3.simplify(z3.And(g0, z3.Not(cv)))
        bv = self.rvalue(b, st)
        st.guard = g0
        return ite(cv, av, bv)

    def r_BinaryOperator(self, e, st):
        op = e["opcode"]
        l, r = e["inner"]
        if op == "=":
            v = self.rvalue(r, st)
            lv = self.lvalue(l, st)
            self.write(lv, v, st)
            return v
        if op == ",":
            self.rvalue(l, st)
            return self.rvalue(r, st)
        if op == "&&":
            a = z3.simplify(to_bool(self.rvalue(l, st)))
            if z3.is_false(a):
                return a
            g0 = st.guard
            st.guard = z3.simplify(z3.And(g0, a))
            b = to_bool(self.rvalue(r, st))
            st.guard = g0
            return z3.And(a, b)
        if op == "||":
            a = z3.simplify(to_bool(self.rvalue(l, st)))
            if z3.is_true(a):
                return a
            g0 = st.guard
            st.guard = z3.simplify(z3.And(g0, z3.Not(a)))
            b = to_bool(self.rvalue(r, st))
            st.guard = g0
            return z3.Or(a, b)
        a = self.rvalue(l, st)
        b = self.rvalue(r, st)
        safety = getattr(self, "safety", None)
        if safety is not None and op == "/" and not (isinstance(a, Ptr) or isinstance(b, Ptr)) \
                and is_float_type(e["type"]["qualType"]):
            # opt-in: record 'divisor non-zero' under the guards of this program point
            line = (e.get("range", {}).get("begin", {}).get("spellingLoc", e.get("range", {}).get("begin", {}))).get("line")
            safety.append(("divisor_non_zero", list(st.facts) + [st.live()], to_real(b) != 0, line))
        return self.binop(op, a, b, e["type"]["qualType"])

    def r_CompoundAssignOperator(self, e, st):
        op = e["opcode"][:-1]
        l, r = e["inner"]
        lv = self.lvalue(l, st)
        cur = self.read(lv)
        v = self.binop(op, cur, self.rvalue(r, st), e.get("computeResultType", e["type"])["qualType"])
        self.write(lv, v, st)
        return v

    def binop(self, op, a, b, qt):
        if isinstance(a, Ptr) or isinstance(b, Ptr):
            p, k = (a, b) if isinstance(a, Ptr) else (b, a)
            if op in ("+", "-") and isinstance(p.target, CArr):
                k = to_int(k)
                off = p.offset if not isinstance(p.offset, int) else z3.IntVal(p.offset)
                return Ptr(p.target, z3.simplify(off + k if op == "+" else off - k))
            raise OutsideSubset("pointer arithmetic")
        if op in ("<", ">", "<=", ">=", "==", "!="):
            if z3.is_bool(a) or z3.is_bool(b):
                a, b = to_int(a), to_int(b)
            if z3.is_real(a) or z3.is_real(b):
                a, b = to_real(a), to_real(b)
            return {"<": a < b, ">": a > b, "<=": a <= b, ">=": a >= b, "==": a == b, "!=": a != b}[op]
        isint = is_int_type(qt) and z3.is_int(to_int(a) if z3.is_bool(a) else a) \
            and z3.is_int(to_int(b) if z3.is_bool(b) else b)
        if isint:
            a, b = to_int(a), to_int(b)
            if op == "+":
                return a + b
            if op == "-":
                return a - b
            if op == "*":
                return a * b
            if op == "/":
                # C division truncates toward zero
                q = z3.If(b > 0, z3.If(a >= 0, a / b, -((-a) / b)),
                          z3.If(a >= 0, -(a / (-b)), (-a) / (-b)))
                return q
            if op == "%":
                q = z3.If(b > 0, z3.If(a >= 0, a / b, -((-a) / b)),
                          z3.If(a >= 0, -(a / (-b)), (-a) / (-b)))
                return a - q * b
            raise OutsideSubset("integer operator %s" % op)
        a, b = to_real(a), to_real(b)
        if op == "+":
            return a + b
        if op == "-":
            return a - b
        if op == "*":
            return a * b
        if op == "/":
            return a / b
        raise OutsideSubset("operator %s" % op)

    def r_InitListExpr(self, e, st):
        raise OutsideSubset("initializer list in expression")

    # -- calls -----------------------------------------------------------------
    def callee_name(self, e, st):
        f = e["inner"][0]
        while f.get("kind") in ("ImplicitCastExpr", "ParenExpr"):
            f = f["inner"][0]
        if f.get("kind") == "DeclRefExpr":
            return f["referencedDecl"]["name"]
        raise OutsideSubset("indirect call")

    def r_CallExpr(self, e, st):
        name = self.callee_name(e, st)
        args = [self.rvalue(a, st) for a in e["inner"][1:]]
        return self.call(name, args, st)

    def call(self, name, args, st):
        if name.startswith("__tg_"):
            name = name[5:]
        if name.startswith("__builtin_"):
            name = name[10:]
        h = self.contracts.get(name)
        if h is not None:
            return h(self, st, args)
        if name in self.uninterpreted:
            return self.call_uninterpreted(name, args, st)
        if name in self.tu.functions:
            # inline under the caller's guard
            fn = self.tu.functions[name]
            params = [c for c in fn.get("inner", []) if c.get("kind") == "ParmVarDecl"]
            body = [c for c in fn.get("inner", []) if c.get("kind") == "CompoundStmt"][0]
            sub = State()
            sub.guard = st.live()
            sub.facts = st.facts
            for p, a in zip(params, args):
                qt = p["type"]["qualType"]
                if isinstance(a, (Ptr, CArr, CStruct, tuple)) or "*" in qt:
                    sub.env[p["id"]] = Cell(a, qt, p.get("name"))
                else:
                    sub.env[p["id"]] = Cell(to_int(a) if is_int_type(qt) else to_real(a), qt, p.get("name"))
            self.depth += 1
            if self.depth > 40:
                raise OutsideSubset("call depth (recursion?) at %s" % name)
            self.cur_fn.append(name)
            ord_save = getattr(self, "_ord", 0)
            self._ord = 0
            try:
                self.exec_stmt(body, sub)
            finally:
                self.depth -= 1
                self.cur_fn.pop()
                self._ord = ord_save
            return sub.retval
        return self.call_libm(name, args, st)

    def call_libm(self, name, args, st):
        base = name[:-1] if name.endswith(("f", "l")) and name[:-1] in LIBM_UNARY + LIBM_BINARY else name
        if base == "fabs":
            a = to_real(args[0])
            return z3.If(a >= 0, a, -a)
        if base == "fmax":
            a, b = to_real(args[0]), to_real(args[1])
            return z3.If(a >= b, a, b)
        if base == "fmin":
            a, b = to_real(args[0]), to_real(args[1])
            return z3.If(a <= b, a, b)
        if base in LIBM_UNARY:
            self.used_axioms.add(base)
            return uf(base, 1)(to_real(args[0]))
        if base in LIBM_BINARY:
            self.used_axioms.add(base)
            return uf(base, 2)(to_real(args[0]), to_real(args[1]))
        if base in ("isnan", "isinf", "__isnan", "__isinf", "isfinite"):
            return z3.BoolVal(base == "isfinite")
        if base in ("printf", "fprintf", "assert", "abort"):
            return z3.IntVal(0)
        raise OutsideSubset("call of %s: no body, contract or libm model" % name)

    def call_uninterpreted(self, name, args, st):
        """name(args...) as an uninterpreted function of its inputs: scalars,
        and for read-only vector arguments the elements [0, declared length);
        pointers to scalar cells are outputs (name.out<k>)."""
        ins, outs = [], []
        self.calls_seen.append((name, args))
        vl = getattr(self, "vector_lengths", {})
        for pos, a in enumerate(args):
            if isinstance(a, Ptr):
                if isinstance(a.target, Cell):
                    outs.append(a.target)
                elif isinstance(a.target, CArr):
                    ln = vl.get((name, pos))
                    if ln is None:
                        raise OutsideSubset("vector argument %d of uninterpreted %s needs a declared length"
                                            % (pos, name))
                    off = a.offset if not isinstance(a.offset, int) else z3.IntVal(a.offset)
                    for j in range(ln):
                        ins.append(to_real(a.target.at(z3.simplify(off + j))))
                else:
                    raise OutsideSubset("struct passed to uninterpreted %s" % name)
            else:
                ins.append(to_real(a))
        if outs:
            for k, cell in enumerate(outs):
                f = uf("%s.out%d" % (name, k), len(ins))
                self.write(cell, f(*ins) if ins else z3.Real("%s.out%d" % (name, k)), st)
            fr = uf("%s.ret" % name, len(ins))
            return fr(*ins) if ins else z3.Real(name + ".ret")
        f = uf(name, len(ins))
        return f(*ins) if ins else z3.Real(name + "()")


# --------------------------------------------------------------------------
# helpers for harnesses
# --------------------------------------------------------------------------

_tu_cache = {}


def model_tu(model_name, info=None):
    """TU of a builtin model generated by the repository's own generator."""
    key = model_name
    if key in _tu_cache:
        return _tu_cache[key]
    from sasmodels import core, generate
    info = info or core.load_model_info(model_name)
    src = generate.make_source(info)["dll"]
    tu = TU(src, model_name.replace("@", "_").replace("+", "_"))
    tu.info = info
    _tu_cache[key] = tu
    return tu


def sincos_axioms(terms):
    """sin^2 + cos^2 = 1 for each argument term."""
    s, c = uf("sin", 1), uf("cos", 1)
    return [s(t) * s(t) + c(t) * c(t) == 1 for t in terms]


# --------------------------------------------------------------------------
# loop rules and block contracts
# --------------------------------------------------------------------------

def _walk(n):
    if not isinstance(n, dict):
        return
    yield n
    for c in n.get("inner", []) or []:
        for x in _walk(c):
            yield x


def base_decl(e):
    """Declaration id at the root of an lvalue expression (None if not found)."""
    while isinstance(e, dict) and e.get("kind"):
        k = e["kind"]
        if k == "DeclRefExpr":
            return e["referencedDecl"]["id"]
        if k in ("MemberExpr", "ArraySubscriptExpr", "ImplicitCastExpr", "ParenExpr",
                 "CStyleCastExpr") or (k == "UnaryOperator" and e.get("opcode") in ("*", "&")):
            e = e["inner"][0]
            continue
        return None
    return None


# pointer arguments that the callee only reads (from the callee's contract)
READONLY_PTR_ARGS = {"qac_apply": (0,), "qabc_apply": (0,)}


def modified_decls(node):
    """Ids of declarations assigned (or passed by address / as array) inside
    `node`, minus those declared inside it."""
    mods, declared = set(), set()
    for n in _walk(node):
        k = n.get("kind")
        if k == "VarDecl":
            declared.add(n["id"])
        elif k in ("BinaryOperator", "CompoundAssignOperator") and \
                (n.get("opcode") == "=" or k == "CompoundAssignOperator"):
            d = base_decl(n["inner"][0])
            if d:
                mods.add(d)
        elif k == "UnaryOperator" and n.get("opcode") in ("++", "--"):
            d = base_decl(n["inner"][0])
            if d:
                mods.add(d)
        elif k == "CallExpr":
            callee = n["inner"][0]
            while callee.get("kind") in ("ImplicitCastExpr", "ParenExpr"):
                callee = callee["inner"][0]
            cname = (callee.get("referencedDecl") or {}).get("name")
            ro = READONLY_PTR_ARGS.get(cname, ())
            for ai, a in enumerate(n["inner"][1:]):
                if ai in ro:
                    continue
                x = a
                while x.get("kind") in ("ImplicitCastExpr", "ParenExpr"):
                    x = x["inner"][0]
                if x.get("kind") == "UnaryOperator" and x.get("opcode") == "&":
                    d = base_decl(x["inner"][0])
                    if d:
                        mods.add(d)
    return mods - declared


class Snapshot(object):
    def __init__(self, st):
        self.cells, self.arrs = [], []
        seen = set()

        def visit(o):
            if id(o) in seen:
                return
            seen.add(id(o))
            if isinstance(o, Cell):
                self.cells.append((o, o.value))
                if isinstance(o.value, (CStruct, UnionTable, CArr)):
                    visit(o.value)
                elif isinstance(o.value, Ptr):
                    visit(o.value.target)
            elif isinstance(o, CArr):
                self.arrs.append((o, o.get, o.written))
            elif isinstance(o, CStruct):
                for f in o.fields.values():
                    visit(f)
            elif isinstance(o, UnionTable):
                visit(o.vector)
            elif isinstance(o, Ptr):
                visit(o.target)
        for v in st.env.values():
            visit(v)
        self.env_keys = set(st.env.keys())
        self.guard, self.returned, self.retval = st.guard, st.returned, st.retval
        self.broke, self.continued = list(st.broke), list(st.continued)
        self.nfacts = len(st.facts)

    def restore(self, st, keep_facts=False):
        for c, v in self.cells:
            c.value = v
        for a, g, w in self.arrs:
            a.get, a.written = g, w
        for k in list(st.env.keys()):
            if k not in self.env_keys:
                del st.env[k]
        st.guard, st.returned, st.retval = self.guard, self.returned, self.retval
        st.broke, st.continued = list(self.broke), list(self.continued)
        if not keep_facts:
            del st.facts[self.nfacts:]


_hv = [0]


def havoc_obj(o, tag):
    _hv[0] += 1
    if isinstance(o, Cell):
        if isinstance(o.value, (CStruct, UnionTable, CArr)):
            havoc_obj(o.value, tag)
        elif isinstance(o.value, Ptr) or "*" in (o.ctype or ""):
            pass
        else:
            mk = z3.Int if is_int_type(o.ctype or "double") else z3.Real
            o.value = mk("%s!%s!%d" % (o.name or "v", tag, _hv[0]))
    elif isinstance(o, CArr):
        f = z3.Function("%s!%s!%d" % (o.name or "arr", tag, _hv[0]), I, I if o.kind == "int" else R)
        o.get = (lambda j, f=f: f(j))
        o.havoc_fn = f
    elif isinstance(o, CStruct):
        for f in o.fields.values():
            havoc_obj(f, tag)
    elif isinstance(o, UnionTable):
        havoc_obj(o.vector, tag)


def _cexec_var(self, st, name, which=0):
    """Cell/array of the variable called `name` (outermost declaration first)."""
    hits = [v for v in st.env.values() if getattr(v, "name", None) == name]
    if not hits:
        raise OutsideSubset("kernel has no variable %s" % name)
    return hits[min(which, len(hits) - 1)]


def _cexec_val(self, st, name):
    v = self.var(st, name)
    return v.value if isinstance(v, Cell) else v


def _cexec_oblige(self, name, st, goal, extra=()):
    self.obligations.append((name, list(st.facts) + list(extra) + [st.live()], goal))


CExec.var = _cexec_var
CExec.val = _cexec_val
CExec.oblige = _cexec_oblige


def resolve_mods(st, node):
    """Objects modified inside `node`: pointer parameters stand for their targets."""
    out = []
    for d in modified_decls(node):
        if d not in st.env:
            continue
        o = st.env[d]
        if isinstance(o, Cell) and isinstance(o.value, Ptr):
            o = o.value.target
        if o not in out:
            out.append(o)
    return out


class WhileContract(object):
    """Invariant/postcondition rule for `while (c) body` with `break`:
         initially:  pre  ==> inv
         preserved:  inv /\\ c  {body}  (not broke ==> inv) /\\ (broke ==> post)
         exit:       inv /\\ not c ==> post
       afterwards the modified variables are havoced and `post` is assumed."""

    def __init__(self, name, inv, post):
        self.name, self.inv, self.post = name, inv, post

    def __call__(self, ex, s, st, key):
        cond, body = s["inner"][0], s["inner"][1]
        mods = resolve_mods(st, s)
        ex.oblige(self.name + ".inv.initially", st, self.inv(ex, st))
        snap = Snapshot(st)
        # arbitrary iteration
        for o in mods:
            havoc_obj(o, "it")
        st.facts.append(z3.Implies(st.live(), self.inv(ex, st)))
        after_havoc = Snapshot(st)
        c = to_bool(ex.rvalue(cond, st))
        # exit case
        ex.oblige(self.name + ".exit_establishes_post", st, self.post(ex, st), extra=[z3.Not(c)])
        # body case
        g0 = st.guard
        st.guard = z3.simplify(z3.And(g0, c))
        st.broke.append(z3.BoolVal(False))
        st.continued.append(z3.BoolVal(False))
        ex.exec_stmt(body, st)
        st.continued.pop()
        broke = st.broke.pop()
        live_end = st.live()
        ex.obligations.append((self.name + ".inv.preserved",
                               list(st.facts) + [live_end, z3.Not(broke)], self.inv(ex, st)))
        ex.obligations.append((self.name + ".break_establishes_post",
                               list(st.facts) + [st.guard, z3.Not(st.returned), broke],
                               self.post(ex, st)))
        # after the loop
        snap.restore(st)
        for o in mods:
            havoc_obj(o, "after")
        st.facts.append(z3.Implies(st.live(), self.post(ex, st)))


class HavocLoop(object):
    """Trivial loop contract (invariant True): everything the loop statement may modify is arbitrary afterwards,
    everything else is unchanged.  Sound for partial correctness; enough where the claim does not depend on what the
    loop computes (e.g. F2 = F1^2 after a shell loop of symbolic length).  Loops containing a return are refused."""

    def __call__(self, ex, s, st, key):
        if any(n.get("kind") == "ReturnStmt" for n in _walk(s)):
            raise OutsideSubset("loop %s with a return statement has no contract" % (key,))
        inner = s.get("inner", [])
        if s.get("kind") == "ForStmt" and inner and inner[0].get("kind"):
            init = inner[0]
            if init.get("kind") == "DeclStmt":
                ex.exec_stmt(init, st)
            else:
                ex.rvalue(init, st)
        for o in resolve_mods(st, s):
            havoc_obj(o, "havoc")
        ex.__dict__.setdefault("havoc_loops_used", []).append(key)


class MapLoop(object):
    """`for (x = 0; x < n; x++) body` where iteration x writes array A only at
    indices [c*x, c*x+c) and nothing an iteration reads was written by another
    iteration: A_after[j] = body_x(A_before)[j] with x = j div c (0 <= x < n)."""

    def __init__(self, name, arrays, stride_of):
        self.name, self.arrays, self.stride_of = name, arrays, stride_of

    def __call__(self, ex, s, st, key):
        init, cond, inc, body = s["inner"][0], s["inner"][2], s["inner"][3], s["inner"][4]
        # loop variable and bound
        if init.get("kind") == "DeclStmt":
            ex.exec_stmt(init, st)
            var = st.env[init["inner"][0]["id"]]
        else:
            ex.rvalue(init, st)
            var = st.env[base_decl(init["inner"][0])]
        lo = var.value
        K = z3.Int("k!%s!%d" % (self.name.replace(" ", "_"), _hv[0]))
        _hv[0] += 1
        var.value = K
        c = z3.simplify(to_bool(ex.rvalue(cond, st)))
        # bound n from the condition K < n
        n = None
        if z3.is_app(c) and c.decl().kind() == z3.Z3_OP_LT and z3.eq(c.arg(0), K):
            n = c.arg(1)
        elif z3.is_not(c) and c.arg(0).decl().kind() == z3.Z3_OP_LE and z3.eq(c.arg(0).arg(1), K):
            n = c.arg(0).arg(0)
        elif z3.is_not(c) and c.arg(0).decl().kind() == z3.Z3_OP_GE and z3.eq(c.arg(0).arg(0), K):
            n = c.arg(0).arg(1)
        if n is None or not z3.is_int_value(z3.simplify(lo)) or z3.simplify(lo).as_long() != 0:
            raise OutsideSubset("map loop %s: not of the form for (x=0; x<n; x++)" % self.name)
        mods = resolve_mods(st, body)
        all_arrays = [a for a in mods if isinstance(a, CArr)]
        for m_ in mods:
            if isinstance(m_, CStruct):
                for f_ in m_.fields.values():
                    if isinstance(f_, CArr) and f_ not in all_arrays:
                        all_arrays.append(f_)
        arrays = [a for a in all_arrays if a in self.arrays]
        scratch = [a for a in all_arrays if a not in self.arrays]
        scalars = [m for m in mods if not isinstance(m, (CArr,)) and m is not var
                   and not (isinstance(m, CStruct) and any(isinstance(f_, CArr) for f_ in m.fields.values()))]
        snap = Snapshot(st)
        # scratch arrays (written at constant slots, e.g. the magnetic SLD slots of the
        # parameter vector): discover the slots in a dry run, then treat them as
        # iteration-local scalars (havoc before the iteration and after the loop)
        scratch_slots = {}
        if scratch:
            for a in scratch:
                a.store_log = []
            g_dry = st.guard
            st.guard = z3.simplify(z3.And(g_dry, K >= 0, K < n))
            st.broke.append(z3.BoolVal(False))
            st.continued.append(z3.BoolVal(False))
            ex.exec_stmt(body, st)
            for a in scratch:
                idxs = []
                for i_ in a.store_log:
                    si = z3.simplify(i_)
                    if not z3.is_int_value(si):
                        raise OutsideSubset("map loop writes scratch array %s at a symbolic index" % a.name)
                    if si.as_long() not in idxs:
                        idxs.append(si.as_long())
                scratch_slots[id(a)] = idxs
                a.store_log = None
            snap.restore(st)
            var.value = K

        def havoc_scratch(tagname):
            for a in scratch:
                for slot in scratch_slots.get(id(a), []):
                    _hv[0] += 1
                    a.store(z3.IntVal(slot), z3.Real("%s!%s!%d!%d" % (a.name, tagname, slot, _hv[0])))
        havoc_scratch("iter")
        snap = Snapshot(st)
        before = {id(a): a.get for a in arrays}
        # scalars written by an iteration must not carry values between iterations
        marks = []
        for o in scalars:
            havoc_obj(o, "maploop")
        g0 = st.guard
        st.guard = z3.simplify(z3.And(g0, K >= 0, K < n))
        st.broke.append(z3.BoolVal(False))
        st.continued.append(z3.BoolVal(False))
        for a in arrays:
            a.read_log = []
        ex.exec_stmt(body, st)
        st.continued.pop()
        broke = st.broke.pop()
        if not z3.is_false(z3.simplify(broke)):
            raise OutsideSubset("break inside a map loop")
        after = {id(a): a.get for a in arrays}
        for a in arrays:
            cst = self.stride_of(a, n)
            for idx in a.read_log:
                # an iteration reads a written array only inside its own window
                ex.obligations.append((self.name + ".reads_own_window.%s" % (a.name,),
                                       list(st.facts) + [K >= 0, K < n],
                                       z3.And(idx >= cst * K, idx < cst * K + cst)))
            a.read_log = None
        snap.restore(st, keep_facts=True)
        j = z3.Int("j!maploop")
        for a in arrays:
            cst = self.stride_of(a, n)
            gb, ga = before[id(a)], after[id(a)]
            # footprint: iteration K changes A only inside [c*K, c*K+c)
            ex.obligations.append((self.name + ".footprint.%s" % (a.name,),
                                   list(st.facts) + [K >= 0, K < n, z3.Or(j < cst * K, j >= cst * K + cst)],
                                   ga(j) == gb(j)))

            def newget(jj, ga=ga, gb=gb, cst=cst, K=K, n=n, g=st.live()):
                kk = jj / cst if cst != 1 else jj
                val = z3.substitute(ga(jj), (K, kk))
                return z3.If(z3.And(g, jj >= 0, kk < n), val, gb(jj))
            a.get = newget
            a.written = True
        for o in scalars:
            havoc_obj(o, "aftermap")
        havoc_scratch("aftermap")
        var.value = z3.Int("x!after!%d" % _hv[0])
        _hv[0] += 1


# --------------------------------------------------------------------------
# Sigma summaries of reduction loops (quadrature loops of the model functions)
# --------------------------------------------------------------------------

class SigmaDef(object):
    def __init__(self, fn, index, bound, summand, params):
        self.fn, self.index, self.bound, self.summand, self.params = fn, index, bound, summand, params


class SigmaLoop(object):
    """`for (i = lo; i < N; i++) body` where every variable that survives the
    loop is an accumulator  acc = acc + e(i)  (or acc += ...): the loop is
    summarised as  acc_after = acc_before + Sigma_id(free symbols), with
    Sigma_id(...) standing for  sum_{i=lo}^{N-1} e(i).  Variables assigned in
    the body that are not accumulators are loop-local temporaries (havoced
    afterwards).  The definitions are kept in ex.sigma_defs so that two
    Sigma-expressions can be compared by unfolding (sum_lin, sum_ext)."""

    def __call__(self, ex, s, st, key):
        init, cond, inc, body = s["inner"][0], s["inner"][2], s["inner"][3], s["inner"][4]
        if init.get("kind") == "DeclStmt":
            ex.exec_stmt(init, st)
            var = st.env[init["inner"][0]["id"]]
        elif init.get("kind"):
            ex.rvalue(init, st)
            var = st.env[base_decl(init["inner"][0])]
        else:
            raise OutsideSubset("reduction loop without initialiser")
        lo = z3.simplify(var.value)
        _hv[0] += 1
        K = z3.Int("i!sigma!%d" % _hv[0])
        var.value = K
        c = z3.simplify(to_bool(ex.rvalue(cond, st)))
        n = None
        if z3.is_app(c) and c.decl().kind() == z3.Z3_OP_LT and z3.eq(c.arg(0), K):
            n = c.arg(1)
        elif z3.is_not(c) and z3.is_app(c.arg(0)) and c.arg(0).decl().kind() == z3.Z3_OP_LE \
                and z3.eq(c.arg(0).arg(1), K):
            n = c.arg(0).arg(0)
        if n is None:
            raise OutsideSubset("reduction loop %s: condition is not i < N" % (key,))
        mods = resolve_mods(st, body)
        cells = [m for m in mods if isinstance(m, Cell) and m is not var]
        others = [m for m in mods if not isinstance(m, Cell)]
        if others:
            raise OutsideSubset("reduction loop %s writes arrays/structs" % (key,))
        before = {}
        for c_ in cells:
            _hv[0] += 1
            sym = z3.Real("acc!%s!%d" % (c_.name, _hv[0])) if not is_int_type(c_.ctype or "double") \
                else z3.Int("acc!%s!%d" % (c_.name, _hv[0]))
            before[id(c_)] = (c_.value, sym)
            c_.value = sym
        g0 = st.guard
        st.broke.append(z3.BoolVal(False))
        st.continued.append(z3.BoolVal(False))
        ex.exec_stmt(body, st)
        st.continued.pop()
        broke = st.broke.pop()
        if not z3.is_false(z3.simplify(broke)):
            raise OutsideSubset("break inside a reduction loop")
        defs = ex.__dict__.setdefault("sigma_defs", {})
        for c_ in cells:
            old, sym = before[id(c_)]
            new = c_.value
            delta = z3.simplify(new - sym)
            if _mentions(delta, sym):
                # not an accumulator: a temporary that is recomputed in each iteration
                if _mentions(z3.simplify(new), sym):
                    raise OutsideSubset("variable %s is neither accumulator nor temporary in loop %s"
                                        % (c_.name, key))
                _hv[0] += 1
                c_.value = (z3.Real if not is_int_type(c_.ctype or "double") else z3.Int)(
                    "%s!afterloop!%d" % (c_.name, _hv[0]))
                continue
            params = [v for v in _free_consts(delta) if not z3.eq(v, K)]
            params.sort(key=lambda v: v.decl().name())
            _hv[0] += 1
            fname = "Sigma%d" % _hv[0]
            f = z3.Function(fname, *([p.sort() for p in params] + [R])) if params else None
            term = f(*params) if params else z3.Real(fname)
            defs[fname] = SigmaDef(f, K, (lo, n), to_real(delta), params)
            c_.value = to_real(old) + term
        var.value = n


def _mentions(e, sym):
    seen, stack = set(), [e]
    while stack:
        x = stack.pop()
        if x.get_id() in seen:
            continue
        seen.add(x.get_id())
        if z3.eq(x, sym):
            return True
        stack.extend(x.children())
    return False


def _free_consts(e):
    seen, out, stack = set(), [], [e]
    while stack:
        x = stack.pop()
        if x.get_id() in seen:
            continue
        seen.add(x.get_id())
        if z3.is_app(x) and x.num_args() == 0 and x.decl().kind() == z3.Z3_OP_UNINTERPRETED:
            out.append(x)
        stack.extend(x.children())
    return out
