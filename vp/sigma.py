"""Sigma-normal forms: rewrite an expression over Sigma atoms (reduction-loop
summaries of vp.cvc.SigmaLoop) as a list of nested sums with explicit
summands, using sum_lin (constant factors move inside a sum) only."""
from __future__ import annotations

import z3
from fractions import Fraction

from .core import OutsideSubset
from . import polynf


def poly_to_expr(p, byidx):
    terms = []
    for m, c in p.t.items():
        t = z3.RealVal(c.numerator) / z3.RealVal(c.denominator) if c.denominator != 1 else z3.RealVal(c.numerator)
        for v, e in m:
            x = byidx[v]
            if z3.is_int(x):
                x = z3.ToReal(x)
            for _ in range(e):
                t = t * x
        terms.append(t)
    if not terms:
        return z3.RealVal(0)
    r = terms[0]
    for t in terms[1:]:
        r = r + t
    return r


def normal_form(expr, defs, depth=0):
    """[(chain of SigmaDef, summand expr)] with expr == sum over entries of
    Sum_{chain indices} summand; entries with an empty chain are plain terms."""
    atoms = {}
    p = polynf.to_poly(expr, atoms)
    byidx = {i: t for s, (i, t) in atoms.items()}
    sig = {}
    for s, (i, t) in atoms.items():
        if z3.is_app(t):
            nm = t.decl().name()
            if nm in defs:
                sig[i] = defs[nm]
    out = []
    plain = polynf.Poly()
    for m, c in p.t.items():
        hits = [(v, e) for v, e in m if v in sig]
        if not hits:
            plain = plain + polynf.Poly({m: c})
            continue
        if len(hits) > 1 or hits[0][1] != 1:
            raise OutsideSubset("product of sums (degree %s) is not a Sigma-normal form" % (hits,))
        v = hits[0][0]
        rest = polynf.Poly({tuple((a, b) for a, b in m if a != v): c})
        d = sig[v]
        inner = poly_to_expr(rest, byidx) * d.summand
        if depth > 4:
            raise OutsideSubset("sums nested too deeply")
        for chain, summ in normal_form(inner, defs, depth + 1):
            out.append(([d] + chain, summ))
    if not plain.is_zero():
        out.append(([], poly_to_expr(plain, byidx)))
    return out
