"""
symcheck -- homogeneity (scaling) contracts on C functions, proved
compositionally over clang's AST of the generated model source.

A contract  f(lambda^d1 x1, ..., lambda^dn xn) = lambda^k f(x)  (for all
lambda > 0, and the same with a second scaling mu) is checked by grading
every expression with a degree vector (d_lambda, d_mu):
   literal 0            any degree (polymorphic)
   other literals, ints degree 0
   a * b, a / b         degrees add / subtract
   a + b, a - b, ?:, comparisons, fmax/fmin, assignments to the same variable
                        operands must have equal degrees
   sqrt, cbrt, pow(x, const), square, cube   degree scaled
   sin, cos, exp, log, Bessel/special functions   argument must have degree 0
Function calls are analysed modularly: a callee is graded once per vector of
argument degrees (memoised) and contributes only its result/out-parameter
degrees -- its body is not revisited at the call site.  Loops are iterated to
a fixed point of the variable degrees (accumulators start polymorphic).
A grading that satisfies every operator constraint is a proof of the scaling
identity over the reals; the first violated constraint is reported with its
source line and expression, and is then replayed numerically on the compiled
model before it counts as a violation.
"""
from __future__ import annotations

from fractions import Fraction

from .core import OutsideSubset
from . import cvc

ANY = None          # polymorphic (the constant zero)


class Inhomogeneous(Exception):
    def __init__(self, msg, node=None):
        Exception.__init__(self, msg)
        self.node = node


def deg(*c):
    return tuple(Fraction(x) for x in c)


ZERO2 = deg(0, 0)


def add(a, b):
    if a is ANY or b is ANY:
        return ANY if (a is ANY and b is ANY) else ZERO_if_any(a, b, "+")
    return tuple(x + y for x, y in zip(a, b))


def ZERO_if_any(a, b, op):
    # 0 * x = 0 stays polymorphic only if both are; product with a polymorphic
    # zero is zero again, any degree
    return ANY


def sub(a, b):
    if a is ANY or b is ANY:
        return ANY
    return tuple(x - y for x, y in zip(a, b))


def scale(a, c):
    if a is ANY:
        return ANY
    return tuple(x * Fraction(c) for x in a)


def join(a, b, what, node):
    if a is ANY:
        return b
    if b is ANY:
        return a
    if a != b:
        raise Inhomogeneous("%s of terms with degrees %s and %s" % (what, fmt(a), fmt(b)), node)
    return a


def fmt(d):
    if d is ANY:
        return "any"
    return "(" + ", ".join(str(x) for x in d) + ")"


DEG0_FUNCS = set("""sin cos tan exp log log10 expm1 log1p erf erfc tanh sinh cosh atan asin acos lgamma tgamma
sas_J0 sas_J1 sas_JN sas_Si sas_3j1x_x sas_2J1x_x sas_sinx_x sas_gamma sas_gammaln sas_gammainc sas_gammaincc
sas_erf sas_erfc sas_j1 floor ceil trunc round cephes_j1f polevl p1evl erff erfcf sinf cosf expf logf
lgammaf tgammaf""".split())


class Grader(object):
    def __init__(self, tu, ndim=2):
        self.tu = tu
        self.memo = {}
        self.stack = []
        self.ndim = ndim
        self.visited = set()
        self.zero = deg(*([0] * ndim))

    # ---- functions ---------------------------------------------------------
    def grade_function(self, name, arg_degs):
        """Degrees of (return value, out-parameters) for argument degrees."""
        key = (name, tuple(arg_degs))
        if key in self.memo:
            return self.memo[key]
        if key in self.stack:
            raise OutsideSubset("recursive function %s" % name)
        fn = self.tu.functions.get(name)
        if fn is None:
            raise OutsideSubset("no body for %s" % name)
        self.stack.append(key)
        self.visited.add(name)
        params = [c for c in fn.get("inner", []) if c.get("kind") == "ParmVarDecl"]
        body = [c for c in fn.get("inner", []) if c.get("kind") == "CompoundStmt"][0]
        env = {}
        outs = []
        written = cvc.modified_decls(body)
        for p, d in zip(params, arg_degs):
            qt = p["type"]["qualType"]
            env[p["id"]] = {"deg": d, "ptr": "*" in qt or "[" in qt, "name": p.get("name")}
            if "*" in qt and "const" not in qt.split("*")[0] and p["id"] in written:
                outs.append(p["id"])
        ret = {"deg": ANY, "set": False}
        self.fname = name
        self.exec_block(body, env, ret)
        result = (ret["deg"], tuple(env[o]["deg"] for o in outs))
        self.stack.pop()
        self.memo[key] = result
        return result

    # ---- statements ---------------------------------------------------------
    def exec_block(self, s, env, ret):
        k = s.get("kind")
        if k is None or k == "NullStmt":
            return
        if k == "CompoundStmt":
            for c in s.get("inner", []):
                self.exec_block(c, env, ret)
            return
        if k == "DeclStmt":
            for d in s.get("inner", []):
                if d.get("kind") != "VarDecl":
                    continue
                qt = d["type"]["qualType"]
                init = [c for c in d.get("inner", []) if c.get("kind")]
                dg = ANY
                if init:
                    if init[0].get("kind") == "InitListExpr":
                        for x in init[0].get("inner", []):
                            dg = join(dg, self.expr(x, env), "array initialiser", d)
                    else:
                        dg = self.expr(init[0], env)
                if cvc.is_int_type(qt) and "[" not in qt and "*" not in qt:
                    dg = self.zero if dg is not ANY or True else dg
                env[d["id"]] = {"deg": dg, "ptr": "*" in qt or "[" in qt, "name": d.get("name")}
            return
        if k == "ReturnStmt":
            inner = [c for c in s.get("inner", []) if c.get("kind")]
            if inner:
                ret["deg"] = join(ret["deg"], self.expr(inner[0], env), "return values", s)
            return
        if k == "IfStmt":
            inner = s.get("inner", [])
            self.cond(inner[0], env)
            e1 = self.copy_env(env)
            self.exec_block(inner[1], e1, ret)
            e2 = self.copy_env(env)
            if len(inner) > 2:
                self.exec_block(inner[2], e2, ret)
            self.merge_env(env, e1, e2, s)
            return
        if k in ("ForStmt", "WhileStmt", "DoStmt"):
            inner = s.get("inner", [])
            if k == "ForStmt":
                init, cond, inc, body = inner[0], inner[2], inner[3], inner[4]
                if init.get("kind"):
                    self.exec_block(init, env, ret) if init["kind"] == "DeclStmt" else self.expr(init, env)
            elif k == "WhileStmt":
                cond, body, inc = inner[0], inner[1], {}
            else:
                body, cond, inc = inner[0], inner[1], {}
            for _ in range(4):
                before = {i: v["deg"] for i, v in env.items()}
                if cond.get("kind"):
                    self.cond(cond, env)
                self.exec_block(body, env, ret)
                if inc.get("kind"):
                    self.expr(inc, env)
                after = {i: v["deg"] for i, v in env.items() if i in before}
                if after == before:
                    break
            else:
                raise OutsideSubset("degrees do not stabilise in a loop of %s" % self.fname)
            return
        if k == "SwitchStmt":
            inner = s.get("inner", [])
            self.expr(inner[0], env)
            envs = []
            for it in inner[1].get("inner", []):
                e = self.copy_env(env)
                self.exec_block(it, e, ret)
                envs.append(e)
            for e in envs:
                self.merge_env(env, e, e, s)
            return
        if k in ("CaseStmt", "DefaultStmt"):
            for c in s.get("inner", [])[(1 if k == "CaseStmt" else 0):]:
                self.exec_block(c, env, ret)
            return
        if k in ("BreakStmt", "ContinueStmt"):
            return
        # expression statement
        self.expr(s, env)

    def copy_env(self, env):
        return {i: dict(v) for i, v in env.items()}

    def merge_env(self, env, e1, e2, node):
        for i in env:
            a = e1.get(i, env[i])["deg"]
            b = e2.get(i, env[i])["deg"]
            env[i]["deg"] = join(a, b, "values of %s assigned on different branches" % env[i]["name"], node)

    def cond(self, e, env):
        """Branch conditions must be invariant under the scaling."""
        d = self.expr(e, env)
        return d

    # ---- expressions --------------------------------------------------------
    def ref(self, e, env):
        """Environment entry behind an lvalue expression."""
        while True:
            k = e.get("kind")
            if k == "DeclRefExpr":
                did = e["referencedDecl"]["id"]
                if did in env:
                    return env[did]
                nm = e["referencedDecl"].get("name")
                if nm in self.tu.globals:
                    return {"deg": self.zero, "ptr": True, "name": nm}     # constant tables
                raise OutsideSubset("unknown variable %s" % nm)
            if k in ("ImplicitCastExpr", "ParenExpr", "ArraySubscriptExpr", "CStyleCastExpr") or \
                    (k == "UnaryOperator" and e.get("opcode") in ("*", "&")):
                if k == "ArraySubscriptExpr":
                    self.expr(e["inner"][1], env)
                e = e["inner"][0]
                continue
            if k == "MemberExpr":
                e = e["inner"][0]
                continue
            raise OutsideSubset("lvalue %s" % k)

    def expr(self, e, env):
        k = e.get("kind")
        if k in ("ParenExpr", "ConstantExpr"):
            return self.expr(e["inner"][0], env)
        if k == "IntegerLiteral":
            return ANY if int(e["value"]) == 0 else self.zero
        if k == "FloatingLiteral":
            return ANY if float(e["value"]) == 0.0 else self.zero
        if k == "CharacterLiteral":
            return self.zero
        if k in ("ImplicitCastExpr", "CStyleCastExpr"):
            ck = e.get("castKind")
            if ck == "LValueToRValue" or ck == "ArrayToPointerDecay":
                return self.ref(e["inner"][0], env)["deg"]
            if ck == "FunctionToPointerDecay":
                return self.zero
            return self.expr(e["inner"][0], env)
        if k in ("DeclRefExpr", "MemberExpr", "ArraySubscriptExpr"):
            return self.ref(e, env)["deg"]
        if k == "UnaryOperator":
            op = e["opcode"]
            if op in ("-", "+"):
                return self.expr(e["inner"][0], env)
            if op == "!":
                self.expr(e["inner"][0], env)
                return self.zero
            if op in ("++", "--"):
                r = self.ref(e["inner"][0], env)
                r["deg"] = join(r["deg"], self.zero, "increment", e)
                return r["deg"]
            if op in ("*", "&"):
                return self.ref(e, env)["deg"]
            raise OutsideSubset("unary %s" % op)
        if k == "ConditionalOperator":
            c, a, b = e["inner"]
            self.cond(c, env)
            return join(self.expr(a, env), self.expr(b, env), "?: alternatives", e)
        if k == "BinaryOperator":
            op = e["opcode"]
            l, r = e["inner"]
            if op == "=":
                d = self.expr(r, env)
                t = self.ref(l, env)
                if t.get("ptr"):
                    t["deg"] = join(t["deg"], d, "assignment to %s" % t["name"], e)
                else:
                    t["deg"] = d
                return d
            if op == ",":
                self.expr(l, env)
                return self.expr(r, env)
            a, b = self.expr(l, env), self.expr(r, env)
            if op in ("+", "-"):
                return join(a, b, "'%s'" % op, e)
            if op == "*":
                if a is ANY or b is ANY:
                    return ANY
                return tuple(x + y for x, y in zip(a, b))
            if op == "/":
                if a is ANY:
                    return ANY
                if b is ANY:
                    raise Inhomogeneous("division by a constant zero", e)
                return tuple(x - y for x, y in zip(a, b))
            if op in ("<", ">", "<=", ">=", "==", "!="):
                join(a, b, "comparison '%s'" % op, e)
                return self.zero
            if op in ("&&", "||"):
                return self.zero
            if op in ("%", "&", "|", "^", "<<", ">>"):
                return self.zero
            raise OutsideSubset("operator %s" % op)
        if k == "CompoundAssignOperator":
            op = e["opcode"][:-1]
            l, r = e["inner"]
            t = self.ref(l, env)
            d = self.expr(r, env)
            if op in ("+", "-"):
                t["deg"] = join(t["deg"], d, "'%s='" % op, e)
            elif op == "*":
                t["deg"] = ANY if (t["deg"] is ANY or d is ANY) else tuple(x + y for x, y in zip(t["deg"], d))
            elif op == "/":
                if d is ANY:
                    raise Inhomogeneous("division by a constant zero", e)
                t["deg"] = ANY if t["deg"] is ANY else tuple(x - y for x, y in zip(t["deg"], d))
            else:
                raise OutsideSubset("operator %s=" % op)
            return t["deg"]
        if k == "CallExpr":
            return self.call(e, env)
        if k == "InitListExpr":
            d = ANY
            for x in e.get("inner", []):
                d = join(d, self.expr(x, env), "initialiser list", e)
            return d
        raise OutsideSubset("expression %s" % k)

    in_loop_or_branch = False

    def call(self, e, env):
        f = e["inner"][0]
        while f.get("kind") in ("ImplicitCastExpr", "ParenExpr"):
            f = f["inner"][0]
        name = f["referencedDecl"]["name"]
        if name.startswith("__tg_"):
            name = name[5:]
        if name.startswith("__builtin_"):
            name = name[10:]
        argn = e["inner"][1:]
        if name in ("sqrt", "cbrt", "square", "cube", "fabs"):
            d = self.expr(argn[0], env)
            return scale(d, {"sqrt": Fraction(1, 2), "cbrt": Fraction(1, 3), "square": 2, "cube": 3,
                             "fabs": 1}[name])
        if name == "pow":
            d = self.expr(argn[0], env)
            ex = argn[1]
            while ex.get("kind") in ("ImplicitCastExpr", "ParenExpr"):
                ex = ex["inner"][0]
            sign = 1
            if ex.get("kind") == "UnaryOperator" and ex.get("opcode") == "-":
                sign = -1
                ex = ex["inner"][0]
                while ex.get("kind") in ("ImplicitCastExpr", "ParenExpr"):
                    ex = ex["inner"][0]
            if ex.get("kind") in ("FloatingLiteral", "IntegerLiteral"):
                return scale(d, Fraction(ex["value"]).limit_denominator(1000) * sign)
            de = self.expr(argn[1], env)
            if d is not ANY and d != self.zero:
                raise Inhomogeneous("pow() with a dimensional base and a variable exponent", e)
            join(de, self.zero, "exponent of pow()", e)
            return self.zero
        if name in ("fmax", "fmin", "hypot", "copysign", "fmod"):
            return join(self.expr(argn[0], env), self.expr(argn[1], env), "%s() arguments" % name, e)
        if name == "atan2":
            join(self.expr(argn[0], env), self.expr(argn[1], env), "atan2() arguments", e)
            return self.zero
        if name == "SINCOS":
            raise OutsideSubset("SINCOS")
        if name in DEG0_FUNCS and name not in self.tu.functions or name in ("sin", "cos", "exp", "log"):
            for a in argn:
                d = self.expr(a, env)
                if d is not ANY and d != self.zero:
                    raise Inhomogeneous("argument of %s() has degree %s (must be dimensionless)"
                                        % (name, fmt(d)), e)
            return self.zero
        if name in ("printf", "fprintf", "isnan", "isinf", "isfinite"):
            return self.zero
        if name in self.tu.functions:
            if name in DEG0_FUNCS:
                for a in argn:
                    d = self.expr(a, env)
                    if d is not ANY and d != self.zero:
                        raise Inhomogeneous("argument of %s() has degree %s (must be dimensionless)"
                                            % (name, fmt(d)), e)
                return self.zero
            fn = self.tu.functions[name]
            params = [c for c in fn.get("inner", []) if c.get("kind") == "ParmVarDecl"]
            ad = []
            outrefs = []
            cbody = [c for c in fn.get("inner", []) if c.get("kind") == "CompoundStmt"][0]
            cwritten = cvc.modified_decls(cbody)
            for p, a in zip(params, argn):
                qt = p["type"]["qualType"]
                if "*" in qt and "const" not in qt.split("*")[0] and p["id"] in cwritten:
                    # out-parameter (or in/out array): current degree in, result degree out
                    x = a
                    while x.get("kind") in ("ImplicitCastExpr", "ParenExpr"):
                        x = x["inner"][0]
                    if x.get("kind") == "UnaryOperator" and x.get("opcode") == "&":
                        r = self.ref(x["inner"][0], env)
                    else:
                        r = self.ref(x, env)
                    outrefs.append(r)
                    ad.append(r["deg"])
                else:
                    ad.append(self.expr(a, env))
            saved = self.fname
            ret, outs = self.grade_function(name, ad)
            self.fname = saved
            for r, d in zip(outrefs, outs):
                r["deg"] = d
            return ret
        raise OutsideSubset("call of %s: no body and no grading rule" % name)
