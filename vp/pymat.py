"""
pymat -- 2-D numpy arrays with ONE concrete dimension.

An SMat is a list of 1-D symbolic arrays (vp.pyvc.SArr, each over the other,
possibly symbolic-length axis):
    conc_axis == 0 : the vectors are the rows     shape (len(vecs), L)
    conc_axis == 1 : the vectors are the columns  shape (L, len(vecs))
Broadcasting, slicing along either axis, boolean-mask assignment, transposition,
axis sums, np.dot / np.outer and elementwise functions are modelled element by
element (axiom 'elementwise2d'); a contract harness that enumerates the concrete
dimension (number of data points 1..3, number of spin-echo lengths 1..2) thereby
covers arbitrary lengths of the other dimension.
"""
import numpy as np
import z3

from .core import OutsideSubset
from .pyvc import (SArr, SList, Sym, IRaise, is_sym, is_scalar, num_expr, bool_expr, compare, simp_int)
from . import pymodels as pm


class SMat(object):
    def __init__(self, vecs, conc_axis, L, kind="real"):
        self.vecs = list(vecs)
        self.conc_axis = conc_axis
        self.L = L.e if isinstance(L, Sym) else L
        self.kind = kind

    @property
    def shape2(self):
        n = len(self.vecs)
        return (n, self.L) if self.conc_axis == 0 else (self.L, n)

    def el(self, r, c):
        """z3 term of element (r, c); indices int or z3 Int."""
        k, j = (r, c) if self.conc_axis == 0 else (c, r)
        if isinstance(k, int):
            return self.vecs[k].at(j)
        sk = simp_int(k)
        if sk is not None:
            return self.vecs[sk].at(j)
        out = self.vecs[-1].at(j)
        for idx in range(len(self.vecs) - 2, -1, -1):
            out = z3.If(k == idx, self.vecs[idx].at(j), out)
        return out

    def frozen_el(self):
        """Element function reading the CURRENT contents (not later in-place writes)."""
        gets = [pm.freeze(v) for v in self.vecs]
        axis = self.conc_axis

        def el(r, c):
            k, j = (r, c) if axis == 0 else (c, r)
            j = z3.IntVal(j) if isinstance(j, int) else j
            if isinstance(k, int):
                return gets[k](j)
            sk = simp_int(k)
            if sk is not None:
                return gets[sk](j)
            out = gets[-1](j)
            for idx in range(len(gets) - 2, -1, -1):
                out = z3.If(k == idx, gets[idx](j), out)
            return out
        return el

    def __repr__(self):
        return "SMat%s" % (self.shape2,)


pm.axiom("elementwise2d", "2-D numpy arrays: arithmetic, comparisons, masks, slicing, broadcasting of (n,1)/(1,n), transposition, "
                          "axis sums, dot and outer products act element by element as documented by numpy")


def _is_int(x):
    return isinstance(x, int)


def _dim_eq_one(d):
    return _is_int(d) and d == 1


def shape_of(interp, v):
    """(R, C, el) view of an operand for broadcasting; scalars are (1, 1)."""
    if isinstance(v, SMat):
        R, C = v.shape2
        return R, C, v.frozen_el()
    if isinstance(v, SArr):
        n = pm.zlen(v.length())
        get = pm.freeze(v)
        return 1, n, (lambda r, c, get=get: get(z3.IntVal(c) if isinstance(c, int) else c))
    if is_scalar(v):
        e = num_expr(v)
        return 1, 1, (lambda r, c, e=e: e)
    if isinstance(v, (SList, list, tuple)):
        n, get, _ = pm.seq_view(interp, v)
        return 1, n, (lambda r, c, get=get: get(c))
    raise OutsideSubset("2-D operand %r" % (v,))


def _bdim(interp, d1, d2):
    if _dim_eq_one(d1):
        return d2
    if _dim_eq_one(d2):
        return d1
    if _is_int(d1) and _is_int(d2):
        if d1 != d2:
            raise IRaise(ValueError("operands could not be broadcast together"))
        return d1
    if pm._same(d1, d2):
        return d1
    interp.side_obligation("array shapes match", (z3.IntVal(d1) if _is_int(d1) else d1) == (z3.IntVal(d2) if _is_int(d2) else d2))
    return d1 if not _is_int(d1) else d2


def build(interp, R, C, fn, kind, prefer=None, name="mat"):
    """SMat of shape (R, C) with element function fn(r, c)."""
    if _is_int(R) and _is_int(C):
        axis = prefer if prefer is not None else 1
    elif _is_int(R):
        axis = 0
    elif _is_int(C):
        axis = 1
    else:
        raise OutsideSubset("2-D array with two symbolic dimensions")
    if axis == 0:
        vecs = [interp.array_from_fn(lambda j, i=i: fn(i, j), C, kind, name) for i in range(R)]
        return SMat(vecs, 0, C, kind)
    vecs = [interp.array_from_fn(lambda j, i=i: fn(j, i), R, kind, name) for i in range(C)]
    return SMat(vecs, 1, R, kind)


def _idx(d, i):
    return 0 if _dim_eq_one(d) else i


def mat_binop(interp, sym, a, b, inplace=False):
    pm.used(interp, "elementwise2d")
    Ra, Ca, ea = shape_of(interp, a)
    Rb, Cb, eb = shape_of(interp, b)
    R, C = _bdim(interp, Ra, Rb), _bdim(interp, Ca, Cb)
    op = pm.lift2(sym)
    fn = lambda r, c: op(ea(_idx(Ra, r), _idx(Ca, c)), eb(_idx(Rb, r), _idx(Cb, c)))
    probe = fn(0 if _is_int(R) else z3.Int("probe!r"), 0 if _is_int(C) else z3.Int("probe!c"))
    kind = "real" if z3.is_real(probe) else "int"
    if inplace and isinstance(a, SMat):
        if not (pm._same(R, Ra) and pm._same(C, Ca)):
            raise IRaise(ValueError("non-broadcastable output operand"))
        # freeze the operand views before writing
        new = build(interp, R, C, fn, kind, prefer=a.conc_axis)
        _overwrite(interp, a, new)
        return a
    prefer = a.conc_axis if isinstance(a, SMat) else (b.conc_axis if isinstance(b, SMat) else None)
    return build(interp, R, C, fn, kind, prefer=prefer, name="binop" + sym)


def _overwrite(interp, dst, src):
    """dst[...] = src (same shape), writing through dst's buffers (views stay aliased)."""
    R, C = dst.shape2
    for i, v in enumerate(dst.vecs):
        sel = src.frozen_el()
        fget = (lambda j, i=i, sel=sel: sel(i, j)) if dst.conc_axis == 0 else (lambda j, i=i, sel=sel: sel(j, i))
        off = z3.IntVal(v.off) if isinstance(v.off, int) else v.off
        n = z3.IntVal(v.n) if isinstance(v.n, int) else v.n
        if v.stride != 1:
            raise OutsideSubset("strided in-place 2-D write")
        v.buf.store_range(off, off + n, lambda j, off=off, fget=fget: fget(z3.simplify(j - off)))
        if src.kind == "real":
            v.buf.kind = "real"
    dst.kind = src.kind if dst.kind != "bool" else dst.kind


def mat_compare(interp, sym, a, b):
    pm.used(interp, "elementwise2d")
    Ra, Ca, ea = shape_of(interp, a)
    Rb, Cb, eb = shape_of(interp, b)
    R, C = _bdim(interp, Ra, Rb), _bdim(interp, Ca, Cb)
    nan_a, nan_b = getattr(a, "nan_el", None), getattr(b, "nan_el", None)

    def fn(r, c):
        x, y = ea(_idx(Ra, r), _idx(Ca, c)), eb(_idx(Rb, r), _idx(Cb, c))
        res = bool_expr(compare(sym, Sym(x), Sym(y)))
        # IEEE: every ordered comparison with NaN is false (!= is true)
        for nan, (rr, cc) in ((nan_a, (_idx(Ra, r), _idx(Ca, c))), (nan_b, (_idx(Rb, r), _idx(Cb, c)))):
            if nan is not None:
                res = z3.And(z3.Not(nan(rr, cc)), res) if sym != "!=" else z3.Or(nan(rr, cc), res)
        return res
    prefer = a.conc_axis if isinstance(a, SMat) else (b.conc_axis if isinstance(b, SMat) else None)
    return build(interp, R, C, fn, "bool", prefer=prefer, name="cmp")


def mat_map(interp, m, fn, kind=None, name="map"):
    pm.used(interp, "elementwise2d")
    R, C = m.shape2
    el = m.frozen_el()
    return build(interp, R, C, lambda r, c: fn(el(r, c)), kind or m.kind, prefer=m.conc_axis, name=name)


def mat_not(interp, m):
    return mat_map(interp, m, lambda x: z3.Not(x), "bool", "not")


# --------------------------------------------------------------------------
# indexing
# --------------------------------------------------------------------------

def arr_getitem_tuple(interp, a, key):
    """a[:, None], a[None, :] on a 1-D array."""
    full = lambda k: isinstance(k, slice) and k == slice(None)
    if len(key) == 2 and full(key[0]) and key[1] is None:
        return SMat([a], 1, pm.zlen(a.length()), a.kind)          # (n, 1): one column (a view)
    if len(key) == 2 and key[0] is None and full(key[1]):
        n = pm.zlen(a.length())
        if _is_int(n):
            # (1, n) with concrete n: n columns of length 1
            return SMat([pm.getitem(interp, a, slice(i, i + 1)) for i in range(n)], 1, 1, a.kind)
        return SMat([a], 0, n, a.kind)                               # (1, n): one row (a view)
    raise OutsideSubset("multi-dimensional index %r" % (key,))


def getitem(interp, m, key):
    pm.used(interp, "elementwise2d")
    R, C = m.shape2
    if isinstance(key, SMat):
        raise OutsideSubset("boolean selection from a 2-D array")
    if isinstance(key, tuple) and len(key) == 2:
        kr, kc = key
    else:
        kr, kc = key, slice(None)
    full = lambda k: isinstance(k, slice) and k == slice(None)
    # integer row / column -> 1-D view
    if isinstance(kr, (int, Sym)) and full(kc) and not isinstance(kr, bool):
        if m.conc_axis == 0:
            i = kr if isinstance(kr, int) else simp_int(kr.e)
            if i is None:
                raise OutsideSubset("symbolic row index into concrete rows")
            if i < 0:
                i += len(m.vecs)
            return m.vecs[i]
        r = kr if isinstance(kr, int) else kr.e
        return _gather(interp, m, lambda j: m.el(r, j), C)
    if full(kr) and isinstance(kc, (int, Sym)) and not isinstance(kc, bool):
        if m.conc_axis == 1:
            i = kc if isinstance(kc, int) else simp_int(kc.e)
            if i is None:
                raise OutsideSubset("symbolic column index into concrete columns")
            if i < 0:
                i += len(m.vecs)
            return m.vecs[i]
        c = kc if isinstance(kc, int) else kc.e
        return _gather(interp, m, lambda j: m.el(j, c), R)
    if isinstance(kr, slice) and isinstance(kc, slice):
        vecs = m.vecs
        if m.conc_axis == 0:
            sub = vecs[kr]
            sub = [pm.getitem(interp, v, kc) if not full(kc) else v for v in sub]
            L = pm.zlen(sub[0].length()) if sub else m.L
            return SMat(sub, 0, L, m.kind)
        sub = vecs[kc]
        sub = [pm.getitem(interp, v, kr) if not full(kr) else v for v in sub]
        L = pm.zlen(sub[0].length()) if sub else m.L
        return SMat(sub, 1, L, m.kind)
    if kr is None or kc is None:
        raise OutsideSubset("new axis on a 2-D array")
    raise OutsideSubset("2-D index %r" % (key,))


def _gather(interp, m, fn, n):
    if _is_int(n):
        return interp.array_from_fn(lambda j: fn(j), n, m.kind, "gather")
    return interp.array_from_fn(lambda j: fn(j), n, m.kind, "gather")


def setitem(interp, m, key, v):
    pm.used(interp, "elementwise2d")
    if isinstance(key, SMat):
        if key.kind != "bool":
            raise OutsideSubset("2-D fancy assignment")
        if not is_scalar(v):
            raise OutsideSubset("masked 2-D assignment of an array")
        val = num_expr(v)
        R, C = m.shape2
        mel, kel = m.frozen_el(), key.frozen_el()
        new = build(interp, R, C, lambda r, c: z3.If(kel(r, c), pm.to_real(val) if m.kind == "real" else val,
                                                      mel(r, c)), m.kind, prefer=m.conc_axis)
        _overwrite(interp, m, new)
        return
    if isinstance(key, tuple) and len(key) == 2:
        kr, kc = key
        full = lambda k: isinstance(k, slice) and k == slice(None)
        if isinstance(kr, (int, Sym)) and full(kc) and m.conc_axis == 0:
            i = kr if isinstance(kr, int) else simp_int(kr.e)
            if i is None:
                raise OutsideSubset("symbolic row index")
            pm.setitem(interp, m.vecs[i], slice(None), v)
            if isinstance(v, SArr) and v.kind == "real" or (is_scalar(v) and z3.is_real(num_expr(v))):
                m.kind = "real" if m.kind != "bool" else m.kind
            return
        if full(kr) and isinstance(kc, (int, Sym)) and m.conc_axis == 1:
            i = kc if isinstance(kc, int) else simp_int(kc.e)
            if i is None:
                raise OutsideSubset("symbolic column index")
            pm.setitem(interp, m.vecs[i], slice(None), v)
            return
    raise OutsideSubset("2-D assignment %r" % (key,))


# --------------------------------------------------------------------------
# attributes and numpy functions
# --------------------------------------------------------------------------

def transpose(m):
    t = SMat(m.vecs, 1 - m.conc_axis, m.L, m.kind)
    if getattr(m, "nan_el", None) is not None:
        t.nan_el = lambda r, c, f=m.nan_el: f(c, r)
    return t


def flatten(interp, m):
    R, C = m.shape2
    if _dim_eq_one(R) and m.conc_axis == 0:
        return pm.arr_copy(interp, m.vecs[0])
    if _dim_eq_one(C) and m.conc_axis == 1:
        return pm.arr_copy(interp, m.vecs[0])
    if _is_int(R) and _is_int(C):
        items = [Sym(m.el(r, c)) for r in range(R) for c in range(C)]
        return pm.arr_copy(interp, interp.new_list(items))
    raise OutsideSubset("flatten of a 2-D array with a symbolic dimension")


def mat_attr(interp, m, name, default=None):
    if name == "T":
        return transpose(m)
    if name == "shape":
        R, C = m.shape2
        return (R if _is_int(R) else Sym(R), C if _is_int(C) else Sym(C))
    if name == "ndim":
        return 2
    if name == "flatten" or name == "ravel":
        return pm.LibMethod(lambda it, a, k: flatten(it, m), "ndarray.flatten")
    if name == "transpose":
        return pm.LibMethod(lambda it, a, k: transpose(m), "ndarray.transpose")
    if name == "copy":
        R, C = m.shape2
        return pm.LibMethod(lambda it, a, k: build(it, R, C, m.frozen_el(), m.kind, prefer=m.conc_axis), "ndarray.copy")
    raise OutsideSubset("2-D array attribute %s" % name)


def arr_reshape(interp, a, shape):
    """a.reshape((-1, 1)) / (1, -1) / (n, 1) on a 1-D array."""
    shape = tuple(shape.items) if isinstance(shape, SList) else tuple(shape)
    if len(shape) == 0:
        # x[i:i+1].reshape(()): a zero-dimensional view of one element (acts like a scalar, shares the buffer)
        return a
    if len(shape) == 2:
        r, c = shape
        if c == 1 and (r == -1 or True):
            return SMat([a], 1, pm.zlen(a.length()), a.kind)
        if r == 1:
            return arr_getitem_tuple(interp, a, (None, slice(None)))
    raise OutsideSubset("reshape to %r" % (shape,))


def np_zeros2(interp, shape, fill, kind="real"):
    r, c = shape
    r = r.e if isinstance(r, Sym) else r
    c = c.e if isinstance(c, Sym) else c
    r = simp_int(r) if not _is_int(r) and simp_int(r) is not None else r
    c = simp_int(c) if not _is_int(c) and simp_int(c) is not None else c
    val = z3.RealVal(fill) if kind == "real" else z3.IntVal(fill)
    return build(interp, r, c, lambda i, j: val, kind, name="zeros")


def np_sum_axis(interp, m, axis):
    pm.used(interp, "elementwise2d")
    R, C = m.shape2
    if axis is None:
        raise OutsideSubset("sum of all elements of a 2-D array")
    if axis < 0:
        axis += 2
    if axis == m.conc_axis:
        # add the listed vectors element by element
        def fn(j):
            tot = None
            for v in m.vecs:
                x = v.at(j)
                tot = x if tot is None else tot + x
            return tot
        return interp.array_from_fn(fn, m.L, m.kind, "sum_axis")
    # one Sigma per listed vector
    items = [pm.np_sum(interp, [v], {}) for v in m.vecs]
    return pm.arr_copy(interp, interp.new_list(items), kind="real" if m.kind == "real" else None)


def np_dot(interp, a, b):
    pm.used(interp, "elementwise2d")
    Ra, Ca, ea = shape_of(interp, a)
    Rb, Cb, eb = shape_of(interp, b)
    one_d_a, one_d_b = isinstance(a, SArr), isinstance(b, SArr)
    if one_d_b and not one_d_a:
        # (R, K) . (K,) -> (R,)
        K = Ca
        if not _is_int(Ra):
            raise OutsideSubset("matrix-vector product with symbolic result length")
        items = []
        for r in range(Ra):
            prod = interp.array_from_fn(lambda j, r=r: ea(r, j) * eb(0, j), K, "real", "dotterm")
            items.append(pm.np_sum(interp, [prod], {}))
        return pm.arr_copy(interp, interp.new_list(items), kind="real")
    if one_d_a and one_d_b:
        prod = interp.array_from_fn(lambda j: ea(0, j) * eb(0, j), Ca, "real", "dotterm")
        return pm.np_sum(interp, [prod], {})
    # (Ra, K) . (K, Cb)
    K = Ca
    if not (_is_int(Ra) and _is_int(Cb)):
        raise OutsideSubset("matrix product with a symbolic result dimension")
    rows = []
    for r in range(Ra):
        items = []
        for c in range(Cb):
            prod = interp.array_from_fn(lambda j, r=r, c=c: ea(r, j) * eb(j, c), K, "real", "dotterm")
            items.append(pm.np_sum(interp, [prod], {}))
        rows.append(pm.arr_copy(interp, interp.new_list(items), kind="real"))
    return SMat(rows, 0, Cb, "real")


def np_outer(interp, a, b):
    pm.used(interp, "elementwise2d")
    na, ga, _ = pm.seq_view_frozen(interp, a) if not is_scalar(a) else (1, (lambda j, e=num_expr(a): e), None)
    nb, gb, _ = pm.seq_view_frozen(interp, b) if not is_scalar(b) else (1, (lambda j, e=num_expr(b): e), None)
    op = pm.lift2("*")
    return build(interp, na, nb, lambda r, c: op(pm.to_real(ga(r if not _is_int(r) else z3.IntVal(r))),
                                                  pm.to_real(gb(c if not _is_int(c) else z3.IntVal(c)))), "real", name="outer")
