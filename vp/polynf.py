"""
Polynomial-identity back end: decides goals of the form  AND_i (lhs_i == rhs_i)
where both sides are polynomials (with rational coefficients) over real
terms, modulo the relations  s_k^2 + c_k^2 = 1  for given (sin, cos) pairs.

Terms that are not +, -, *, division by a numeral, numerals or ToReal are
treated as indeterminates (uninterpreted applications such as sin(t) or
F2(q, ...) are atoms).  Each polynomial is brought to the normal form in which
every s_k has degree <= 1 (s_k^2 -> 1 - c_k^2); two polynomials are equal in
the quotient ring iff their normal forms coincide, so the procedure is a
complete decision procedure for this fragment ("unsat" = identity holds).
When the normal forms differ a numeric witness is searched by evaluating at
random angles (sin/cos pairs on the unit circle) and random atoms.
"""
from __future__ import annotations

import random
from fractions import Fraction

import z3


class NotPolynomial(Exception):
    pass


def _num(e):
    if z3.is_int_value(e):
        return Fraction(e.as_long())
    if z3.is_rational_value(e):
        return Fraction(e.numerator_as_long(), e.denominator_as_long())
    return None


class Poly(object):
    __slots__ = ("t",)

    def __init__(self, t=None):
        self.t = t or {}

    @staticmethod
    def const(c):
        return Poly({(): Fraction(c)} if c != 0 else {})

    @staticmethod
    def var(v):
        return Poly({((v, 1),): Fraction(1)})

    def __add__(self, o):
        r = dict(self.t)
        for m, c in o.t.items():
            v = r.get(m, 0) + c
            if v == 0:
                r.pop(m, None)
            else:
                r[m] = v
        return Poly(r)

    def __neg__(self):
        return Poly({m: -c for m, c in self.t.items()})

    def __sub__(self, o):
        return self + (-o)

    def __mul__(self, o):
        r = {}
        for m1, c1 in self.t.items():
            d1 = dict(m1)
            for m2, c2 in o.t.items():
                d = dict(d1)
                for v, e in m2:
                    d[v] = d.get(v, 0) + e
                m = tuple(sorted(d.items()))
                v = r.get(m, 0) + c1 * c2
                if v == 0:
                    r.pop(m, None)
                else:
                    r[m] = v
        return Poly(r)

    def scale(self, c):
        return Poly({m: v * c for m, v in self.t.items()}) if c != 0 else Poly()

    def is_zero(self):
        return not self.t


def canon_key(e, atoms):
    """Canonical key of an atom: applications of uninterpreted functions are
    keyed by the polynomial normal forms of their arguments, so f(q*s) and
    f(s*q) are the same indeterminate."""
    if z3.is_app(e) and e.num_args() > 0 and e.decl().kind() == z3.Z3_OP_UNINTERPRETED:
        parts = []
        for a in e.children():
            if z3.is_real(a) or z3.is_int(a):
                try:
                    p = reduce_trig(cancel_inverses(to_poly(a, atoms)), _ctx["pairs"])
                    if _sq_table(atoms):
                        p = reduce_trig(cancel_inverses(reduce_sqrt(p, _sq_table(atoms))), _ctx["pairs"])
                        p = unify_nonneg(merge_sqrt(p, atoms), atoms)
                    parts.append(repr(sorted((m, str(c)) for m, c in p.t.items())))
                    continue
                except NotPolynomial:
                    pass
            parts.append(a.sexpr())
        return "%s(%s)" % (e.decl().name(), ";".join(parts))
    if z3.is_app(e) and e.num_args() > 0:
        # interpreted non-polynomial atoms (ite, to_int, ...): keyed by their simplified form, so that the same
        # term before and after a z3.simplify pass is one indeterminate
        return z3.simplify(e).sexpr()
    return e.sexpr()


def _atom_name(atoms, idx):
    for k, (i, t) in atoms.items():
        if i == idx:
            return t.sexpr()
    return "?%d" % idx


def _atom_term(atoms, idx):
    for k, (i, t) in atoms.items():
        if i == idx:
            return t
    return None


# name of an inverse constant (inv!<hash>) -> the z3 term it inverts, across conversions
_INV_TERMS = {}


def expand_inverses(e):
    """Replace the inverse constants (inv!<hash>, invp!<hash>) that conversions introduced by 1 / <the term they
    invert>, recursively: a term rebuilt from a normal form can then be substituted into (the constants are opaque
    to z3.substitute, although they depend on the variables of the inverted term)."""
    seen = {}

    def consts(t, acc):
        if t.get_id() in seen:
            return
        seen[t.get_id()] = True
        if z3.is_app(t):
            if t.num_args() == 0 and t.decl().kind() == z3.Z3_OP_UNINTERPRETED and t.decl().name() in _INV_TERMS:
                acc[t.decl().name()] = t
            for ch in t.children():
                consts(ch, acc)
    for _ in range(8):
        acc = {}
        seen.clear()
        consts(e, acc)
        if not acc:
            return e
        e = z3.substitute(e, *[(t, z3.RealVal(1) / _INV_TERMS[n]) for n, t in acc.items()])
    raise NotPolynomial("inverse constants nest too deeply")


def _stable(text):
    import hashlib
    return hashlib.sha1(text.encode()).hexdigest()[:12]


# atom index of inv(x) -> atom index of x, PER atom table (indices of different tables are unrelated; a single
# global table made x*inv(y) cancel whenever two tables happened to number x and y alike)
_INV_TABLES = {}   # id(atoms) -> (atoms, {inv index: index})


def _inv_table(atoms):
    ent = _INV_TABLES.get(id(atoms))
    if ent is None or ent[0] is not atoms:
        ent = (atoms, {})
        _INV_TABLES[id(atoms)] = ent
        if len(_INV_TABLES) > 4096:
            for k in list(_INV_TABLES)[:2048]:
                if k != id(atoms):
                    del _INV_TABLES[k]
    return ent[1]
_ctx = {"pairs": [], "nonneg": None}   # (sin index, cos index) pairs known while converting (set by decide);
                                       # nonneg: names of constants known to be >= 0 (enables canon_sqrt)

# index of a sqrt atom -> Poly radicand, PER atom table (filled when the atom is registered)
_SQ_TABLES = {}


def _sq_table(atoms):
    ent = _SQ_TABLES.get(id(atoms))
    if ent is None or ent[0] is not atoms:
        ent = (atoms, {})
        _SQ_TABLES[id(atoms)] = ent
        if len(_SQ_TABLES) > 4096:
            for k in list(_SQ_TABLES)[:2048]:
                if k != id(atoms):
                    del _SQ_TABLES[k]
    return ent[1]


def _is_nonneg_atom(atoms, idx):
    """constants named in _ctx['nonneg'] and inverses of such."""
    t = _atom_term(atoms, idx)
    if t is None or not z3.is_app(t):
        return False
    if t.num_args() == 0:
        names = _ctx.get("nonneg") or ()
        if t.decl().name() in names:
            return True
        base = _inv_table(atoms).get(idx)
        if base is not None:
            return _is_nonneg_atom(atoms, base)
    return False


def poly_to_term(P, atoms):
    byidx = {i: t for k, (i, t) in atoms.items()}
    tot = None
    for m, cf in sorted(P.t.items(), key=lambda kv: repr(kv[0])):
        term = z3.RealVal(str(cf))
        for v, e in m:
            for _ in range(e):
                term = term * byidx[v]
        tot = term if tot is None else tot + term
    return tot if tot is not None else z3.RealVal(0)


def _squarefree_split(n):
    """n = a*a*f with f square-free (trial division; None when n is too large to factor quickly)."""
    if n > 10 ** 14:
        return None
    a, f, d = 1, 1, 2
    while d * d <= n:
        k = 0
        while n % d == 0:
            n //= d
            k += 1
        a *= d ** (k // 2)
        if k % 2:
            f *= d
        d += 1 if d == 2 else 2
    return a, f * n


_NN_TABLES = {}


def _manifestly_nonneg(p, atoms):
    """All coefficients positive and every factor a non-negative atom, a square root or an even power."""
    sq = _sq_table(atoms)
    for m, cf in p.t.items():
        if cf <= 0:
            return False
        for v, e in m:
            if e % 2 and v not in sq and not _is_nonneg_atom(atoms, v):
                return False
    return bool(p.t)


def unify_nonneg(p, atoms):
    """a == b follows from a, b >= 0 and a^2 == b^2: an argument polynomial that is manifestly non-negative and whose
    square (roots multiplied out) equals the square of one met before is replaced by that one, so that
    (r + t) sqrt(1 - u^2) and sqrt((r^2 + 2 r t + t^2) (1 - u^2)) name the same argument."""
    if _ctx.get("nonneg") is None or not _sq_table(atoms) or not _manifestly_nonneg(p, atoms):
        return p
    if not any(v in _sq_table(atoms) for m in p.t for v, _ in m):
        return p
    ent = _NN_TABLES.get(id(atoms))
    if ent is None or ent[0] is not atoms:
        ent = (atoms, [])
        _NN_TABLES[id(atoms)] = ent
        if len(_NN_TABLES) > 4096:
            for k in list(_NN_TABLES)[:2048]:
                if k != id(atoms):
                    del _NN_TABLES[k]
    p2 = reduce_trig(cancel_inverses(reduce_sqrt(p * p, _sq_table(atoms))), _ctx["pairs"])
    for q_, q2 in ent[1]:
        if (p2 - q2).is_zero():
            return q_
    ent[1].append((p, p2))
    return p


def merge_sqrt(p, atoms):
    """sqrt(R1) sqrt(R2) -> sqrt(R1 R2) (canonical, see canon_sqrt) inside every monomial: after reduce_sqrt each
    monomial then holds at most one sqrt atom, so products of roots and roots of products name the same atom."""
    sq = _sq_table(atoms)
    if not sq or _ctx.get("nonneg") is None:
        return p
    out = Poly()
    for m, cf in p.t.items():
        roots = [v for v, e in m if v in sq and e == 1]
        if len(roots) < 2:
            out = out + Poly({m: cf})
            continue
        R = Poly.const(1)
        for v in roots:
            R = R * sq[v]
        R = reduce_trig(cancel_inverses(R), _ctx["pairs"])
        r = canon_sqrt(R, atoms)
        if r is None:
            out = out + Poly({m: cf})
            continue
        rest = Poly({tuple((v, e) for v, e in m if v not in roots): cf})
        out = out + rest * r
    return out


def canon_sqrt(P, atoms):
    """Poly for sqrt(P) in canonical form  m * sqrt(P0):  inverses of non-negative atoms cleared from the radicand,
    even powers of non-negative atoms common to all monomials and the square part of the rational content taken
    out (sqrt(v^2 P) = v sqrt(P) needs v >= 0: only atoms accepted by _is_nonneg_atom are moved).  Two radicands
    that differ by such a factor then name the same indeterminate."""
    import math
    out = Poly.const(1)
    inv = _inv_table(atoms)
    # inverses
    for iv, v in list(inv.items()):
        e = max((dict(m).get(iv, 0) for m in P.t), default=0)
        if e == 0 or not _is_nonneg_atom(atoms, v):
            continue
        k = e + (e % 2)
        P = cancel_inverses(P * Poly({((v, k),): Fraction(1)}))
        out = out * Poly({((iv, k // 2),): Fraction(1)})
    if P.is_zero():
        return None
    # common even powers
    common = None
    for m in P.t:
        d = dict(m)
        common = d if common is None else {v: min(e, d[v]) for v, e in common.items() if v in d}
    for v, e in sorted((common or {}).items()):
        k = e // 2
        if k and _is_nonneg_atom(atoms, v):
            P = Poly({tuple(sorted((vv, ee - (2 * k if vv == v else 0)) for vv, ee in m
                                   if ee - (2 * k if vv == v else 0) > 0)): cf for m, cf in P.t.items()})
            out = out * Poly({((v, k),): Fraction(1)})
    # rational content
    num = 0
    den = 1
    for cf in P.t.values():
        num = math.gcd(num, abs(cf.numerator))
        den = den * cf.denominator // math.gcd(den, cf.denominator)
    sp = _squarefree_split(num * den)
    if sp is not None:
        a, f = sp
        s = Fraction(a, den)            # content = num/den = (num*den)/den^2 = a^2 f / den^2
        if s != 1:
            P = P.scale(1 / (s * s))
            out = out.scale(s)
    r = perfect_square_root(P)
    if r is not None:
        return out * r
    term = z3.Function("sqrt", z3.RealSort(), z3.RealSort())(poly_to_term(P, atoms))
    key = canon_key(term, atoms)
    if key not in atoms:
        atoms[key] = (len(atoms), term)
        _sq_table(atoms)[atoms[key][0]] = P
    return out * Poly.var(atoms[key][0])


def perfect_square_root(P):
    """Poly t with t^2 == P if P is a single monomial with a square coefficient and even exponents."""
    import math
    if len(P.t) != 1:
        return None
    (m, c), = P.t.items()
    if c <= 0 or any(e % 2 for v, e in m):
        return None
    rn, rd = math.isqrt(c.numerator), math.isqrt(c.denominator)
    if rn * rn != c.numerator or rd * rd != c.denominator:
        return None
    return Poly({tuple((v, e // 2) for v, e in m): Fraction(rn, rd)})


def cancel_inverses(p):
    """x * inv(x) -> 1 inside every monomial."""
    out = Poly()
    for m, c in p.t.items():
        d = dict(m)
        for iv, v in _ctx.get("inv", {}).items():
            if iv in d and v in d:
                k = min(d[iv], d[v])
                d[iv] -= k
                d[v] -= k
                if d[iv] == 0:
                    del d[iv]
                if d[v] == 0:
                    del d[v]
        out = out + Poly({tuple(sorted(d.items())): c})
    return out


def _prepr(p):
    return repr(sorted((m, str(cf)) for m, cf in p.t.items()))


def _lead_negative(p):
    return bool(p.t) and p.t[sorted(p.t, key=repr)[0]] < 0


def _cond_key(c, walk):
    """Canonical text of a condition: comparisons by the normal form of lhs - rhs."""
    k = c.decl().kind() if z3.is_app(c) else None
    ops = {z3.Z3_OP_GE: ">=", z3.Z3_OP_GT: ">", z3.Z3_OP_LE: "<=", z3.Z3_OP_LT: "<", z3.Z3_OP_EQ: "==",
           z3.Z3_OP_DISTINCT: "!="}
    if k in ops and z3.is_arith(c.arg(0)):
        d = reduce_trig(cancel_inverses(walk(c.arg(0)) - walk(c.arg(1))), _ctx["pairs"])
        op = ops[k]
        if _lead_negative(d):
            d = -d
            op = {">=": "<=", ">": "<", "<=": ">=", "<": ">", "==": "==", "!=": "!="}[op]
        return "(%s 0 %s)" % (op, _prepr(d)), (op, d)
    if k == z3.Z3_OP_NOT:
        return "(not %s)" % _cond_key(c.arg(0), walk)[0], None
    if k in (z3.Z3_OP_AND, z3.Z3_OP_OR):
        return "(%s %s)" % ("and" if k == z3.Z3_OP_AND else "or",
                            " ".join(sorted(_cond_key(x, walk)[0] for x in c.children()))), None
    return z3.simplify(c).sexpr(), None


def ite_atom(e, atoms, walk, keep):
    """If(c, a, b) keyed by the normal forms of its parts; If(x >= 0, x, -x) and its variants are +-|x| with the
    sign of x normalised (|x| = |-x|).  Only used by parity proofs."""
    c, a, b = e.children()
    try:
        pa = reduce_trig(cancel_inverses(walk(a)), _ctx["pairs"])
        pb = reduce_trig(cancel_inverses(walk(b)), _ctx["pairs"])
        ck, cmp_ = _cond_key(c, walk)
    except NotPolynomial:
        return None
    if cmp_ is not None and (pa + pb).is_zero() and not pa.is_zero() and cmp_[0] in (">=", ">", "<=", "<"):
        op, d = cmp_                       # condition: d op 0 with the leading coefficient of d positive
        for sgn, x in ((1, pa), (-1, -pa)):
            if (d - x).is_zero():
                # value = a if (x op 0) else -a, a = sgn * x
                positive_branch = op in (">=", ">")      # the 'then' value is taken where x is non-negative
                s = sgn if positive_branch else -sgn     # then-branch value sgn*x where x >= 0  ->  sgn*|x| ... 
                canon = x if not _lead_negative(x) else -x
                key = "abs(%s)" % _prepr(canon)
                if key not in atoms:
                    t = z3.Function("abs", z3.RealSort(), z3.RealSort())(poly_to_term(canon, atoms))
                    atoms[key] = (len(atoms), t)
                return Poly.var(atoms[key][0]).scale(s)
    key = "ite(%s;%s;%s)" % (ck, _prepr(pa), _prepr(pb))
    if key not in atoms:
        atoms[key] = (len(atoms), e)
    return Poly.var(atoms[key][0])


def to_poly(e, atoms, limit=30000):
    """z3 real/int term -> Poly; atoms: dict sexpr -> (index, term)."""
    memo = {}
    keep = []
    limit = _ctx.get("limit") or limit
    _ctx["inv"] = _inv_table(atoms)      # cancel_inverses works on the table of the most recent conversion

    def walk(e):
        k = e.get_id()
        if k in memo:
            return memo[k]
        n = _num(e)
        if n is not None:
            r = Poly.const(n)
        elif z3.is_app(e):
            kind = e.decl().kind()
            ch = e.children()
            if kind == z3.Z3_OP_ADD:
                r = Poly()
                for c in ch:
                    r = r + walk(c)
            elif kind == z3.Z3_OP_SUB:
                r = walk(ch[0])
                for c in ch[1:]:
                    r = r - walk(c)
            elif kind == z3.Z3_OP_UMINUS:
                r = -walk(ch[0])
            elif kind == z3.Z3_OP_MUL:
                r = Poly.const(1)
                for c in ch:
                    r = r * walk(c)
                    if len(r.t) > limit:
                        raise NotPolynomial("polynomial too large")
            elif kind == z3.Z3_OP_DIV and _num(ch[1]) not in (None, 0):
                r = walk(ch[0]).scale(1 / _num(ch[1]))
            elif kind == z3.Z3_OP_DIV and _num(ch[1]) is None:
                # a / b with a symbolic divisor: a * inv(b), inv(b) an indeterminate keyed
                # by the normal form of b (monomial divisors are split into their factors)
                den = walk(ch[1])
                r = walk(ch[0])
                if len(den.t) == 1:
                    (m, c), = den.t.items()
                    r = r.scale(1 / c)
                    for v, e_ in m:
                        # the z3 name is a function of the inverted atom only, so the same
                        # inverse gets the same constant in every conversion (terms built from
                        # normal forms are converted again with a fresh atom table); the atom is
                        # keyed by that name, so an inverse that comes back inside a rebuilt term
                        # as the constant inv!<hash> is the same indeterminate
                        key = "inv!" + _stable(_atom_name(atoms, v))
                        if key not in atoms:
                            atoms[key] = (len(atoms), z3.Real(key))
                            _inv_table(atoms)[atoms[key][0]] = v
                            _INV_TERMS[key] = _atom_term(atoms, v)
                        r = r * Poly({((atoms[key][0], e_),): Fraction(1)})
                else:
                    canon = repr(sorted((sorted((_atom_name(atoms, v), e_) for v, e_ in mm), str(cc))
                                        for mm, cc in den.t.items()))
                    key = "invp!" + _stable(canon)
                    if key not in atoms:
                        atoms[key] = (len(atoms), z3.Real(key))
                    _INV_TERMS.setdefault(key, ch[1])
                    r = r * Poly.var(atoms[key][0])
                r = cancel_inverses(r)
            elif kind == z3.Z3_OP_TO_REAL:
                r = walk(ch[0])
            elif kind == z3.Z3_OP_POWER and _num(ch[1]) is not None and _num(ch[1]).denominator == 1 \
                    and 0 <= _num(ch[1]) <= 12:
                r = Poly.const(1)
                b = walk(ch[0])
                for _ in range(int(_num(ch[1]))):
                    r = r * b
            else:
                r = None
                if e.decl().name() == "sqrt" and e.num_args() == 1:
                    # sqrt(t^2) = t for t >= 0 (stated assumption), radicand taken modulo the trig relations
                    P = None
                    try:
                        P = reduce_trig(cancel_inverses(walk(e.arg(0))), _ctx["pairs"])
                        if _sq_table(atoms):
                            P = reduce_trig(cancel_inverses(reduce_sqrt(P, _sq_table(atoms))), _ctx["pairs"])
                        r = perfect_square_root(P)
                        if r is None and _ctx.get("nonneg") is not None and not P.is_zero():
                            r = canon_sqrt(P, atoms)
                    except NotPolynomial:
                        r = None
                if r is None and _ctx.get("parity") and e.num_args() == 1 and e.decl().name() in _ctx["parity"] \
                        and e.decl().kind() == z3.Z3_OP_UNINTERPRETED:
                    # f(-x) = f(x) (even) or -f(x) (odd): the argument is normalised to a positive leading coefficient
                    try:
                        pa = reduce_trig(cancel_inverses(walk(e.arg(0))), _ctx["pairs"])
                    except NotPolynomial:
                        pa = None
                    if pa is not None and pa.t:
                        lead = pa.t[sorted(pa.t, key=repr)[0]]
                        if lead < 0:
                            flipped = e.decl()(poly_to_term(-pa, atoms))
                            keep.append(flipped)        # memo is keyed by term id: the term must stay alive
                            r = walk(flipped)
                            if _ctx["parity"][e.decl().name()] == "odd":
                                r = -r
                if r is None and _ctx.get("parity") and e.num_args() > 1 and e.decl().kind() == z3.Z3_OP_UNINTERPRETED \
                        and isinstance(_ctx["parity"].get(e.decl().name()), tuple):
                    # a helper proved even under the simultaneous sign change of the arguments at `positions`:
                    # those arguments are negated together when the first of them has a negative leading coefficient
                    par, positions = _ctx["parity"][e.decl().name()]
                    try:
                        polys = [reduce_trig(cancel_inverses(walk(e.arg(k))), _ctx["pairs"]) for k in positions]
                    except NotPolynomial:
                        polys = None
                    lead = next((pp for pp in (polys or []) if pp.t), None)
                    if lead is not None and _lead_negative(lead) and par == "even":
                        args = list(e.children())
                        for k, pp in zip(positions, polys):
                            args[k] = poly_to_term(-pp, atoms)
                        flipped = e.decl()(*args)
                        keep.append(flipped)
                        r = walk(flipped)
                if r is None and _ctx.get("parity") and kind == z3.Z3_OP_ITE and z3.is_real(e):
                    r = ite_atom(e, atoms, walk, keep)
                if r is None:
                    s = canon_key(e, atoms)
                    if s not in atoms:
                        atoms[s] = (len(atoms), e)
                        if e.decl().name() == "sqrt" and e.num_args() == 1 and P is not None:
                            _sq_table(atoms)[atoms[s][0]] = P
                        base = _INV_TERMS.get(s) if e.num_args() == 0 else None
                        if base is not None:
                            # the constant inv!<hash> of an earlier conversion: link it to the atom it inverts
                            pb = walk(base)
                            if len(pb.t) == 1 and list(pb.t.values())[0] == 1 and len(list(pb.t)[0]) == 1 \
                                    and list(pb.t)[0][0][1] == 1:
                                _inv_table(atoms)[atoms[s][0]] = list(pb.t)[0][0][0]
                    r = Poly.var(atoms[s][0])
        else:
            raise NotPolynomial("unsupported term")
        memo[k] = r
        return r
    return walk(e)


def reduce_trig(p, pairs):
    """Normal form modulo s^2 = 1 - c^2 for (s, c) index pairs."""
    smap = {s: c for s, c in pairs}
    changed = True
    while changed:
        changed = False
        out = Poly()
        for m, coef in p.t.items():
            d = dict(m)
            hit = None
            for s in smap:
                if d.get(s, 0) >= 2:
                    hit = s
                    break
            if hit is None:
                out = out + Poly({m: coef})
                continue
            changed = True
            d[hit] -= 2
            if d[hit] == 0:
                del d[hit]
            base = Poly({tuple(sorted(d.items())): coef})
            c = smap[hit]
            out = out + base - base * Poly({((c, 2),): Fraction(1)})
        p = out
    return p


def reduce_sqrt(p, sq):
    """Normal form modulo s^2 = t for (s index, Poly t) pairs (s = sqrt(t))."""
    changed = True
    guard = 0
    while changed and guard < 50:
        changed = False
        guard += 1
        out = Poly()
        for m, coef in p.t.items():
            d = dict(m)
            hit = None
            for s_ in sq:
                if d.get(s_, 0) >= 2:
                    hit = s_
                    break
            if hit is None:
                out = out + Poly({m: coef})
                continue
            changed = True
            d[hit] -= 2
            if d[hit] == 0:
                del d[hit]
            out = out + Poly({tuple(sorted(d.items())): coef}) * sq[hit]
        p = out
    return p


def combine_exp(p, atoms):
    """exp(a)^n exp(b)^m -> exp(n a + m b): every monomial keeps at most one exp
    atom whose argument is in polynomial normal form (law exp(x+y) = exp(x) exp(y))."""
    byidx = {i: t for s_, (i, t) in atoms.items()}
    exps = {i: t for i, t in byidx.items() if z3.is_app(t) and t.decl().name() == "exp" and t.num_args() == 1}
    if not exps:
        return p
    out = Poly()
    for m, coef in p.t.items():
        arg = Poly()
        rest = []
        for v, e in m:
            if v in exps:
                arg = arg + to_poly(exps[v].arg(0), atoms).scale(e)
            else:
                rest.append((v, e))
        if arg.is_zero():
            out = out + Poly({tuple(rest): coef})
            continue
        key = "exp!nf!" + repr(sorted((tuple(mm), str(cc)) for mm, cc in arg.t.items()))
        if key not in atoms:
            atoms[key] = (len(atoms), z3.Real("expnf!%d" % len(atoms)))
        rest.append((atoms[key][0], 1))
        out = out + Poly({tuple(sorted(rest)): coef})
    return out


def substitute_var(p, var, repl):
    """Replace indeterminate `var` by polynomial `repl` in p."""
    out = Poly()
    for m, c in p.t.items():
        d = dict(m)
        e = d.pop(var, 0)
        term = Poly({tuple(sorted(d.items())): c})
        for _ in range(e):
            term = term * repl
        out = out + term
    return out


def split_goal(goal):
    """Conjunction of equalities -> list of (lhs, rhs) or None."""
    if z3.is_and(goal):
        out = []
        for c in goal.children():
            r = split_goal(c)
            if r is None:
                return None
            out += r
        return out
    if z3.is_eq(goal):
        a, b = goal.children()
        if z3.is_bool(a):
            return None
        return [(a, b)]
    if z3.is_true(goal):
        return []
    return None


def decide(goal, trig_pairs=(), nonneg=None, parity=None, limit=None):
    """Returns ('unsat', None) if every equality is an identity modulo the trig
    relations, ('sat', witness) with a numeric assignment of the atoms when a
    difference evaluates to non-zero, or ('unknown', None)."""
    eqs = split_goal(goal)
    if eqs is None:
        return "unknown", None
    atoms = {}
    _ctx["pairs"] = []
    _ctx["nonneg"] = set(nonneg) if nonneg is not None else None
    _ctx["parity"] = dict(parity) if parity else None
    _ctx["limit"] = limit
    try:
        return _decide(eqs, atoms, trig_pairs)
    finally:
        _ctx["nonneg"] = None
        _ctx["parity"] = None
        _ctx["limit"] = None
        _ctx["pairs"] = []


def _decide(eqs, atoms, trig_pairs):
    try:
        pairs = []
        for s, c in trig_pairs:
            ps, pc = to_poly(s, atoms), to_poly(c, atoms)
            # both must be single atoms
            (ms,), (mc,) = list(ps.t), list(pc.t)
            pairs.append((ms[0][0], mc[0][0]))
        _ctx["pairs"] = pairs
        diffs = [to_poly(a, atoms) - to_poly(b, atoms) for a, b in eqs]
    except (NotPolynomial, ValueError):
        _ctx["pairs"] = []
        return "unknown", None
    _ctx["pairs"] = []
    # sqrt atoms whose radicand is a perfect-square monomial after the trig reduction
    # (e.g. sqrt(q^2 (a^2+b^2+c^2)) with a unit vector): sqrt(t^2) = t for t >= 0
    # (stated assumption: q and the other factors are non-negative)
    import math
    for sx, (i, t) in list(atoms.items()):
        if z3.is_app(t) and t.decl().name() == "sqrt" and t.num_args() == 1:
            try:
                P = reduce_trig(cancel_inverses(to_poly(t.arg(0), atoms)), pairs)
            except NotPolynomial:
                continue
            if len(P.t) == 1:
                (m, c), = P.t.items()
                if c > 0 and all(e % 2 == 0 for v, e in m):
                    rn, rd = math.isqrt(c.numerator), math.isqrt(c.denominator)
                    if rn * rn == c.numerator and rd * rd == c.denominator:
                        mono = Poly({tuple((v, e // 2) for v, e in m): Fraction(rn, rd)})
                        diffs = [substitute_var(d, i, mono) for d in diffs]
    # sqrt atoms: s^2 -> radicand
    sq = {}
    for sx, (i, t) in list(atoms.items()):
        if z3.is_app(t) and t.decl().name() == "sqrt" and t.num_args() == 1:
            try:
                sq[i] = to_poly(t.arg(0), atoms)
            except NotPolynomial:
                pass
    bad = []
    for d in diffs:
        r = reduce_trig(cancel_inverses(d), pairs)
        if sq:
            r = reduce_trig(reduce_sqrt(r, sq), pairs)
            if _ctx.get("nonneg") is not None:
                _ctx["pairs"] = pairs
                r = reduce_trig(cancel_inverses(merge_sqrt(r, atoms)), pairs)
                _ctx["pairs"] = []
        r = combine_exp(r, atoms)
        if not r.is_zero():
            bad.append(r)
    if not bad:
        return "unsat", None
    # numeric witness
    import math
    rng = random.Random(12345)
    byidx = {i: t for s, (i, t) in atoms.items()}
    for _ in range(50):
        val = {}
        for s, c in pairs:
            a = rng.uniform(-3.0, 3.0)
            val[s], val[c] = math.sin(a), math.cos(a)
        for i in byidx:
            if i not in val:
                val[i] = rng.uniform(-2.0, 2.0)
        for r in bad:
            tot = 0.0
            for m, coef in r.t.items():
                x = float(coef)
                for v, e in m:
                    x *= val[v] ** e
                tot += x
            if abs(tot) > 1e-9:
                return "sat", {str(byidx[i]): val[i] for i in byidx}
    return "unknown", None
