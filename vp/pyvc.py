"""
pyvc -- verification-condition generator for Python functions.

The functions under contract are re-read from the repository's source files
with `ast` on every run and executed by this interpreter over *symbolic*
values (z3 terms).  Nothing is imported from the function under contract
except module-level data (constants, tables, classes used as records); the
bodies that are executed always come from the AST of the current tree.

Design (DESIGN.md section 2.1):
  * values: Python constants, `Sym` (z3 Int/Real/Bool), `SList`, `SDict`
    (finite key universe, symbolic presence bit), `SObj` (records / instances
    of repository classes), `SArr` (1-D numpy arrays: length + element
    function over a mutable buffer, views alias their base);
  * control flow: symbolic branches are *merged* (ite) when both arms
    complete normally and their states can be merged, otherwise the run is
    *forked* (re-executed with a decision prefix);
  * calls: a callee with a registered contract/summary is replaced by it;
    repository functions on the inline list are interpreted from their AST;
    a small table of library models (numpy, builtins) supplies the axioms of
    DESIGN.md section 3.3; anything else raises OutsideSubset.
"""
from __future__ import annotations

import ast
import builtins
import importlib
import inspect
import math
import os
import sys
import types
from fractions import Fraction

import z3

from .core import OutsideSubset, REPO

# --------------------------------------------------------------------------
# symbolic scalars
# --------------------------------------------------------------------------


_nan_counter = [0]


def _real_of_float(x):
    if isinstance(x, bool):
        return z3.RealVal(int(x))
    if isinstance(x, int):
        return z3.RealVal(x)
    if x != x:
        # NaN used as an "uninitialised" marker: an arbitrary real
        _nan_counter[0] += 1
        return z3.Real("nan!%d" % _nan_counter[0])
    if x in (float("inf"), float("-inf")):
        raise OutsideSubset("non-finite float %r in symbolic arithmetic" % (x,))
    fr = Fraction(x)
    return z3.Q(fr.numerator, fr.denominator) if fr.denominator != 1 else z3.RealVal(fr.numerator)


def is_sym(v):
    return isinstance(v, Sym)


class Sym(object):
    """A z3 Int, Real or Bool term with Python's numeric operator semantics."""
    __slots__ = ("e",)
    __hash__ = None

    def __init__(self, e):
        self.e = e

    # kind
    @property
    def is_int(self):
        return z3.is_int(self.e)

    @property
    def is_real(self):
        return z3.is_real(self.e)

    @property
    def is_bool(self):
        return z3.is_bool(self.e)

    def __repr__(self):
        return "Sym(%s)" % (self.e,)

    def __bool__(self):
        raise RuntimeError("truth value of a symbolic term requested outside the interpreter")

    # arithmetic
    def _bin(self, other, op, swap=False):
        a, b = (other, self) if swap else (self, other)
        return arith(op, a, b)

    def __add__(self, o): return self._bin(o, "+")
    def __radd__(self, o): return self._bin(o, "+", True)
    def __sub__(self, o): return self._bin(o, "-")
    def __rsub__(self, o): return self._bin(o, "-", True)
    def __mul__(self, o): return self._bin(o, "*")
    def __rmul__(self, o): return self._bin(o, "*", True)
    def __truediv__(self, o): return self._bin(o, "/")
    def __rtruediv__(self, o): return self._bin(o, "/", True)
    def __floordiv__(self, o): return self._bin(o, "//")
    def __rfloordiv__(self, o): return self._bin(o, "//", True)
    def __mod__(self, o): return self._bin(o, "%")
    def __rmod__(self, o): return self._bin(o, "%", True)
    def __pow__(self, o): return self._bin(o, "**")
    def __rpow__(self, o): return self._bin(o, "**", True)
    def __neg__(self): return Sym(-num_expr(self))
    def __pos__(self): return self
    def __abs__(self):
        e = num_expr(self)
        return Sym(z3.If(e >= 0, e, -e))

    def __lt__(self, o): return compare("<", self, o)
    def __le__(self, o): return compare("<=", self, o)
    def __gt__(self, o): return compare(">", self, o)
    def __ge__(self, o): return compare(">=", self, o)
    def __eq__(self, o): return compare("==", self, o)
    def __ne__(self, o): return compare("!=", self, o)


def num_expr(v):
    """z3 arithmetic term of a scalar value (bool -> 0/1)."""
    if isinstance(v, Sym):
        if v.is_bool:
            return z3.If(v.e, z3.IntVal(1), z3.IntVal(0))
        return v.e
    if isinstance(v, bool):
        return z3.IntVal(int(v))
    if isinstance(v, int):
        return z3.IntVal(v)
    if isinstance(v, float):
        return _real_of_float(v)
    if isinstance(v, Fraction):
        return z3.RealVal(v.numerator) / z3.RealVal(v.denominator)
    if type(v).__module__ == "numpy":  # numpy scalar
        import numpy as np
        if isinstance(v, np.bool_):
            return z3.IntVal(int(v))
        if isinstance(v, np.integer):
            return z3.IntVal(int(v))
        if isinstance(v, np.floating):
            return _real_of_float(float(v))
    raise OutsideSubset("not a scalar: %r" % (v,))


def is_str_sym(v):
    return isinstance(v, Sym) and z3.is_string(v.e)


def str_expr(v):
    if isinstance(v, Sym):
        return v.e
    if isinstance(v, str):
        return z3.StringVal(v)
    raise OutsideSubset("not a string: %r" % (v,))


def str_format(fmt, args):
    """'..%d..%s..' % args with symbolic strings among the arguments (only %s and %d
    conversions of concrete ints / strings)."""
    import re as _re
    parts, pos, k = [], 0, 0
    for m in _re.finditer(r"%(%|[sdr])", fmt):
        if m.start() > pos:
            parts.append(z3.StringVal(fmt[pos:m.start()]))
        pos = m.end()
        if m.group(1) == "%":
            parts.append(z3.StringVal("%"))
            continue
        arg = args[k]
        k += 1
        if is_str_sym(arg):
            if m.group(1) != "s":
                raise OutsideSubset("symbolic string formatted with %%%s" % m.group(1))
            parts.append(arg.e)
        elif isinstance(arg, Sym):
            raise OutsideSubset("symbolic number in string formatting")
        else:
            parts.append(z3.StringVal(("%" + m.group(1)) % (arg,)))
    if "%" in _re.sub(r"%(%|[sdr])", "", fmt):
        raise OutsideSubset("format %r" % fmt)
    if pos < len(fmt):
        parts.append(z3.StringVal(fmt[pos:]))
    if k != len(args):
        raise IRaise(TypeError("not all arguments converted during string formatting"))
    return Sym(z3.Concat(*parts) if len(parts) > 1 else parts[0])


def bool_expr(v):
    if isinstance(v, Sym):
        if v.is_bool:
            return v.e
        return v.e != 0
    if isinstance(v, (bool, int, float)):
        return z3.BoolVal(bool(v))
    if v is None:
        return z3.BoolVal(False)
    if type(v).__module__ == "numpy":
        return z3.BoolVal(bool(v))
    raise OutsideSubset("not a truth value: %r" % (v,))


def is_scalar(v):
    if isinstance(v, (Sym, bool, int, float)):
        return True
    if type(v).__module__ == "numpy":
        import numpy as np
        return isinstance(v, np.generic)
    return False


def _coerce(a, b):
    ea, eb = num_expr(a), num_expr(b)
    if z3.is_int(ea) and z3.is_real(eb):
        ea = z3.ToReal(ea)
    elif z3.is_real(ea) and z3.is_int(eb):
        eb = z3.ToReal(eb)
    return ea, eb


POW_UF = z3.Function("pow", z3.RealSort(), z3.RealSort(), z3.RealSort())
RMUL = z3.Function("rmul", z3.RealSort(), z3.RealSort(), z3.RealSort())
ABSTRACT = {"mul": False}
PYDIV = z3.Function("pydiv", z3.IntSort(), z3.IntSort(), z3.IntSort())
PYMOD = z3.Function("pymod", z3.IntSort(), z3.IntSort(), z3.IntSort())


def arith(op, a, b):
    if not (is_scalar(a) and is_scalar(b)):
        return NotImplemented
    ea, eb = _coerce(a, b)
    if op == "+":
        return Sym(ea + eb)
    if op == "-":
        return Sym(ea - eb)
    if op == "*":
        if ABSTRACT["mul"] and z3.is_real(ea) and z3.is_real(eb) \
                and not z3.is_rational_value(z3.simplify(ea)) and not z3.is_rational_value(z3.simplify(eb)):
            # product of two symbolic reals as an uninterpreted function: keeps a VC in
            # EUF + linear arithmetic when only congruence of the products matters
            return Sym(RMUL(ea, eb))
        return Sym(ea * eb)
    if op == "/":
        if z3.is_int(ea):
            ea, eb = z3.ToReal(ea), z3.ToReal(eb)
        return Sym(ea / eb)
    if op in ("//", "%") and z3.is_int(ea) and z3.is_int(eb) and not z3.is_int_value(z3.simplify(eb)):
        # division/modulo by a symbolic divisor: uninterpreted (the facts the proofs need
        # about them are supplied as proved lemma instances; keeps the VCs linear)
        return Sym((PYDIV if op == "//" else PYMOD)(ea, eb))
    if op == "//":
        if z3.is_int(ea):
            # Python floor division; z3 div is Euclidean: equal for b > 0,
            # for b < 0 floor(a/b) = -ceil(a/-b)
            return Sym(z3.If(eb > 0, ea / eb, -((-ea) / (-eb)) if False else
                             z3.If(ea % eb == 0, ea / eb, ea / eb - 1) if False else
                             _floordiv(ea, eb)))
        return Sym(z3.ToReal(z3.ToInt(ea / eb)))
    if op == "%":
        if z3.is_int(ea):
            return Sym(_pymod(ea, eb))
        q = z3.ToReal(z3.ToInt(ea / eb))
        return Sym(ea - q * eb)
    if op == "**":
        if isinstance(b, Sym) and b.is_int:
            bv = simp_int(b.e)
            if bv is not None:
                b = bv
        elif isinstance(b, Sym) and b.is_real:
            sv = z3.simplify(b.e)
            if z3.is_rational_value(sv) and sv.denominator_as_long() == 1:
                b = sv.numerator_as_long()
            elif z3.is_rational_value(sv) and sv.numerator_as_long() == 1 and sv.denominator_as_long() == 2:
                b = 0.5
        if isinstance(b, int) and not isinstance(b, bool) and 0 <= b <= 8:
            r = z3.IntVal(1) if z3.is_int(ea) else z3.RealVal(1)
            for _ in range(b):
                r = r * ea
            return Sym(r)
        if isinstance(b, int) and -8 <= b < 0:
            r = z3.RealVal(1)
            x = z3.ToReal(ea) if z3.is_int(ea) else ea
            for _ in range(-b):
                r = r * x
            return Sym(1 / r)
        if isinstance(b, float) and b == 0.5:
            return Sym(SQRT(z3.ToReal(ea) if z3.is_int(ea) else ea))
        x = z3.ToReal(ea) if z3.is_int(ea) else ea
        y = z3.ToReal(eb) if z3.is_int(eb) else eb
        return Sym(POW_UF(x, y))
    raise OutsideSubset("operator %s" % op)


def _floordiv(ea, eb):
    # z3: a div b rounds so that remainder is non-negative.
    # Python: floor.  For b>0 identical.  For b<0: floor(a/b) = -( (-a) floor/ (-b))... use
    # floor(a/b) = (a div b) if b>0 else -((a) div (-b)) - (1 if a mod (-b) != 0 else 0)
    return z3.If(eb > 0, ea / eb,
                 z3.If(ea % (-eb) == 0, -(ea / (-eb)), -(ea / (-eb)) - 1))


def _pymod(ea, eb):
    # Python a % b has the sign of b; z3 mod is always >= 0
    return z3.If(eb > 0, ea % eb, z3.If(ea % (-eb) == 0, 0, (ea % (-eb)) + eb))


def compare(op, a, b):
    if a is None or b is None:
        if op == "==":
            return a is b if not (is_sym(a) or is_sym(b)) else False
        if op == "!=":
            return not (a is b) if not (is_sym(a) or is_sym(b)) else True
    if isinstance(a, Sym) and a.is_bool and isinstance(b, Sym) and b.is_bool:
        if op == "==":
            return Sym(a.e == b.e)
        if op == "!=":
            return Sym(a.e != b.e)
    if not (is_scalar(a) and is_scalar(b)):
        if op == "==":
            return False
        if op == "!=":
            return True
        raise OutsideSubset("comparison %r %s %r" % (a, op, b))
    ea, eb = _coerce(a, b)
    return Sym({"<": ea < eb, "<=": ea <= eb, ">": ea > eb, ">=": ea >= eb,
                "==": ea == eb, "!=": ea != eb}[op])


# uninterpreted special functions with the facts of DESIGN.md 3.3 -----------
R = z3.RealSort()
SQRT = z3.Function("sqrt", R, R)
EXP = z3.Function("exp", R, R)
LOG = z3.Function("log", R, R)
SIN = z3.Function("sin", R, R)
COS = z3.Function("cos", R, R)
ERF = z3.Function("erf", R, R)
J0 = z3.Function("j0", R, R)
GAMMALN = z3.Function("gammaln", R, R)
ARCSIN = z3.Function("arcsin", R, R)
ARCTAN = z3.Function("arctan", R, R)
PI = z3.Real("pi")


def fresh(prefix, sort="real", _n=[0]):
    _n[0] += 1
    name = "%s!%d" % (prefix, _n[0])
    if sort == "real":
        return Sym(z3.Real(name))
    if sort == "int":
        return Sym(z3.Int(name))
    if sort == "bool":
        return Sym(z3.Bool(name))
    raise ValueError(sort)


def ite(c, a, b):
    """Merge two scalar values under z3 condition c."""
    ea, eb = num_expr(a), num_expr(b)
    if isinstance(a, Sym) and a.is_bool or isinstance(a, bool):
        if isinstance(b, Sym) and b.is_bool or isinstance(b, bool):
            return Sym(z3.If(c, bool_expr(a), bool_expr(b)))
    if z3.is_int(ea) and z3.is_real(eb):
        ea = z3.ToReal(ea)
    elif z3.is_real(ea) and z3.is_int(eb):
        eb = z3.ToReal(eb)
    return Sym(z3.If(c, ea, eb))


# --------------------------------------------------------------------------
# heap values
# --------------------------------------------------------------------------

class Heap(object):
    """Registry of all mutable values, for snapshot/restore/merge."""

    def __init__(self):
        self.objs = []

    def add(self, o):
        self.objs.append(o)
        return o

    def snapshot(self):
        return (len(self.objs), [o._snap() for o in self.objs])

    def restore(self, snap):
        n, contents = snap
        del self.objs[n:]
        for o, c in zip(self.objs, contents):
            o._restore(c)


class Mutable(object):
    def _snap(self):
        raise NotImplementedError

    def _restore(self, c):
        raise NotImplementedError


class SList(Mutable):
    def __init__(self, items=()):
        self.items = list(items)

    def _snap(self):
        return list(self.items)

    def _restore(self, c):
        self.items = list(c)

    def __repr__(self):
        return "SList(%r)" % (self.items,)


class SGList(object):
    """Immutable guarded sequence: items are (guard, value); guard is True or
    a z3 Bool saying whether the item is present (snapshot of a dict with
    symbolic presence bits, or a comprehension over one)."""

    def __init__(self, items):
        self.items = list(items)

    def __repr__(self):
        return "SGList(%r)" % (self.items,)


MISSING = object()


class SDict(Mutable):
    """Ordered finite map: key -> (presence, value).  presence is True or a z3 Bool."""

    def __init__(self, entries=None, ordered=False):
        self.entries = dict(entries or {})
        self.ordered = ordered

    def _snap(self):
        return dict(self.entries)

    def _restore(self, c):
        self.entries = dict(c)

    def __repr__(self):
        return "SDict(%r)" % (self.entries,)


class SObj(Mutable):
    """Instance of a repository class (or a plain record)."""

    def __init__(self, cls=None, attrs=None, name=None):
        self.cls = cls
        self.attrs = dict(attrs or {})
        self.name = name

    def _snap(self):
        return dict(self.attrs)

    def _restore(self, c):
        self.attrs = dict(c)

    def __repr__(self):
        return "SObj<%s %s>" % (getattr(self.cls, "__name__", self.cls), self.name or "")


def _memo_get(fn):
    """Buffer contents are pure functions of the index term: cache per z3 term (chains of in-place
    updates that read the previous contents would otherwise be re-evaluated exponentially often)."""
    cache = {}

    def get(j):
        if isinstance(j, int):
            j = z3.IntVal(j)
        k = j.get_id()
        hit = cache.get(k)
        if hit is not None and hit[0].eq(j):
            return hit[1]
        v = fn(j)
        if len(cache) > 64:
            cache.clear()
        cache[k] = (j, v)
        return v
    return get


class SBuf(Mutable):
    """Backing store of a numpy array: total function index -> z3 term."""

    def __init__(self, get, n, kind="real", name=None):
        self.get = get      # callable(z3 Int) -> z3 term
        self.n = n          # int or z3 Int
        self.kind = kind
        self.name = name
        self.writes = 0

    def _snap(self):
        return (self.get, self.writes)

    def _restore(self, c):
        self.get, self.writes = c

    def store(self, idx, val):
        old = self.get
        self.writes += 1
        self.get = _memo_get(lambda j, old=old, idx=idx, val=val: z3.If(j == idx, val, old(j)))

    def store_range(self, lo, hi, fn):
        """buf[j] = fn(j) for lo <= j < hi."""
        old = self.get
        self.writes += 1
        self.get = _memo_get(lambda j, old=old: z3.If(z3.And(j >= lo, j < hi), fn(j), old(j)))


def int_expr(v):
    if isinstance(v, Sym):
        if v.is_int:
            return v.e
        if v.is_bool:
            return z3.If(v.e, z3.IntVal(1), z3.IntVal(0))
        raise OutsideSubset("real used as an index")
    if isinstance(v, (int,)):
        return z3.IntVal(int(v))
    if type(v).__module__ == "numpy":
        return z3.IntVal(int(v))
    raise OutsideSubset("not an integer: %r" % (v,))


def simp_int(e):
    """Return a Python int when the z3 Int term simplifies to a numeral."""
    if isinstance(e, int):
        return e
    s = z3.simplify(e)
    if z3.is_int_value(s):
        return s.as_long()
    return None


class SArr(object):
    """1-D numpy array: a (strided, contiguous) view [off, off+n) of a buffer.

    Immutable handle; the buffer is the mutable heap object.  Views share it.
    """

    def __init__(self, buf, off, n, dtype="f8", stride=1):
        self.buf = buf
        self.off = off if not isinstance(off, Sym) else off.e
        self.n = n if not isinstance(n, Sym) else n.e
        self.dtype_name = dtype
        self.stride = stride

    @property
    def kind(self):
        return self.buf.kind

    def length(self):
        n = simp_int(self.n) if not isinstance(self.n, int) else self.n
        return n if n is not None else Sym(self.n)

    def at(self, i):
        """z3 term of element i (z3 Int or int)."""
        i = z3.IntVal(i) if isinstance(i, int) else i
        off = z3.IntVal(self.off) if isinstance(self.off, int) else self.off
        if self.stride != 1:
            i = i * self.stride
        return self.buf.get(z3.simplify(off + i))

    def elem(self, i):
        return Sym(self.at(int_expr(i)))

    def __repr__(self):
        return "SArr<%s off=%s n=%s>" % (self.buf.name, self.off, self.n)


class DType(object):
    """Stand-in for numpy dtype objects: dtype.type(x) is the identity on reals."""

    def __init__(self, name="f8"):
        self.name = name
        self.type = lambda x=0.0: x
        self.itemsize = {"f8": 8, "f4": 4, "i4": 4}.get(name, 8)

    def __eq__(self, o):
        return isinstance(o, DType) and o.name == self.name

    def __hash__(self):
        return hash(self.name)


# --------------------------------------------------------------------------
# control-flow signals
# --------------------------------------------------------------------------

class IRaise(Exception):
    """An exception raised by the interpreted program."""

    def __init__(self, value, pc=None):
        Exception.__init__(self, repr(value))
        self.value = value


class _Return(Exception):
    def __init__(self, value):
        self.value = value


class _Break(Exception):
    pass


class _Continue(Exception):
    pass


class MergeFail(Exception):
    pass


class AliasMergeFail(MergeFail):
    """The two arms bind a name to arrays with different aliasing: never poisoned, always forked."""



class NeedFork(Exception):
    """Raised inside a merge attempt when an inner branch needs a fork."""


class Infeasible(Exception):
    """The current path condition became unsatisfiable."""


# --------------------------------------------------------------------------
# function values
# --------------------------------------------------------------------------

class IFunc(object):
    """A function whose body is an AST of the current tree."""

    def __init__(self, node, module, closure=None, qualname=None, cls=None):
        self.node = node
        self.module = module          # ModuleCtx
        self.closure = closure        # Frame or None
        self.qualname = qualname or getattr(node, "name", "<lambda>")
        self.cls = cls

    def __repr__(self):
        return "IFunc<%s.%s>" % (self.module.name, self.qualname)


class IBound(object):
    def __init__(self, func, self_obj):
        self.func = func
        self.self_obj = self_obj


class Summary(object):
    """A callee replaced by its contract: fn(interp, args, kwargs) -> value."""

    contract = True      # False for library-method models without ghost effects

    def __init__(self, fn, name=None, contract=True):
        self.fn = fn
        self.name = name or getattr(fn, "__name__", "summary")
        self.contract = contract

    def __repr__(self):
        return "Summary<%s>" % self.name


class ModuleCtx(object):
    """Source of one repository module, re-read from the current tree."""
    _cache = {}

    def __init__(self, modname):
        self.name = modname
        self.live = importlib.import_module(modname)
        path = inspect.getsourcefile(self.live)
        self.path = path
        self.source = open(path).read()
        self.tree = ast.parse(self.source, path)
        self.lines = self.source.splitlines()
        self.defs = {}
        self.defs_by_line = {}
        self._index(self.tree.body, "")

    def _index(self, body, prefix):
        for node in body:
            if isinstance(node, (ast.FunctionDef,)):
                self.defs[prefix + node.name] = node
                # same-named definitions (property getter / setter): also indexed by first line
                first = min([node.lineno] + [d.lineno for d in node.decorator_list])
                self.defs_by_line[(prefix + node.name, first)] = node
                self.defs_by_line[(prefix + node.name, node.lineno)] = node
            elif isinstance(node, ast.ClassDef):
                self.defs[prefix + node.name] = node
                self._index(node.body, prefix + node.name + ".")
            elif isinstance(node, (ast.If, ast.Try)):
                # conditional definitions at module level (e.g. fallbacks)
                for sub in ast.iter_child_nodes(node):
                    if isinstance(sub, (ast.FunctionDef, ast.ClassDef)):
                        self.defs.setdefault(prefix + sub.name, sub)

    @classmethod
    def get(cls, modname):
        if modname not in cls._cache:
            cls._cache[modname] = ModuleCtx(modname)
        return cls._cache[modname]

    def func_text(self, node):
        return "\n".join(self.lines[node.lineno - 1:node.end_lineno])


class Frame(object):
    def __init__(self, module, parent=None, func=None):
        self.vars = {}
        self.module = module
        self.parent = parent      # lexical parent (closure)
        self.func = func
        self.globals_declared = set()

    def lookup(self, name):
        f = self
        while f is not None:
            if name in f.vars:
                return f.vars[name]
            f = f.parent
        raise KeyError(name)

    def has(self, name):
        f = self
        while f is not None:
            if name in f.vars:
                return True
            f = f.parent
        return False


# --------------------------------------------------------------------------
# the interpreter
# --------------------------------------------------------------------------

PURE_BUILTINS = {
    abs, all, any, bool, chr, dict, divmod, enumerate, float, frozenset,
    hash, int, isinstance, issubclass, len, list, max, min, ord, pow, range,
    repr, reversed, round, set, slice, sorted, str, sum, tuple, type, zip,
    hasattr, id, callable, iter, next, print, map, filter,
}


class Interp(object):
    def __init__(self, reg=None, inline_modules=("sasmodels",), solver_timeout=5000):
        self.reg = reg
        self.heap = Heap()
        self.pc = []                   # list of z3 Bool
        self.decisions = []            # fork prefix
        self.dpos = 0
        self.pending = []              # alternative prefixes
        self.summaries = {}            # qualified name -> Summary
        self.models = {}               # id(real callable) -> handler(interp,args,kwargs)
        self.inline_modules = tuple(inline_modules)
        self.no_inline = set()         # qualified names that must have a contract
        self.frames = []
        self.merge_depth = 0
        self.solver_timeout = solver_timeout
        self.side = []                 # side obligations (id, pc, goal, where)
        self.under_contract = {}       # functions whose body was executed
        self.trace_calls = []
        self.loop_specs = {}           # (qualname, ordinal) -> LoopSpec
        self.ghost = {}
        self.steps = 0
        from . import pymodels
        pymodels.install(self)

    # ---- allocation -------------------------------------------------------
    def new_list(self, items=()):
        return self.heap.add(SList(items))

    def new_dict(self, entries=None, ordered=False):
        return self.heap.add(SDict(entries, ordered))

    def new_obj(self, cls=None, attrs=None, name=None):
        return self.heap.add(SObj(cls, attrs, name))

    def new_buf(self, get, n, kind="real", name=None):
        return self.heap.add(SBuf(get, n, kind, name))

    def new_array(self, name, n, kind="real", dtype=None, constrain=None):
        """Fresh symbolic array `name` of length n (int or Sym/z3 Int)."""
        sort = z3.RealSort() if kind == "real" else z3.IntSort()
        f = z3.Function(name, z3.IntSort(), sort)
        n = n.e if isinstance(n, Sym) else n
        buf = self.new_buf(lambda j, f=f: f(j), n, kind, name)
        buf.base_fn = f
        return SArr(buf, 0, n, dtype or ("f8" if kind == "real" else "i4"))

    def array_from_fn(self, fn, n, kind="real", name=None, dtype=None):
        n = n.e if isinstance(n, Sym) else n
        buf = self.new_buf(fn, n, kind, name)
        return SArr(buf, 0, n, dtype or ("f8" if kind == "real" else "i4"))

    # ---- solver helpers ---------------------------------------------------
    def _sync_solver(self):
        """Incremental solver mirroring self.pc (one push level per conjunct)."""
        s = getattr(self, "_solver", None)
        if s is None:
            s = self._solver = z3.Solver()
            s.set("timeout", self.solver_timeout)
            self._asserted = []
        k = 0
        asserted = self._asserted
        pc = self.pc
        n = min(len(asserted), len(pc))
        while k < n and asserted[k] is pc[k]:
            k += 1
        if k < len(asserted):
            s.pop(len(asserted) - k)
            del asserted[k:]
        for p in pc[k:]:
            s.push()
            s.add(p)
            asserted.append(p)
        return s

    def _check(self, extra):
        s = self._sync_solver()
        s.push()
        for e in extra:
            s.add(e)
        r = s.check()
        s.pop()
        return r

    def implied(self, cond):
        """pc => cond is valid?"""
        return self._check([z3.Not(cond)]) == z3.unsat

    def feasible(self, cond):
        return self._check([cond]) != z3.unsat

    def assume(self, cond):
        if isinstance(cond, Sym):
            cond = bool_expr(cond)
        if isinstance(cond, bool):
            if not cond:
                raise Infeasible()
            return
        self.pc.append(cond)

    def side_obligation(self, kind, goal, where=None):
        """Record a safety side-obligation (index in bounds, divisor non-zero...)."""
        if isinstance(goal, bool):
            if goal:
                return
            goal = z3.BoolVal(False)
        if kind in getattr(self, "assume_sides", ()):
            # stated value-domain precondition of the function under contract
            self.pc.append(goal)
            self.__dict__.setdefault("assumed_sides", []).append((kind, where or self.where()))
            return
        self.side.append((kind, list(self.pc), goal, where or self.where()))

    def discharge_sides(self, reg, prefix, function=None, replay=None):
        """Prove the recorded safety side-obligations (index/slice in bounds,
        divisor non-zero, shapes match), batched per (kind, path condition)."""
        groups = {}
        for kind, spc, goal, where in self.side:
            key = (kind, tuple(p_.get_id() for p_ in spc))     # same path condition, not merely the same length
            g = groups.setdefault(key, (spc, [], []))
            s = goal.sexpr()
            if s not in g[2]:
                g[2].append(s)
                g[1].append((goal, where))
        for (kind, _), (spc, goals, _) in groups.items():
            oid = "%s.safe.%s" % (prefix, kind.replace(" ", "_"))
            conj = z3.And(*[g for g, _ in goals]) if len(goals) > 1 else goals[0][0]
            s = z3.Solver()
            s.set("timeout", 20000)
            s.add(*spc)
            s.add(z3.Not(conj))
            if s.check() == z3.unsat:
                reg.passed(oid, function=function)
                continue
            for goal, where in goals:
                reg.prove(oid, spc, goal, function=function, replay=replay,
                          describe=lambda m, where=where: {"where": where})
        self.side = []

    def where(self):
        if self.frames:
            f = self.frames[-1]
            return "%s:%s" % (getattr(f.func, "qualname", "?"), getattr(self, "cur_line", "?"))
        return "?"

    # ---- truth values / branching ----------------------------------------
    def truth(self, v):
        """Concrete bool or z3 Bool for value v (Python truthiness)."""
        if isinstance(v, Sym):
            return bool_expr(v)
        if isinstance(v, SList):
            return len(v.items) > 0
        if isinstance(v, SDict):
            if not v.entries:
                return False
            ps = [p for p, _ in v.entries.values()]
            if any(p is True for p in ps):
                return True
            return z3.Or(*ps)
        if isinstance(v, SArr):
            n = v.length()
            if isinstance(n, int) and n == 1:
                return bool_expr(v.elem(0))
            raise OutsideSubset("truth value of an array")
        if isinstance(v, (SObj, IFunc, IBound, Summary)):
            return True
        return bool(v)

    def decide(self, cond):
        """Return a concrete bool for z3/py condition, forking if needed."""
        if isinstance(cond, bool):
            return cond
        cond = z3.simplify(cond)
        if z3.is_true(cond):
            return True
        if z3.is_false(cond):
            return False
        if self.implied(cond):
            return True
        if self.implied(z3.Not(cond)):
            return False
        if self.merge_depth > 0:
            raise NeedFork()
        if self.dpos < len(self.decisions):
            d = self.decisions[self.dpos]
        else:
            d = True
            self.pending.append(self.decisions[:self.dpos] + [False])
            self.decisions.append(True)
            fs = self.__dict__.setdefault("fork_sites", {})
            w = self.where()
            fs[w] = fs.get(w, 0) + 1
        self.dpos += 1
        self.pc.append(cond if d else z3.Not(cond))
        return d

    # ---- driver -----------------------------------------------------------
    def run_paths(self, body, max_paths=2000):
        """Run `body(interp)` once per path.  body sets up inputs, calls
        the function under contract and states the postconditions."""
        self.pending = [[]]
        npaths = 0
        while self.pending:
            prefix = self.pending.pop()
            self.decisions = list(prefix)
            self.dpos = 0
            self.pc = []
            self._solver = None
            self.heap = Heap()
            self.frames = []
            self.ghost = {}
            self.trace_calls = []
            self.merge_depth = 0
            npaths += 1
            if npaths > max_paths:
                raise OutsideSubset("more than %d paths" % max_paths)
            try:
                body(self)
            except Infeasible:
                pass
        return npaths

    # ---- calling ----------------------------------------------------------
    def get_func(self, modname, qualname, firstlineno=None):
        """IFunc for a function/method of a repository module, from its AST."""
        mod = ModuleCtx.get(modname)
        node = mod.defs_by_line.get((qualname, firstlineno)) if firstlineno is not None else None
        if node is None:
            node = mod.defs.get(qualname)
        if node is None or not isinstance(node, ast.FunctionDef):
            raise OutsideSubset("no function %s in %s" % (qualname, modname))
        cls = None
        if "." in qualname:
            cls = getattr(mod.live, qualname.split(".")[0], None)
        fn = IFunc(node, mod, None, qualname, cls)
        if self.reg is not None:
            self.reg.function_under_contract(
                "%s.%s" % (modname, qualname), mod.path, node.lineno, node.end_lineno,
                mod.func_text(node))
        return fn

    def lift_callable(self, f):
        """Map a live function object of an inlinable module to its AST."""
        if isinstance(f, types.MethodType):
            inner = self.lift_callable(f.__func__)
            if isinstance(inner, IFunc):
                return IBound(inner, f.__self__)
            return f
        if isinstance(f, types.FunctionType):
            modname = getattr(f, "__module__", "") or ""
            if modname.split(".")[0] in self.inline_modules:
                q = "%s.%s" % (modname, f.__qualname__)
                if q in self.summaries:
                    return self.summaries[q]
                if "<locals>" in f.__qualname__ or "<lambda>" in f.__qualname__:
                    return f
                if q in self.no_inline:
                    raise OutsideSubset("callee %s has no contract" % q)
                try:
                    return self.get_func(modname, f.__qualname__, getattr(f.__code__, "co_firstlineno", None))
                except OutsideSubset:
                    return f
        return f

    def call(self, f, args, kwargs=None):
        kwargs = kwargs or {}
        self.steps += 1
        if isinstance(f, Summary):
            if f.contract and self.merge_depth > 0:
                # a callee contract has effects on harness-side ghost state:
                # never run it inside a tentative (merge) execution
                raise NeedFork()
            return f.fn(self, list(args), kwargs)
        if isinstance(f, IBound):
            return self.call(f.func, [f.self_obj] + list(args), kwargs)
        if isinstance(f, IFunc):
            q = "%s.%s" % (f.module.name, f.qualname)
            if q in self.summaries and not getattr(f, "force_inline", False):
                return self.call(self.summaries[q], args, kwargs)
            return self.call_ifunc(f, args, kwargs)
        if isinstance(f, SObj):
            m = self.getattr(f, "__call__")
            return self.call(m, args, kwargs)
        if isinstance(f, types.MethodType) and isinstance(f.__self__, SObj):
            return self.call(self.lift_callable(f.__func__), [f.__self__] + list(args), kwargs)
        # live python callable
        h = self.models.get(_key(f))
        if h is not None:
            return h(self, list(args), kwargs)
        lifted = self.lift_callable(f)
        if lifted is not f:
            return self.call(lifted, args, kwargs)
        if isinstance(f, type):
            return self.instantiate(f, args, kwargs)
        cargs = [self.concretize(a) for a in args]
        ckw = {k: self.concretize(v) for k, v in kwargs.items()}
        if self._concrete_ok(f, cargs, ckw):
            try:
                r = f(*cargs, **ckw)
            except IRaise:
                raise
            except Exception as exc:
                raise IRaise(exc)
            return self.wrap_fresh(f, r)
        raise OutsideSubset("call of %r with symbolic arguments has no model" % (f,))

    FRESH = {"copy", "sorted", "list", "dict", "split", "keys", "items", "values", "deepcopy"}

    def concretize(self, v):
        """Fully concrete SList/SDict -> list/dict (for calls of live functions)."""
        if isinstance(v, SList):
            items = [self.concretize(x) for x in v.items]
            if all(not isinstance(x, (Sym, SList, SDict, SArr, SObj)) for x in items):
                return items
            return v
        if isinstance(v, SDict):
            if all(p is True for p, _ in v.entries.values()):
                vals = {k: self.concretize(x) for k, (p, x) in v.entries.items()}
                if all(not isinstance(x, (Sym, SList, SDict, SArr, SObj)) for x in vals.values()):
                    return vals
            return v
        return v

    def wrap_fresh(self, f, r):
        name = getattr(f, "__name__", "")
        if name in self.FRESH:
            if type(r) is dict or type(r).__name__ == "OrderedDict":
                return self.new_dict({k: (True, v) for k, v in r.items()})
            if type(r) is list:
                return self.new_list(r)
        return r

    def _concrete_ok(self, f, args, kwargs):
        def conc(v):
            if isinstance(v, (Sym, SList, SDict, SObj, SArr, IFunc, IBound, Summary)):
                return False
            if type(v).__name__ in ("SMat", "SBuf") and (type(v).__module__ or "").split(".")[0] == "vp":
                return False            # modelled arrays: not arguments for native code
            if isinstance(v, (tuple, list)):
                return all(conc(x) for x in v)
            return True
        if not all(conc(a) for a in args) or not all(conc(v) for v in kwargs.values()):
            return False
        return True

    def instantiate(self, cls, args, kwargs):
        modname = getattr(cls, "__module__", "")
        if issubclass(cls, BaseException):
            conc = [self.concretize_msg(a) for a in args]
            return cls(*conc)
        if modname.split(".")[0] in self.inline_modules:
            q = "%s.%s" % (modname, cls.__qualname__)
            if q in self.summaries:
                return self.summaries[q].fn(self, list(args), kwargs)
            obj = self.new_obj(cls, name=cls.__name__)
            init = self.class_attr(cls, "__init__")
            if init is not None:
                self.call(init, [obj] + list(args), kwargs)
            return obj
        if self._concrete_ok(cls, args, kwargs):
            return cls(*args, **kwargs)
        h = self.models.get(_key(cls))
        if h is not None:
            return h(self, list(args), kwargs)
        raise OutsideSubset("instantiation of %r" % (cls,))

    def concretize_msg(self, v):
        if isinstance(v, Sym):
            return "<symbolic %s>" % (v.e,)
        return v

    def class_attr(self, cls, name):
        """Look `name` up along the MRO of a live class; functions come from the AST."""
        for klass in cls.__mro__:
            if name in klass.__dict__:
                v = klass.__dict__[name]
                if isinstance(v, (staticmethod, classmethod)):
                    v = v.__func__
                if isinstance(v, types.FunctionType):
                    return self.lift_callable(v)
                return v
        return None

    def call_ifunc(self, f, args, kwargs):
        node = f.node
        frame = Frame(f.module, f.closure, f)
        self.bind_args(f, node.args, args, kwargs, frame)
        q = "%s.%s" % (f.module.name, f.qualname)
        self.under_contract[q] = self.under_contract.get(q, 0) + 1
        if len(self.frames) > 60:
            raise OutsideSubset("recursion too deep")
        self.frames.append(frame)
        try:
            if isinstance(node, ast.Lambda):
                return self.eval(node.body, frame)
            try:
                self.exec_block(node.body, frame)
            except _Return as r:
                return r.value
            return None
        finally:
            self.frames.pop()

    def bind_args(self, f, a, args, kwargs, frame):
        params = [p.arg for p in a.posonlyargs + a.args]
        defaults = a.defaults
        args = list(args)
        kwargs = dict(kwargs)
        ndef = len(defaults)
        for i, name in enumerate(params):
            if i < len(args):
                frame.vars[name] = args[i]
            elif name in kwargs:
                frame.vars[name] = kwargs.pop(name)
            else:
                di = i - (len(params) - ndef)
                if di < 0:
                    raise IRaise(TypeError("missing argument %s of %s" % (name, f.qualname)))
                frame.vars[name] = self.eval(defaults[di], Frame(f.module, f.closure, f))
        extra = args[len(params):]
        if a.vararg:
            frame.vars[a.vararg.arg] = tuple(extra)
        elif extra:
            raise IRaise(TypeError("too many positional arguments for %s" % f.qualname))
        for p, d in zip(a.kwonlyargs, a.kw_defaults):
            if p.arg in kwargs:
                frame.vars[p.arg] = kwargs.pop(p.arg)
            elif d is not None:
                frame.vars[p.arg] = self.eval(d, Frame(f.module, f.closure, f))
            else:
                raise IRaise(TypeError("missing keyword argument %s" % p.arg))
        if a.kwarg and "__symbolic_kwargs__" in kwargs:
            # harness-supplied **kwargs with symbolic presence bits (a copy,
            # as Python builds a fresh dict for **kwargs)
            src = kwargs.pop("__symbolic_kwargs__")
            frame.vars[a.kwarg.arg] = self.new_dict(src.entries)
        elif a.kwarg:
            frame.vars[a.kwarg.arg] = self.new_dict({k: (True, v) for k, v in kwargs.items()})
        elif kwargs:
            raise IRaise(TypeError("%s() got an unexpected keyword argument %r"
                                   % (f.qualname, sorted(kwargs)[0])))

    # ---- statements -------------------------------------------------------
    def exec_block(self, stmts, frame):
        for s in stmts:
            self.exec_stmt(s, frame)

    def exec_stmt(self, s, frame):
        self.cur_line = getattr(s, "lineno", None)
        m = getattr(self, "s_" + type(s).__name__, None)
        if m is None:
            raise OutsideSubset("statement %s at %s:%s" % (type(s).__name__, frame.module.name, s.lineno))
        return m(s, frame)

    def s_Expr(self, s, frame):
        if isinstance(s.value, ast.Constant):
            return
        self.eval(s.value, frame)

    def s_Pass(self, s, frame):
        pass

    def s_Import(self, s, frame):
        for al in s.names:
            mod = importlib.import_module(al.name)
            if al.asname:
                frame.vars[al.asname] = mod
            else:
                frame.vars[al.name.split(".")[0]] = importlib.import_module(al.name.split(".")[0])

    def s_ImportFrom(self, s, frame):
        pkg = frame.module.live.__package__ if s.level else None
        modname = ("." * s.level) + (s.module or "")
        mod = importlib.import_module(modname, pkg)
        for al in s.names:
            if not hasattr(mod, al.name):
                # 'from . import submodule'
                frame.vars[al.asname or al.name] = importlib.import_module(
                    ("." * s.level) + ((s.module + ".") if s.module else "") + al.name, pkg)
                continue
            frame.vars[al.asname or al.name] = getattr(mod, al.name)

    def s_Global(self, s, frame):
        frame.globals_declared.update(s.names)

    def s_Nonlocal(self, s, frame):
        pass

    def s_Assert(self, s, frame):
        v = self.eval(s.test, frame)
        c = self.truth(v)
        if not self.decide(c):
            raise IRaise(AssertionError())

    def s_Delete(self, s, frame):
        for t in s.targets:
            if isinstance(t, ast.Name):
                frame.vars.pop(t.id, None)
            elif isinstance(t, ast.Subscript):
                obj = self.eval(t.value, frame)
                key = self.eval_index(t.slice, frame)
                self.delitem(obj, key)
            else:
                raise OutsideSubset("del target")

    def s_Assign(self, s, frame):
        v = self.eval(s.value, frame)
        for t in s.targets:
            self.assign(t, v, frame)

    def s_AnnAssign(self, s, frame):
        if s.value is not None:
            self.assign(s.target, self.eval(s.value, frame), frame)

    def s_AugAssign(self, s, frame):
        op = type(s.op)
        t = s.target
        if isinstance(t, ast.Name):
            cur = self.load_name(t.id, frame)
            new = self.binop(op, cur, self.eval(s.value, frame), inplace=True)
            self.assign(t, new, frame)
        elif isinstance(t, ast.Attribute):
            obj = self.eval(t.value, frame)
            cur = self.getattr(obj, t.attr)
            new = self.binop(op, cur, self.eval(s.value, frame), inplace=True)
            self.setattr(obj, t.attr, new)
        elif isinstance(t, ast.Subscript):
            obj = self.eval(t.value, frame)
            key = self.eval_index(t.slice, frame)
            cur = self.getitem(obj, key)
            new = self.binop(op, cur, self.eval(s.value, frame), inplace=True)
            self.setitem(obj, key, new)
        else:
            raise OutsideSubset("augassign target")

    def assign(self, t, v, frame):
        if isinstance(t, ast.Name):
            if t.id in frame.globals_declared:
                # module-level state: kept per interpreter run (the harness may pre-seed it through
                # global_overrides, e.g. with an arbitrary symbolic value standing for any history)
                ov = self.__dict__.setdefault("global_overrides", None)
                if ov is None:
                    ov = self.global_overrides = {}
                if self.merge_depth > 0:
                    raise NeedFork()         # not part of the merged state
                ov[(frame.module.name, t.id)] = v
                return
            # nonlocal handling: python semantics assign locally unless declared
            frame.vars[t.id] = v
        elif isinstance(t, (ast.Tuple, ast.List)):
            items = self.iterate(v)
            starred = [i for i, e in enumerate(t.elts) if isinstance(e, ast.Starred)]
            if starred:
                raise OutsideSubset("starred assignment")
            if len(items) != len(t.elts):
                raise IRaise(ValueError("unpack: expected %d values, got %d" % (len(t.elts), len(items))))
            for e, x in zip(t.elts, items):
                self.assign(e, x, frame)
        elif isinstance(t, ast.Attribute):
            obj = self.eval(t.value, frame)
            self.setattr(obj, t.attr, v)
        elif isinstance(t, ast.Subscript):
            obj = self.eval(t.value, frame)
            key = self.eval_index(t.slice, frame)
            self.setitem(obj, key, v)
        else:
            raise OutsideSubset("assignment target %s" % type(t).__name__)

    def s_Return(self, s, frame):
        raise _Return(self.eval(s.value, frame) if s.value is not None else None)

    def s_Break(self, s, frame):
        raise _Break()

    def s_Continue(self, s, frame):
        raise _Continue()

    def s_Raise(self, s, frame):
        if s.exc is None:
            raise IRaise(getattr(self, "cur_exc", RuntimeError("re-raise")))
        v = self.eval(s.exc, frame)
        if isinstance(v, type) and issubclass(v, BaseException):
            v = v()
        raise IRaise(v)

    def s_FunctionDef(self, s, frame):
        frame.vars[s.name] = IFunc(s, frame.module, frame,
                                   (frame.func.qualname + ".<locals>." if frame.func else "") + s.name)

    def s_With(self, s, frame):
        # only context managers without effect on the modelled state
        for item in s.items:
            src = ast.unparse(item.context_expr)
            hook = getattr(self, "with_hook", None)
            if hook is not None and hook(src):
                # harness-modelled context manager (e.g. a ghost file): value bound, body run, exit called
                cm = self.eval(item.context_expr, frame)
                if item.optional_vars is not None:
                    self.assign(item.optional_vars, cm, frame)
                self.exec_block(s.body, frame)
                ex = self.getattr(cm, "__exit__", None) if isinstance(cm, SObj) else None
                if ex is not None:
                    self.call(ex, [None, None, None])
                return
            if not (src.startswith("np.errstate") or src.startswith("numpy.errstate")
                    or "lock" in src.lower() or src.startswith("push_seed")
                    or src.startswith("warnings.")):
                raise OutsideSubset("with %s" % src)
        self.exec_block(s.body, frame)

    def s_Try(self, s, frame):
        try:
            try:
                self.exec_block(s.body, frame)
            except IRaise as exc:
                for h in s.handlers:
                    if self.exc_matches(exc.value, h.type, frame):
                        if h.name:
                            frame.vars[h.name] = exc.value
                        old = getattr(self, "cur_exc", None)
                        self.cur_exc = exc.value
                        try:
                            self.exec_block(h.body, frame)
                        finally:
                            self.cur_exc = old
                        break
                else:
                    raise
            else:
                self.exec_block(s.orelse, frame)
        finally:
            if s.finalbody:
                self.exec_block(s.finalbody, frame)

    def exc_matches(self, val, tnode, frame):
        if tnode is None:
            return True
        t = self.eval(tnode, frame)
        if isinstance(t, tuple):
            return any(isinstance(val, x) for x in t)
        return isinstance(val, t)

    # -- if with merging ----------------------------------------------------
    def s_If(self, s, frame):
        v = self.eval(s.test, frame)
        c = self.truth(v)
        if isinstance(c, bool):
            return self.exec_block(s.body if c else s.orelse, frame)
        c = z3.simplify(c)
        if z3.is_true(c):
            return self.exec_block(s.body, frame)
        if z3.is_false(c):
            return self.exec_block(s.orelse, frame)
        if self.implied(c):
            return self.exec_block(s.body, frame)
        if self.implied(z3.Not(c)):
            return self.exec_block(s.orelse, frame)
        if self.try_merge(c, lambda: self.exec_block(s.body, frame),
                          lambda: self.exec_block(s.orelse, frame)):
            return
        if self.decide(c):
            self.exec_block(s.body, frame)
        else:
            self.exec_block(s.orelse, frame)

    def snapshot(self):
        frames = []
        seen = set()
        for fr in self.frames:
            f = fr
            while f is not None and id(f) not in seen:
                seen.add(id(f))
                frames.append((f, dict(f.vars)))
                f = f.parent
        return (self.heap.snapshot(), frames, len(self.pc), dict(self.ghost),
                len(self.side), len(self.trace_calls))

    def restore(self, snap):
        heap, frames, npc, ghost, nside, ncalls = snap
        self.heap.restore(heap)
        for f, vars_ in frames:
            f.vars = dict(vars_)
        del self.pc[npc:]
        self.ghost = dict(ghost)
        del self.side[nside:]
        del self.trace_calls[ncalls:]

    def try_merge(self, c, then_fn, else_fn):
        """Execute both arms under c / not c and merge; False if impossible
        (state is then restored and the caller forks)."""
        snap = self.snapshot()
        nframes = len(self.frames)
        self.merge_depth += 1
        try:
            try:
                self.pc.append(c)
                then_fn()
                s1 = self.snapshot()
                side1 = self.side[snap[4]:]
                pc1 = self.pc[snap[2] + 1:]
                calls1 = self.trace_calls[snap[5]:]
                self.restore(snap)
                self.pc.append(z3.Not(c))
                else_fn()
                s2 = self.snapshot()
                side2 = self.side[snap[4]:]
                pc2 = self.pc[snap[2] + 1:]
                calls2 = self.trace_calls[snap[5]:]
                if calls1 or calls2:
                    raise MergeFail("contract calls inside a merged branch")
                merged = self._merge_snaps(c, s1, s2, snap)
            except (NeedFork, MergeFail, IRaise, _Return, _Break, _Continue, Infeasible):
                del self.frames[nframes:]
                self.restore(snap)
                return False
        finally:
            self.merge_depth -= 1
        self.restore(snap)
        self._install(merged)
        # facts learned inside the arms become implications
        for p in pc1:
            self.pc.append(z3.Implies(c, p))
        for p in pc2:
            self.pc.append(z3.Implies(z3.Not(c), p))
        self.side.extend(side1)
        self.side.extend(side2)
        return True

    def _merge_snaps(self, c, s1, s2, s0=None):
        (n1, h1), f1, _, g1, _, _ = s1
        (n2, h2), f2, _, g2, _, _ = s2
        f0 = {id(f): v for f, v in s0[1]} if s0 is not None else {}
        # objects allocated inside an arm cannot be identified across arms
        # unless unreachable afterwards; we allow them only if not referenced
        base = min(n1, n2) if s0 is None else s0[0][0]
        objs = self.heap.objs
        merged_heap = []
        for i in range(base):
            merged_heap.append(self._merge_content(c, objs[i], h1[i], h2[i]))
        merged_frames = []
        d2 = {id(f): v for f, v in f2}
        for f, v1 in f1:
            v2 = d2.get(id(f))
            if v2 is None:
                raise MergeFail("frame mismatch")
            mv = {}
            for k in set(v1) | set(v2):
                # a local that cannot be merged (defined in one arm only, or
                # bound to different non-numeric values) becomes poison:
                # reading it before it is re-assigned leaves the subset
                a, b = v1.get(k, _UNDEF), v2.get(k, _UNDEF)
                try:
                    mv[k] = self._merge_value(c, a, b, base)
                except MergeFail as exc:
                    pre = f0.get(id(f), {}).get(k, _UNDEF)
                    if (a is not pre and b is not pre) or not getattr(self, "poison_one_arm", True) \
                            or isinstance(exc, AliasMergeFail):
                        raise          # assigned differently in both arms (or aliasing differs): fork
                    mv[k] = _Poison(None)
            merged_frames.append((f, mv))
        ghost = {}
        for k in set(g1) | set(g2):
            ghost[k] = self._merge_value(c, g1.get(k, _UNDEF), g2.get(k, _UNDEF), base)
        return (base, merged_heap, merged_frames, ghost)

    def _install(self, merged):
        base, heap, frames, ghost = merged
        for o, cont in zip(self.heap.objs[:base], heap):
            o._restore(cont)
        for f, vars_ in frames:
            f.vars = vars_
        self.ghost = ghost

    def _merge_value(self, c, a, b, base):
        if a is b:
            return a
        if a is _UNDEF or b is _UNDEF:
            return _Poison(a if b is _UNDEF else b)
        if isinstance(a, _Poison) or isinstance(b, _Poison):
            return a if isinstance(a, _Poison) else b
        if (isinstance(a, str) or is_str_sym(a)) and (isinstance(b, str) or is_str_sym(b)):
            if isinstance(a, str) and isinstance(b, str) and a == b:
                return a
            return Sym(z3.If(c, str_expr(a), str_expr(b)))
        if is_scalar(a) and is_scalar(b):
            if not is_sym(a) and not is_sym(b):
                try:
                    if type(a) is type(b) and a == b:
                        return a
                except Exception:
                    pass
            return ite(c, a, b)
        if isinstance(a, Mutable) and isinstance(b, Mutable):
            raise MergeFail("different heap objects")
        if isinstance(a, SArr) and isinstance(b, SArr):
            if a.buf is b.buf and _same(a.off, b.off) and _same(a.n, b.n):
                return a
            if _same(a.n, b.n) and a.kind == b.kind:
                # value-merge two arrays into a fresh immutable array -- only when neither is a view of a
                # buffer that existed before the branch (merging would forget that the result aliases it)
                if base is not None:
                    old = self.heap.objs[:base]
                    if any(o is a.buf for o in old) or any(o is b.buf for o in old):
                        raise AliasMergeFail("array aliasing differs between the arms")
                get = lambda j, a=a, b=b: z3.If(c, a.at(j), b.at(j))
                return self.array_from_fn(get, a.n, a.kind, "merge")
            raise MergeFail("arrays of different length")
        if isinstance(a, tuple) and isinstance(b, tuple) and len(a) == len(b):
            return tuple(self._merge_value(c, x, y, base) for x, y in zip(a, b))
        if a is None and b is None:
            return None
        try:
            if type(a) is type(b) and a == b:
                return a
        except Exception:
            pass
        raise MergeFail("cannot merge %r and %r" % (a, b))

    def _merge_content(self, c, obj, c1, c2):
        if isinstance(obj, SList):
            if len(c1) != len(c2):
                raise MergeFail("list lengths differ")
            return [self._merge_value(c, x, y, None) for x, y in zip(c1, c2)]
        if isinstance(obj, SDict):
            out = {}
            keys = list(c1) + [k for k in c2 if k not in c1]
            for k in keys:
                p1, v1 = c1.get(k, (False, None))
                p2, v2 = c2.get(k, (False, None))
                if p1 is p2 and v1 is v2:
                    out[k] = (p1, v1)
                    continue
                p = _simp_bool(z3.If(c, _b(p1), _b(p2)))
                if p1 is False:
                    v = v2
                elif p2 is False:
                    v = v1
                else:
                    v = self._merge_value(c, v1, v2, None)
                out[k] = (p, v)
            return out
        if isinstance(obj, SObj):
            out = {}
            for k in set(c1) | set(c2):
                out[k] = self._merge_value(c, c1.get(k, _UNDEF), c2.get(k, _UNDEF), None)
            return out
        if isinstance(obj, SBuf):
            g1, w1 = c1
            g2, w2 = c2
            if g1 is g2:
                return c1
            return (lambda j, g1=g1, g2=g2: z3.If(c, g1(j), g2(j)), max(w1, w2))
        raise MergeFail("unknown heap object")

    # -- loops -------------------------------------------------------------
    def s_While(self, s, frame):
        it = 0
        while True:
            v = self.eval(s.test, frame)
            c = self.truth(v)
            if not self.decide(c):
                break
            it += 1
            if it > 10000:
                raise OutsideSubset("while loop does not terminate symbolically")
            try:
                self.exec_block(s.body, frame)
            except _Break:
                return
            except _Continue:
                continue
        self.exec_block(s.orelse, frame)

    def s_For(self, s, frame):
        # loops with a sidecar contract (invariant or summary)
        spec = self.loop_spec_for(s, frame)
        if spec is not None:
            if getattr(spec, "wants_iter", True):
                return spec(self, s, frame, self.eval(s.iter, frame))
            return spec(self, s, frame, None)
        itv = self.eval(s.iter, frame)
        if isinstance(itv, SDict):
            return self.for_dict(s, frame, itv)
        from . import pymodels as _pm
        if isinstance(itv, _pm.DictView):
            return self.for_dict(s, frame, itv.d, what=itv.what)
        if isinstance(itv, SGList):
            return self.for_guarded(s, frame, itv.items)
        if isinstance(itv, SObj) and self.getattr(itv, "__iter__", None) is not None:
            it = self.call(self.getattr(itv, "__iter__"), [])
            nxt = self.getattr(it, "__next__")
            n = 0
            while True:
                try:
                    x = self.call(nxt, [])
                except IRaise as exc:
                    if isinstance(exc.value, StopIteration):
                        break
                    raise
                n += 1
                if n > 10000:
                    raise OutsideSubset("iterator does not terminate")
                self.assign(s.target, x, frame)
                try:
                    self.exec_block(s.body, frame)
                except _Break:
                    return
                except _Continue:
                    continue
            self.exec_block(s.orelse, frame)
            return
        items = self.iterate(itv)
        for x in items:
            self.assign(s.target, x, frame)
            try:
                self.exec_block(s.body, frame)
            except _Break:
                return
            except _Continue:
                continue
        self.exec_block(s.orelse, frame)

    def loop_spec_for(self, s, frame):
        if not self.loop_specs or frame.func is None:
            return None
        q = "%s.%s" % (frame.module.name, frame.func.qualname)
        # ordinal of this loop among the loops of the function
        loops = [n for n in ast.walk(frame.func.node) if isinstance(n, (ast.For, ast.While))]
        loops.sort(key=lambda n: (n.lineno, n.col_offset))
        k = loops.index(s)
        return self.loop_specs.get((q, k))

    def for_dict(self, s, frame, d, what="keys"):
        """Iterate a dict with symbolic presence bits: the body runs guarded."""
        items = []
        for key in list(d.entries.keys()):
            p, v = d.entries[key]
            if p is False:
                continue
            items.append((p, {"items": (key, v), "keys": key, "values": v}[what]))
        return self.for_guarded(s, frame, items)

    def for_guarded(self, s, frame, items):
        for p, x in items:
            if p is False:
                continue
            if p is True:
                self.assign(s.target, x, frame)
                try:
                    self.exec_block(s.body, frame)
                except _Continue:
                    continue
                continue

            def body(x=x):
                self.assign(s.target, x, frame)
                try:
                    self.exec_block(s.body, frame)
                except _Continue:
                    pass
            if not self.try_merge(p, body, lambda: None):
                if self.decide(p):
                    try:
                        self.assign(s.target, x, frame)
                        self.exec_block(s.body, frame)
                    except _Continue:
                        pass
                    except _Break:
                        return
        self.exec_block(s.orelse, frame)

    def iterate(self, v):
        """Concrete list of the items of an iterable value."""
        if isinstance(v, SList):
            return list(v.items)
        if isinstance(v, (list, tuple)):
            return list(v)
        from . import pymodels as _pm
        if isinstance(v, _pm.DictView):
            return _pm.dictview_items(self, v)
        if isinstance(v, SGList):
            out = []
            for p, x in v.items:
                if p is True or (p is not False and self.decide(p)):
                    out.append(x)
            return out
        if isinstance(v, SDict):
            out = []
            for k, (p, _) in v.entries.items():
                if p is True:
                    out.append(k)
                elif p is not False:
                    if self.decide(p):
                        out.append(k)
            return out
        if isinstance(v, SArr):
            n = v.length()
            if not isinstance(n, int):
                raise OutsideSubset("iteration over an array of symbolic length")
            return [v.elem(i) for i in range(n)]
        if isinstance(v, (range, str, dict, set, frozenset, zip, enumerate, map,
                          reversed, types.GeneratorType)) or hasattr(v, "__iter__"):
            if isinstance(v, (Sym,)):
                raise OutsideSubset("iteration over a scalar")
            import numpy as np
            if isinstance(v, np.ndarray):
                return list(v)
            return list(v)
        raise OutsideSubset("not iterable: %r" % (v,))

    # ---- expressions ------------------------------------------------------
    def eval(self, e, frame):
        m = getattr(self, "e_" + type(e).__name__, None)
        if m is None:
            raise OutsideSubset("expression %s at %s:%s" % (type(e).__name__, frame.module.name,
                                                            getattr(e, "lineno", "?")))
        return m(e, frame)

    def e_Constant(self, e, frame):
        return e.value

    def load_name(self, name, frame):
        if frame.has(name):
            v = frame.lookup(name)
            if isinstance(v, _Poison):
                raise OutsideSubset("variable %s defined on one branch only" % name)
            return v
        ov = getattr(self, "global_overrides", None)
        if ov and (frame.module.name, name) in ov:
            return ov[(frame.module.name, name)]
        g = frame.module.live.__dict__
        if name in g:
            v = g[name]
            return v
        if hasattr(builtins, name):
            return getattr(builtins, name)
        raise IRaise(NameError(name))

    def e_Name(self, e, frame):
        return self.load_name(e.id, frame)

    def e_Tuple(self, e, frame):
        out = []
        for x in e.elts:
            if isinstance(x, ast.Starred):
                out.extend(self.iterate(self.eval(x.value, frame)))
            else:
                out.append(self.eval(x, frame))
        return tuple(out)

    def e_List(self, e, frame):
        out = []
        for x in e.elts:
            if isinstance(x, ast.Starred):
                out.extend(self.iterate(self.eval(x.value, frame)))
            else:
                out.append(self.eval(x, frame))
        return self.new_list(out)

    def e_Set(self, e, frame):
        return set(self.eval(x, frame) for x in e.elts)

    def e_Dict(self, e, frame):
        d = self.new_dict()
        for k, v in zip(e.keys, e.values):
            if k is None:
                src = self.eval(v, frame)
                self.dict_update(d, src)
            else:
                d.entries[self.eval(k, frame)] = (True, self.eval(v, frame))
        return d

    def e_JoinedStr(self, e, frame):
        out = []
        for v in e.values:
            if isinstance(v, ast.Constant):
                out.append(str(v.value))
            else:
                x = self.eval(v.value, frame)
                out.append(format(self.concretize_msg(x)))
        return "".join(out)

    def e_Lambda(self, e, frame):
        return IFunc(e, frame.module, frame, "<lambda>")

    def e_IfExp(self, e, frame):
        v = self.eval(e.test, frame)
        c = self.truth(v)
        if isinstance(c, bool):
            return self.eval(e.body if c else e.orelse, frame)
        if self.implied(c):
            return self.eval(e.body, frame)
        if self.implied(z3.Not(c)):
            return self.eval(e.orelse, frame)
        # try a value merge: evaluate both arms under their guards
        box = {}
        ok = self.try_merge(c, lambda: box.__setitem__("a", self.eval(e.body, frame)),
                            lambda: box.__setitem__("b", self.eval(e.orelse, frame)))
        if ok:
            try:
                return self._merge_value(c, box["a"], box["b"], None)
            except MergeFail:
                pass
        if self.decide(c):
            return self.eval(e.body, frame)
        return self.eval(e.orelse, frame)

    def e_BoolOp(self, e, frame):
        is_and = isinstance(e.op, ast.And)
        conds = []
        pushed = 0
        v = None
        try:
            for sub in e.values:
                v = self.eval(sub, frame)     # evaluated under the guards so far
                t = self.truth(v)
                if not isinstance(t, bool):
                    t = z3.simplify(t)
                    if z3.is_true(t):
                        t = True
                    elif z3.is_false(t):
                        t = False
                if isinstance(t, bool):
                    if (is_and and not t) or (not is_and and t):
                        if not conds:
                            return v
                        return False if is_and else True
                    continue
                conds.append(t)
                self.pc.append(t if is_and else z3.Not(t))
                pushed += 1
            if not conds:
                return v
            return Sym(z3.And(*conds) if is_and else z3.Or(*conds))
        finally:
            for _ in range(pushed):
                self.pc.pop()

    def e_UnaryOp(self, e, frame):
        v = self.eval(e.operand, frame)
        if isinstance(e.op, ast.Not):
            t = self.truth(v)
            if isinstance(t, bool):
                return not t
            return Sym(z3.Not(t))
        if isinstance(e.op, ast.USub):
            from . import pymat as _pmat
            if isinstance(v, _pmat.SMat):
                return _pmat.mat_map(self, v, lambda x: -x)
            if isinstance(v, SArr):
                from . import pymodels as _pm
                return _pm.arr_map(self, v, lambda x: -x)
            return -v
        if isinstance(e.op, ast.UAdd):
            return v
        if isinstance(e.op, ast.Invert):
            from . import pymat as _pmat
            if isinstance(v, _pmat.SMat):
                return _pmat.mat_not(self, v)
            if isinstance(v, SArr):
                from . import pymodels as _pm
                return _pm.arr_map(self, v, lambda x: z3.Not(x) if z3.is_bool(x) else -x - 1, kind="bool")
            return ~v
        raise OutsideSubset("unary op")

    def e_BinOp(self, e, frame):
        a = self.eval(e.left, frame)
        b = self.eval(e.right, frame)
        return self.binop(type(e.op), a, b)

    OPS = {ast.Add: "+", ast.Sub: "-", ast.Mult: "*", ast.Div: "/", ast.FloorDiv: "//",
           ast.Mod: "%", ast.Pow: "**"}

    def binop(self, op, a, b, inplace=False):
        sym = self.OPS.get(op)
        if is_str_sym(a) or is_str_sym(b):
            if sym == "+" and (is_str_sym(a) or isinstance(a, str)) and (is_str_sym(b) or isinstance(b, str)):
                return Sym(z3.Concat(str_expr(a), str_expr(b)))
            if sym == "%" and isinstance(a, str):
                return str_format(a, b if isinstance(b, tuple) else (b,))
            raise OutsideSubset("operator %s on symbolic strings" % sym)
        if sym == "%" and isinstance(a, str) and isinstance(b, tuple) and any(is_str_sym(x) for x in b):
            return str_format(a, b)
        if sym == "+" and isinstance(a, tuple) and isinstance(b, SArr) and getattr(b, "from_tuple", False):
            # tuple + (symbolic slice of a tuple of scalars): the slice stays one element group of the tuple;
            # np.hstack lays the groups out consecutively
            return a + (b,)
        from . import pymat as _pmat
        if isinstance(a, _pmat.SMat) or isinstance(b, _pmat.SMat):
            if op in (ast.BitAnd, ast.BitOr):
                f = (lambda x, y: z3.And(x, y)) if op is ast.BitAnd else (lambda x, y: z3.Or(x, y))
                Ra, Ca, ea = _pmat.shape_of(self, a)
                Rb, Cb, eb = _pmat.shape_of(self, b)
                R, C = _pmat._bdim(self, Ra, Rb), _pmat._bdim(self, Ca, Cb)
                return _pmat.build(self, R, C, lambda r, c_: f(ea(_pmat._idx(Ra, r), _pmat._idx(Ca, c_)),
                                                               eb(_pmat._idx(Rb, r), _pmat._idx(Cb, c_))), "bool")
            return _pmat.mat_binop(self, sym, a, b, inplace)
        if isinstance(a, SArr) or isinstance(b, SArr):
            from . import pymodels
            if op in (ast.BitAnd, ast.BitOr):
                return pymodels.array_bitop(self, "&" if op is ast.BitAnd else "|", a, b)
            return pymodels.array_binop(self, sym, a, b, inplace)
        if isinstance(a, SList) or isinstance(b, SList):
            if sym == "+" and isinstance(a, SList) and isinstance(b, SList):
                if inplace:
                    a.items.extend(b.items)
                    return a
                return self.new_list(a.items + b.items)
            if sym == "*":
                lst, k = (a, b) if isinstance(a, SList) else (b, a)
                if isinstance(k, int):
                    return self.new_list(lst.items * k)
                if isinstance(k, Sym) and len(lst.items) == 1 and is_scalar(lst.items[0]):
                    # [x]*n with symbolic n: constant sequence of symbolic length
                    self.side_obligation("repeat count non-negative", int_expr(k) >= 0)
                    x = num_expr(lst.items[0])
                    return self.array_from_fn(lambda j, x=x: x, int_expr(k),
                                              "real" if z3.is_real(x) else "int", "rep")
            if sym == "+" and isinstance(a, SList) and isinstance(b, (list, tuple)):
                return self.new_list(a.items + list(b))
            raise OutsideSubset("list operator %s" % sym)
        if sym == "%" and isinstance(a, str):
            if isinstance(b, tuple):
                return a % tuple(self.concretize_msg(x) for x in b)
            return a % (self.concretize_msg(b),)
        if is_sym(a) or is_sym(b):
            r = arith(sym, a, b) if sym else NotImplemented
            if r is NotImplemented:
                raise OutsideSubset("operator %s on %r, %r" % (sym, a, b))
            if sym in ("/", "//", "%"):
                self.side_obligation("divisor non-zero", num_expr(b) != 0)
            return r
        import operator
        pyop = {ast.Add: operator.add, ast.Sub: operator.sub, ast.Mult: operator.mul,
                ast.Div: operator.truediv, ast.FloorDiv: operator.floordiv,
                ast.Mod: operator.mod, ast.Pow: operator.pow,
                ast.BitAnd: operator.and_, ast.BitOr: operator.or_,
                ast.BitXor: operator.xor, ast.LShift: operator.lshift,
                ast.RShift: operator.rshift, ast.MatMult: operator.matmul}[op]
        if op in (ast.BitAnd, ast.BitOr) and (is_sym(a) or is_sym(b)):
            raise OutsideSubset("bit operator on symbolic values")
        try:
            return pyop(a, b)
        except Exception as exc:
            raise IRaise(exc)

    def e_Compare(self, e, frame):
        left = self.eval(e.left, frame)
        conj = []
        for op, rn in zip(e.ops, e.comparators):
            right = self.eval(rn, frame)
            r = self.compare1(op, left, right)
            if isinstance(r, bool):
                if not r:
                    return False
            elif isinstance(r, Sym):
                conj.append(bool_expr(r))
            elif isinstance(r, SArr) or type(r).__name__ == "SMat":
                if len(e.ops) != 1:
                    raise OutsideSubset("chained array comparison")
                return r
            else:
                raise OutsideSubset("comparison result %r" % (r,))
            left = right
        if not conj:
            return True
        return Sym(z3.And(*conj) if len(conj) > 1 else conj[0])

    def compare1(self, op, a, b):
        if isinstance(op, ast.Is):
            return self.same_object(a, b)
        if isinstance(op, ast.IsNot):
            r = self.same_object(a, b)
            return not r
        if isinstance(op, (ast.In, ast.NotIn)):
            r = self.contains(b, a)
            if isinstance(op, ast.NotIn):
                if isinstance(r, bool):
                    return not r
                return Sym(z3.Not(bool_expr(r)))
            return r
        sym = {ast.Lt: "<", ast.LtE: "<=", ast.Gt: ">", ast.GtE: ">=", ast.Eq: "==",
               ast.NotEq: "!="}[type(op)]
        from . import pymat as _pmat
        if isinstance(a, _pmat.SMat) or isinstance(b, _pmat.SMat):
            return _pmat.mat_compare(self, sym, a, b)
        if isinstance(a, SArr) or isinstance(b, SArr):
            from . import pymodels
            return pymodels.array_compare(self, sym, a, b)
        if is_str_sym(a) or is_str_sym(b):
            if sym not in ("==", "!="):
                raise OutsideSubset("ordering of symbolic strings")
            if (isinstance(a, str) or is_str_sym(a)) and (isinstance(b, str) or is_str_sym(b)):
                eq = str_expr(a) == str_expr(b)
                return Sym(eq if sym == "==" else z3.Not(eq))
            return sym == "!="          # a string never equals a non-string
        if is_sym(a) or is_sym(b):
            return compare(sym, a, b)
        if isinstance(a, SList) and isinstance(b, SList) and sym in ("==", "!="):
            eq = len(a.items) == len(b.items) and all(
                self.compare1(ast.Eq(), x, y) is True for x, y in zip(a.items, b.items))
            return eq if sym == "==" else not eq
        import operator
        try:
            return {"<": operator.lt, "<=": operator.le, ">": operator.gt, ">=": operator.ge,
                    "==": operator.eq, "!=": operator.ne}[sym](a, b)
        except Exception as exc:
            raise IRaise(exc)

    def same_object(self, a, b):
        if a is b:
            return True
        if isinstance(a, SArr) and isinstance(b, SArr):
            return a.buf is b.buf and _same(a.off, b.off) and _same(a.n, b.n)
        return False

    def contains(self, container, x):
        if isinstance(container, SDict):
            if is_sym(x):
                raise OutsideSubset("symbolic key lookup")
            ent = container.entries.get(x)
            if ent is None:
                return False
            p = ent[0]
            return p if isinstance(p, bool) else Sym(p)
        if isinstance(container, SList):
            container = container.items
        if isinstance(container, (list, tuple, set, frozenset, str, dict, range)) or hasattr(container, "__contains__"):
            if is_str_sym(x):
                if isinstance(container, (list, tuple)):
                    ors = [x.e == str_expr(y) for y in container if isinstance(y, str) or is_str_sym(y)]
                    return Sym(z3.Or(*ors)) if ors else False
                raise OutsideSubset("symbolic string membership")
            if is_sym(x):
                if isinstance(container, (list, tuple)):
                    ors = [bool_expr(compare("==", x, y)) for y in container if is_scalar(y)]
                    return Sym(z3.Or(*ors)) if ors else False
                raise OutsideSubset("symbolic membership")
            if isinstance(container, (list, tuple)):
                for y in container:
                    if is_sym(y):
                        raise OutsideSubset("membership among symbolic items")
            return x in container
        raise OutsideSubset("membership in %r" % (container,))

    def e_Call(self, e, frame):
        f = self.eval(e.func, frame)
        args = []
        for a in e.args:
            if isinstance(a, ast.Starred):
                args.extend(self.iterate(self.eval(a.value, frame)))
            else:
                args.append(self.eval(a, frame))
        kwargs = {}
        for k in e.keywords:
            if k.arg is None:
                d = self.eval(k.value, frame)
                if isinstance(d, SDict):
                    for key, (p, v) in d.entries.items():
                        if p is True:
                            kwargs[key] = v
                        elif p is not False:
                            raise OutsideSubset("**kwargs with symbolic presence")
                else:
                    kwargs.update(d)
            else:
                kwargs[k.arg] = self.eval(k.value, frame)
        self.cur_line = getattr(e, "lineno", self.cur_line)
        return self.call(f, args, kwargs)

    def e_Attribute(self, e, frame):
        obj = self.eval(e.value, frame)
        return self.getattr(obj, e.attr)

    def e_Subscript(self, e, frame):
        obj = self.eval(e.value, frame)
        key = self.eval_index(e.slice, frame)
        return self.getitem(obj, key)

    def eval_index(self, node, frame):
        if isinstance(node, ast.Slice):
            return slice(self.eval(node.lower, frame) if node.lower else None,
                         self.eval(node.upper, frame) if node.upper else None,
                         self.eval(node.step, frame) if node.step else None)
        if isinstance(node, ast.Tuple):
            return tuple(self.eval_index(x, frame) for x in node.elts)
        return self.eval(node, frame)

    def e_Slice(self, e, frame):
        return self.eval_index(e, frame)

    def e_ListComp(self, e, frame):
        g = self.guarded_comp(e, frame)
        if g is not None:
            return g
        out = []
        self.comp(e.generators, 0, frame, lambda fr: out.append(self.eval(e.elt, fr)))
        return self.new_list(out)

    def e_GeneratorExp(self, e, frame):
        g = self.guarded_comp(e, frame)
        if g is not None:
            return g
        out = []
        self.comp(e.generators, 0, frame, lambda fr: out.append(self.eval(e.elt, fr)))
        return tuple(out)

    def guarded_comp(self, e, frame):
        """[elt for target in <dict view / guarded list with symbolic guards>]
        -> SGList; the element expression is evaluated under the guard."""
        if len(e.generators) != 1:
            return None
        g = e.generators[0]
        from . import pymodels as _pm
        src = self.eval(g.iter, frame)
        if isinstance(src, _pm.DictView):
            items = [(p, {"items": (k, v), "keys": k, "values": v}[src.what])
                     for k, (p, v) in src.d.entries.items() if p is not False]
        elif isinstance(src, SDict):
            items = [(p, k) for k, (p, v) in src.entries.items() if p is not False]
        elif isinstance(src, SGList):
            items = list(src.items)
        else:
            self._comp_src = src
            return None
        fr = Frame(frame.module, frame, frame.func)
        out = []
        for p, x in items:
            self.assign(g.target, x, fr)
            npc = len(self.pc)
            if p is not True:
                self.pc.append(p)
            try:
                guard = p
                skip = False
                for cond in g.ifs:
                    c = self.truth(self.eval(cond, fr))
                    if isinstance(c, bool):
                        if not c:
                            skip = True
                            break
                    else:
                        guard = _simp_bool(z3.And(_b(guard), c))
                        self.pc.append(c)
                if not skip and guard is not False:
                    out.append((guard, self.eval(e.elt, fr)))
            finally:
                del self.pc[npc:]
        if all(p is True for p, _ in out):
            vals = [v for _, v in out]
            return self.new_list(vals) if isinstance(e, ast.ListComp) else tuple(vals)
        return SGList(out)

    def e_SetComp(self, e, frame):
        out = []
        self.comp(e.generators, 0, frame, lambda fr: out.append(self.eval(e.elt, fr)))
        return set(out)

    def e_DictComp(self, e, frame):
        pair = ast.Tuple(elts=[e.key, e.value], ctx=ast.Load())
        fake = ast.ListComp(elt=pair, generators=e.generators)
        ast.copy_location(fake, e)
        ast.fix_missing_locations(fake)
        g = self.guarded_comp(fake, frame)
        if g is not None:
            from . import pymodels as _pm
            return _pm.builtin_dict(self, [g], {})
        d = self.new_dict()

        def add(fr):
            d.entries[self.eval(e.key, fr)] = (True, self.eval(e.value, fr))
        self.comp(e.generators, 0, frame, add)
        return d

    def comp(self, gens, i, frame, emit):
        if i == 0:
            frame = Frame(frame.module, frame, frame.func)
        if i == len(gens):
            emit(frame)
            return
        g = gens[i]
        if i == 0 and hasattr(self, "_comp_src"):
            srcv = self._comp_src
            del self._comp_src
        else:
            srcv = self.eval(g.iter, frame)
        for x in self.iterate(srcv):
            self.assign(g.target, x, frame)
            ok = True
            for cond in g.ifs:
                c = self.truth(self.eval(cond, frame))
                if not self.decide(c):
                    ok = False
                    break
            if ok:
                self.comp(gens, i + 1, frame, emit)

    # ---- attribute / item protocols --------------------------------------
    def getattr(self, obj, name, default=MISSING):
        from . import pymodels
        if isinstance(obj, SObj):
            if name in obj.attrs:
                v = obj.attrs[name]
                if isinstance(v, _Poison):
                    raise OutsideSubset("attribute %s set on one branch only" % name)
                return v
            if obj.cls is not None:
                for klass in obj.cls.__mro__:
                    if name in klass.__dict__:
                        v = klass.__dict__[name]
                        if isinstance(v, property):
                            return self.call(self.lift_callable(v.fget), [obj])
                        if isinstance(v, staticmethod):
                            return self.lift_callable(v.__func__)
                        if isinstance(v, classmethod):
                            return IBound(self.lift_callable(v.__func__), obj.cls)
                        if isinstance(v, types.FunctionType):
                            f = self.lift_callable(v)
                            if isinstance(f, (IFunc, Summary)):
                                return IBound(f, obj)
                            return types.MethodType(v, obj)
                        return v
            if default is not MISSING:
                return default
            raise IRaise(AttributeError("%r has no attribute %s" % (obj, name)))
        if isinstance(obj, pymodels.NanCheck) and name in ("any", "all"):
            return pymodels.LibMethod(lambda it, a, k, f=obj.flag: Sym(f), "isnan.any")
        from . import pymat as _pmat
        if isinstance(obj, (SArr, SList, SDict, Sym, _pmat.SMat)) or (isinstance(obj, (str, tuple, float, int)) and False):
            return pymodels.method(self, obj, name, default)
        try:
            v = getattr(obj, name)
        except AttributeError as exc:
            if default is not MISSING:
                return default
            raise IRaise(exc)
        return v

    def setattr(self, obj, name, v):
        if isinstance(obj, SObj):
            if obj.cls is not None:
                for klass in obj.cls.__mro__:
                    if name in klass.__dict__ and isinstance(klass.__dict__[name], property):
                        prop = klass.__dict__[name]
                        if prop.fset is None:
                            raise IRaise(AttributeError("can't set attribute %s" % name))
                        self.call(self.lift_callable(prop.fset), [obj, v])
                        return
            obj.attrs[name] = v
            return
        raise OutsideSubset("attribute store on live object %r.%s (would mutate shared state)"
                            % (type(obj).__name__, name))

    def getitem(self, obj, key):
        from . import pymodels
        return pymodels.getitem(self, obj, key)

    def setitem(self, obj, key, v):
        from . import pymodels
        return pymodels.setitem(self, obj, key, v)

    def delitem(self, obj, key):
        if isinstance(obj, SDict):
            ent = obj.entries.get(key)
            if ent is None or ent[0] is False:
                raise IRaise(KeyError(key))
            if ent[0] is not True:
                if not self.decide(ent[0]):
                    raise IRaise(KeyError(key))
            del obj.entries[key]
            return
        if isinstance(obj, SList) and isinstance(key, int):
            del obj.items[key]
            return
        raise OutsideSubset("del item")

    def dict_update(self, d, src):
        if isinstance(src, SDict):
            for k, (p, v) in src.entries.items():
                if p is True:
                    d.entries[k] = (True, v)
                elif p is not False:
                    old = d.entries.get(k, (False, None))
                    if old[0] is False:
                        d.entries[k] = (p, v)
                    else:
                        d.entries[k] = (_simp_bool(z3.Or(_b(old[0]), p)),
                                        self._merge_value(p, v, old[1], None))
        elif isinstance(src, dict):
            for k, v in src.items():
                d.entries[k] = (True, v)
        else:
            for k, v in self.iterate(src):
                d.entries[k] = (True, v)


class RangeInvariant(object):
    """Sidecar loop contract for `for v in range(lo, hi[, step])` with symbolic
    bounds: the classical rule (initially / preserved / exit), executed inside
    the current path.

      inv(it, frame, k)      -> z3 Bool: invariant at the loop head with v == k
      havoc(it, frame)       -> list of SBuf written by the body (their contents
                                are replaced by fresh functions)
      name                   -> obligation id prefix
    Obligations are proved through it.reg (named <name>.inv.initially,
    <name>.inv.preserved); on exit the state is the havoced state constrained
    by the invariant at the exit value (or the entry state if lo >= hi).
    """
    wants_iter = False

    def __init__(self, name, inv, havoc, function=None, replay=None, lemmas=()):
        self.name, self.inv, self.havoc = name, inv, havoc
        self.function, self.replay = function, replay
        self.lemmas = list(lemmas)    # lemma instances used by the proofs only

    def __call__(self, it, s, frame, _itv):
        call = s.iter
        if not (isinstance(call, ast.Call) and isinstance(call.func, ast.Name)
                and call.func.id == "range" and isinstance(s.target, ast.Name)):
            raise OutsideSubset("RangeInvariant on a loop that is not `for v in range(...)`")
        args = [it.eval(a, frame) for a in call.args]
        if len(args) == 1:
            lo, hi, step = 0, args[0], 1
        elif len(args) == 2:
            lo, hi, step = args[0], args[1], 1
        else:
            lo, hi, step = args
        if not isinstance(step, int) or step <= 0:
            raise OutsideSubset("loop step must be a positive constant")
        loe, hie = int_expr(lo), int_expr(hi)
        reg = it.reg
        v = s.target.id
        # 1. initially
        reg.prove(self.name + ".inv.initially", it.pc + self.lemmas + [loe < hie], self.inv(it, frame, loe),
                  function=self.function, replay=self.replay)
        # 2. preserved by an arbitrary iteration
        snap = it.snapshot()
        nframes = len(it.frames)
        bufs = self.havoc(it, frame)
        for b in bufs:
            f = z3.Function("havoc!%s!%d" % (b.name, len(it.heap.objs) + id(b) % 1000),
                            z3.IntSort(), z3.RealSort() if b.kind == "real" else z3.IntSort())
            b.get = (lambda j, f=f: f(j))
        k = fresh("k_" + v, "int").e
        it.pc.extend([k >= loe, k < hie, (k - loe) % step == 0, self.inv(it, frame, k)])
        frame.vars[v] = Sym(k)
        try:
            it.exec_block(s.body, frame)
        except _Continue:
            pass                       # `continue` ends this iteration: the invariant must hold
        except (_Break, _Return):
            raise OutsideSubset("break/return inside an invariant loop")
        it.discharge_sides(reg, self.name + ".body", function=self.function, replay=self.replay)
        reg.prove(self.name + ".inv.preserved", it.pc + self.lemmas + [k + step < hie],
                  self.inv(it, frame, k + step), function=self.function, replay=self.replay)
        # what the last iteration establishes is kept as the exit fact
        exit_fact_pc = list(it.pc[snap[2]:])
        last = z3.And(*exit_fact_pc) if exit_fact_pc else z3.BoolVal(True)
        contents_after = [b.get for b in bufs]
        # scalar locals assigned in the body: their values after the last iteration
        assigned = set()
        for node in ast.walk(ast.Module(body=s.body, type_ignores=[])):
            if isinstance(node, ast.Name) and isinstance(node.ctx, ast.Store):
                assigned.add(node.id)
        after_vars = {nm: frame.vars[nm] for nm in assigned if nm in frame.vars and nm != v}
        del it.frames[nframes:]
        it.restore(snap)
        # 3. exit state: entry state if no iteration, else the state after the
        #    last iteration (k + step >= hi) of the arbitrary-iteration run
        entered = loe < hie
        for b, g_after in zip(bufs, contents_after):
            g_before = b.get
            b.get = (lambda j, ga=g_after, gb=g_before: z3.If(entered, ga(j), gb(j)))
        it.pc.append(z3.Implies(entered, z3.And(last, k + step >= hie)))
        for nm, av in after_vars.items():
            bv = frame.vars.get(nm, _UNDEF)
            if av is bv:
                continue
            if is_scalar(av) and (bv is _UNDEF or is_scalar(bv)):
                frame.vars[nm] = av if bv is _UNDEF else ite(entered, av, bv)
            elif isinstance(av, SArr) and isinstance(bv, SArr) and av.buf is bv.buf:
                frame.vars[nm] = bv
            else:
                frame.vars[nm] = _Poison(None)
        frame.vars[v] = Sym(k)
        self.exit_k = k


class _Poison(object):
    def __init__(self, v):
        self.v = v


_UNDEF = object()


def _same(a, b):
    if isinstance(a, int) and isinstance(b, int):
        return a == b
    ea = z3.IntVal(a) if isinstance(a, int) else a
    eb = z3.IntVal(b) if isinstance(b, int) else b
    return z3.is_true(z3.simplify(ea == eb))


def _b(p):
    return z3.BoolVal(p) if isinstance(p, bool) else p


def _simp_bool(p):
    s = z3.simplify(p)
    if z3.is_true(s):
        return True
    if z3.is_false(s):
        return False
    return s


def _key(f):
    """Identity key of a live callable (bound methods of builtins compare by name)."""
    try:
        hash(f)
        return f
    except TypeError:
        return id(f)
